#!/usr/bin/env python3
"""tools/mutsurvey.py --out FILE [--max N] [--workers K] [--files a.cpp,b.cpp] [--seed S]
Development aid (never a registered command): a mutation survey that looks for edits the EXISTING TEST SUITE does not
notice and asks which of them the checks notice.

For each small line-level edit (operator flip, && <-> ||, constant + 1, dropped statement) in a library source file:
  1. apply it in one of K scratch worktrees under /tmp/wt/ms<i>, rebuild incrementally, run the full ctest suite;
  2. if the suite still passes, run the quick check of every property whose anchors name that file (on a scratch copy);
  3. append one JSON line to FILE: file, line, kind, old, new, tests (pass/fail/nobuild), caught_by [...].
Survivors with an empty caught_by are the candidates to read.  Worktrees are removed at the end (--keep to keep)."""
import json, os, random, re, subprocess, sys, threading, queue
sys.path.insert(0, os.path.dirname(os.path.dirname(os.path.abspath(__file__))))
from vlib import facts, scratch
from tools.blindspots import candidates, function_ranges

WT = "/tmp/wt/ms%d"


def sh(cmd, cwd=None, timeout=1800):
    r = subprocess.run(cmd, shell=True, cwd=cwd, stdout=subprocess.PIPE, stderr=subprocess.STDOUT, timeout=timeout)
    return r.returncode, r.stdout.decode(errors="replace")


def prepare(i, jobs):
    d = WT % i
    if not os.path.isdir(d):
        rc, out = sh("git -C /repo worktree add -q %s HEAD && cp -r /repo/googletest/. %s/googletest/" % (d, d))
        if rc:
            raise SystemExit(out)
        rc, out = sh("cmake -G Ninja -B _build -DCMAKE_BUILD_TYPE=RelWithDebInfo -DLIBTINS_BUILD_EXAMPLES=OFF >/dev/null && "
                     "cmake --build _build -j%d --target tests 2>&1 | tail -2" % jobs, cwd=d, timeout=3600)
        if rc:
            raise SystemExit(out)
    sh("git checkout -q -- .", cwd=d)
    return d


def main():
    a = sys.argv
    out_p = a[a.index("--out") + 1]
    mx = int(a[a.index("--max") + 1]) if "--max" in a else 400
    K = int(a[a.index("--workers") + 1]) if "--workers" in a else 4
    seed = int(a[a.index("--seed") + 1]) if "--seed" in a else 7
    props = [json.loads(l) for l in open(os.path.join(facts.VERIF, "properties.jsonl"))]
    anchors = {}
    for p in props:
        for f in p["anchors"]["files"]:
            anchors.setdefault(f, []).append(p["id"])
    if os.path.exists("/var/tmp/ms/site_map.json"):
        sm = json.load(open("/var/tmp/ms/site_map.json"))
        for f_, pids in sm.items():
            anchors[f_] = sorted(set(anchors.get(f_, []) + pids))
    files = a[a.index("--files") + 1].split(",") if "--files" in a else sorted(f for f in anchors if f.startswith("src/"))
    db = facts.extract(facts.REPO)
    muts = []
    for rel in files:
        path = os.path.join(facts.REPO, rel)
        if not os.path.exists(path):
            continue
        lines = [x + "\n" for x in open(path).read().split("\n")]
        for lo, hi, q in function_ranges(db, rel):
            for i, kind, new in candidates(lines, lo, hi):
                muts.append(dict(file=rel, fn=q, line=i + 1, kind=kind, old=lines[i].rstrip("\n"), new=new.rstrip("\n")))
    seen = set()
    uniq = []
    for m in muts:
        k = (m["file"], m["line"], m["kind"])
        if k not in seen:
            seen.add(k)
            uniq.append(m)
    random.seed(seed)
    random.shuffle(uniq)
    done = set()
    if os.path.exists(out_p):
        for l in open(out_p):
            try:
                r = json.loads(l)
                done.add((r["file"], r["line"], r["kind"]))
            except Exception:
                pass
    todo = [m for m in uniq if (m["file"], m["line"], m["kind"]) not in done][:mx]
    print("%d candidate edits, %d already surveyed, running %d on %d workers" % (len(uniq), len(done), len(todo), K), flush=True)
    q = queue.Queue()
    for m in todo:
        q.put(m)
    lock = threading.Lock()
    jobs = max(2, 16 // K)

    def worker(i):
        d = prepare(i, jobs)
        while True:
            try:
                m = q.get_nowait()
            except queue.Empty:
                return
            p = os.path.join(d, m["file"])
            src = open(p).read().split("\n")
            if src[m["line"] - 1] != m["old"]:
                continue
            src[m["line"] - 1] = m["new"]
            open(p, "w").write("\n".join(src))
            res = dict(m)
            try:
                rc, out = sh("cmake --build _build -j%d --target tests 2>&1 | tail -3" % jobs, cwd=d, timeout=1200)
                if rc or "error" in out or "FAILED" in out:
                    res["tests"] = "nobuild"
                else:
                    rc, out = sh("ctest --test-dir _build -j%d --timeout 120 2>&1 | tail -4" % jobs, cwd=d, timeout=1500)
                    res["tests"] = "pass" if "100% tests passed" in out else "fail"
                if res["tests"] == "pass":
                    caught = []
                    sd = scratch.make("ms-%d" % i)
                    try:
                        sp = os.path.join(sd, m["file"])
                        open(sp, "w").write("\n".join(src))
                        for pid in sorted(set(anchors.get(m["file"], []))):
                            rc, out = scratch.run_check(pid, sd)
                            if rc == 1:
                                inst = [x.strip() for x in out.splitlines() if x.strip().startswith("instance")][:1]
                                caught.append("%s %s" % (pid, inst[0][:80] if inst else ""))
                            elif rc != 0:
                                caught.append("%s rc=%d" % (pid, rc))
                    finally:
                        scratch.remove(sd)
                    res["caught_by"] = caught
            except Exception as e:
                res["tests"] = "error: %s" % e
            finally:
                sh("git checkout -q -- %s" % m["file"], cwd=d)
            with lock:
                with open(out_p, "a") as f:
                    f.write(json.dumps(res) + "\n")
    ts = [threading.Thread(target=worker, args=(i,)) for i in range(K)]
    for t in ts:
        t.start()
    for t in ts:
        t.join()
    if "--keep" not in a:
        for i in range(K):
            sh("git -C /repo worktree remove --force %s" % (WT % i))
    print("done")


if __name__ == "__main__":
    main()
