// tinsfacts: libTooling fact extractor for the libtins static checks.
//
// For every translation unit given on the command line it parses the unit with
// the flags after `--`, and writes ONE json file (argument -o) that holds, for
// every entity *defined under the repo root* (argument -root):
//   records   (bases, fields with bit offsets/widths, methods + overridden)
//   enums     (enumerators with values)
//   functions (resolved, simplified statement/expression tree + clang CFG)
//   globals   (objects with static storage duration)
// Header entities are emitted once per process (a process handles a batch of
// TUs), the python side de-duplicates across batches by id.
//
// Nothing here decides a property: the rule engines in /verif/vlib do.

#include "clang/AST/ASTConsumer.h"
#include "clang/AST/ASTContext.h"
#include "clang/AST/DeclCXX.h"
#include "clang/AST/DeclTemplate.h"
#include "clang/AST/ExprCXX.h"
#include "clang/AST/RecordLayout.h"
#include "clang/AST/RecursiveASTVisitor.h"
#include "clang/AST/StmtCXX.h"
#include "clang/Analysis/CFG.h"
#include "clang/Frontend/CompilerInstance.h"
#include "clang/Frontend/FrontendActions.h"
#include "clang/Tooling/CompilationDatabase.h"
#include "clang/Tooling/Tooling.h"
#include "llvm/Support/CommandLine.h"
#include "llvm/Support/JSON.h"
#include "llvm/Support/Path.h"
#include "llvm/Support/raw_ostream.h"

#include <map>
#include <set>
#include <string>
#include <vector>

using namespace clang;
using llvm::json::Array;
using llvm::json::Object;
using llvm::json::Value;

static std::string gRoot = "/repo";
static std::set<std::string> gEmittedFns, gEmittedRecs, gEmittedEnums, gEmittedGlobals;
static Array gFunctions, gRecords, gEnums, gGlobals, gTypes;
static std::map<std::string, int> gTypeIndex;
static std::vector<std::string> gErrors;

namespace {

std::string normPath(llvm::StringRef p) {
    llvm::SmallString<256> s(p);
    llvm::sys::path::remove_dots(s, /*remove_dot_dot=*/true);
    return std::string(s.str());
}

struct Ctx {
    ASTContext& AC;
    SourceManager& SM;
    PrintingPolicy PP;
    std::string mainFile;
    explicit Ctx(ASTContext& ac)
        : AC(ac), SM(ac.getSourceManager()), PP(ac.getLangOpts()) {
        PP.SuppressTagKeyword = true;
        PP.Bool = true;
        PP.SuppressUnwrittenScope = false;
        PP.FullyQualifiedName = true;
        PP.PrintCanonicalTypes = true;
    }

    std::string fileOf(SourceLocation L) {
        if (L.isInvalid()) return "";
        SourceLocation E = SM.getExpansionLoc(L);
        llvm::StringRef f = SM.getFilename(E);
        if (f.empty()) return "";
        return normPath(f);
    }
    unsigned lineOf(SourceLocation L) {
        if (L.isInvalid()) return 0;
        return SM.getExpansionLineNumber(L);
    }
    unsigned colOf(SourceLocation L) {
        if (L.isInvalid()) return 0;
        return SM.getExpansionColumnNumber(L);
    }
    bool inRepo(SourceLocation L) {
        std::string f = fileOf(L);
        if (f.compare(0, gRoot.size() + 1, gRoot + "/") != 0) return false;
        std::string rel = f.substr(gRoot.size() + 1);
        return rel.compare(0, 4, "src/") == 0 || rel.compare(0, 8, "include/") == 0 ||
               rel.compare(0, 7, "_verif/") == 0;
    }
    std::string relFile(SourceLocation L) {
        std::string f = fileOf(L);
        if (f.compare(0, gRoot.size() + 1, gRoot + "/") == 0) return f.substr(gRoot.size() + 1);
        return f;
    }

    // ---- types -----------------------------------------------------------
    int typeIdx(QualType T) {
        if (T.isNull()) return -1;
        QualType C = T.getCanonicalType();
        std::string s = C.getAsString(PP);
        auto it = gTypeIndex.find(s);
        if (it != gTypeIndex.end()) return it->second;
        int idx = (int)gTypes.size();
        gTypeIndex[s] = idx;
        gTypes.push_back(Value(nullptr));  // reserve slot (recursion)
        Object o;
        o["s"] = s;
        if (C.isConstQualified()) o["const"] = true;
        const Type* ty = C.getTypePtr();
        if (ty->isDependentType()) {
            o["k"] = "dependent";
        } else if (ty->isBooleanType()) {
            o["k"] = "bool";
            o["w"] = 1;
        } else if (const auto* ET = ty->getAs<EnumType>()) {
            o["k"] = "enum";
            o["name"] = ET->getDecl()->getQualifiedNameAsString();
            if (ET->getDecl()->isComplete()) {
                o["w"] = (int64_t)AC.getTypeSize(C);
                o["sg"] = ty->isSignedIntegerOrEnumerationType();
            }
        } else if (ty->isIntegerType()) {
            o["k"] = "int";
            o["w"] = (int64_t)AC.getTypeSize(C);
            o["sg"] = ty->isSignedIntegerType();
        } else if (ty->isPointerType()) {
            o["k"] = "ptr";
            o["to"] = typeIdx(ty->getPointeeType());
        } else if (ty->isReferenceType()) {
            o["k"] = "ref";
            o["to"] = typeIdx(ty->getPointeeType());
            if (ty->isRValueReferenceType()) o["rv"] = true;
        } else if (const auto* RT = ty->getAs<RecordType>()) {
            o["k"] = "rec";
            o["name"] = recName(RT->getDecl());
            if (RT->getDecl()->isCompleteDefinition() && !RT->getDecl()->isInvalidDecl() &&
                !RT->getDecl()->isDependentType())
                o["size"] = (int64_t)AC.getTypeSizeInChars(C).getQuantity();
        } else if (const auto* AT = dyn_cast<ConstantArrayType>(ty)) {
            o["k"] = "arr";
            o["to"] = typeIdx(AT->getElementType());
            o["n"] = (int64_t)AT->getSize().getZExtValue();
        } else if (ty->isFloatingType()) {
            o["k"] = "float";
        } else if (ty->isVoidType()) {
            o["k"] = "void";
        } else {
            o["k"] = "other";
        }
        gTypes[idx] = std::move(o);
        return idx;
    }

    std::string recName(const RecordDecl* RD) {
        std::string s;
        llvm::raw_string_ostream os(s);
        RD->printQualifiedName(os, PP);
        if (const auto* S = dyn_cast<ClassTemplateSpecializationDecl>(RD)) {
            printTemplateArgumentList(os, S->getTemplateArgs().asArray(), PP);
        }
        if (!RD->getIdentifier() && !RD->getTypedefNameForAnonDecl()) {
            // several anonymous structs in one union would otherwise share a name
            os << "@" << SM.getExpansionLineNumber(RD->getLocation());
        }
        os.flush();
        return s;
    }

    // ---- function ids ----------------------------------------------------
    std::string fnId(const FunctionDecl* FD) {
        FD = FD->getCanonicalDecl();
        std::string s;
        llvm::raw_string_ostream os(s);
        if (const auto* MD = dyn_cast<CXXMethodDecl>(FD)) {
            os << recName(MD->getParent()) << "::";
            if (isa<CXXConstructorDecl>(MD))
                os << MD->getParent()->getNameAsString();
            else if (isa<CXXDestructorDecl>(MD))
                os << "~" << MD->getParent()->getNameAsString();
            else
                os << MD->getNameAsString();
        } else {
            FD->printQualifiedName(os, PP);
        }
        if (const auto* TA = FD->getTemplateSpecializationArgs()) {
            printTemplateArgumentList(os, TA->asArray(), PP);
        }
        os << "(";
        bool first = true;
        for (const ParmVarDecl* P : FD->parameters()) {
            if (!first) os << ", ";
            first = false;
            os << P->getType().getCanonicalType().getAsString(PP);
        }
        if (FD->isVariadic()) os << (first ? "..." : ", ...");
        os << ")";
        if (const auto* MD = dyn_cast<CXXMethodDecl>(FD)) {
            if (MD->isConst()) os << " const";
        }
        // internal linkage: disambiguate by file
        if (FD->getFormalLinkage() == InternalLinkage || FD->isInAnonymousNamespace()) {
            os << " @" << llvm::sys::path::filename(fileOf(FD->getLocation()));
        }
        os.flush();
        return s;
    }

    std::string varId(const VarDecl* VD) {
        // locals / params: name#line:col ; globals: qualified name
        if (VD->hasGlobalStorage() && !VD->isStaticLocal()) {
            std::string s;
            llvm::raw_string_ostream os(s);
            if (const auto* RD = dyn_cast<CXXRecordDecl>(VD->getDeclContext())) {
                os << recName(RD) << "::" << VD->getNameAsString();
            } else {
                VD->printQualifiedName(os, PP);
            }
            if (VD->getFormalLinkage() == InternalLinkage || VD->isInAnonymousNamespace())
                os << " @" << llvm::sys::path::filename(fileOf(VD->getLocation()));
            os.flush();
            return "g:" + s;
        }
        SourceLocation L = VD->getLocation();
        return VD->getNameAsString() + "#" + std::to_string(lineOf(L)) + ":" +
               std::to_string(colOf(L));
    }
};

// --------------------------------------------------------------------------
// statement / expression emitter
// --------------------------------------------------------------------------
struct FnEmitter {
    Ctx& C;
    std::map<const Stmt*, int> ids;
    std::map<const VarDecl*, int> varIds;
    int nextId = 0;
    std::vector<const LambdaExpr*> lambdas;
    explicit FnEmitter(Ctx& c) : C(c) {}

    static const char* castKind(const CastExpr* CE) { return CE->getCastKindName(); }

    void addCallee(Object& o, const FunctionDecl* FD, bool isVirtualDispatch) {
        if (!FD) return;
        o["callee"] = C.fnId(FD);
        if (FD->getDeclName().isIdentifier())
            o["cname"] = FD->getName().str();
        else
            o["cname"] = FD->getNameAsString();
        if (const auto* MD = dyn_cast<CXXMethodDecl>(FD)) {
            o["crec"] = C.recName(MD->getParent());
            if (MD->isStatic()) o["cstatic"] = true;
        } else {
            o["cqual"] = FD->getQualifiedNameAsString();
        }
        if (isVirtualDispatch) o["virt"] = true;
        if (FD->isNoReturn()) o["noreturn"] = true;
        if (!C.inRepo(FD->getLocation())) o["ext"] = true;
    }

    Value emit(const Stmt* S) {
        if (!S) return Value(nullptr);
        Object o;
        int id = nextId++;
        ids[S] = id;
        o["id"] = id;
        o["k"] = S->getStmtClassName();
        o["l"] = (int64_t)C.lineOf(S->getBeginLoc());
        Array kids;
        bool customKids = false;

        if (const auto* E = dyn_cast<Expr>(S)) {
            o["t"] = C.typeIdx(E->getType());
            if (E->isLValue()) o["lv"] = true;
            // integer constant value, when clang can fold it without side effects
            if (!E->isValueDependent() && !E->isTypeDependent() && !E->getType().isNull() &&
                (E->getType()->isIntegralOrEnumerationType()) && E->isPRValue() &&
                !isa<InitListExpr>(E)) {
                Expr::EvalResult R;
                if (E->EvaluateAsInt(R, C.AC, Expr::SE_NoSideEffects)) {
                    llvm::APSInt v = R.Val.getInt();
                    if (v.isSigned())
                        o["v"] = (int64_t)v.getSExtValue();
                    else if (v.getActiveBits() <= 63)
                        o["v"] = (int64_t)v.getZExtValue();
                    else
                        o["v"] = std::to_string(v.getZExtValue());
                }
            }
        }

        if (const auto* DRE = dyn_cast<DeclRefExpr>(S)) {
            const ValueDecl* D = DRE->getDecl();
            o["name"] = D->getNameAsString();
            if (const auto* VD = dyn_cast<VarDecl>(D)) {
                o["var"] = C.varId(VD);
                if (isa<ParmVarDecl>(VD)) o["parm"] = true;
                if (VD->hasGlobalStorage()) o["glob"] = true;
            } else if (const auto* FD = dyn_cast<FunctionDecl>(D)) {
                o["fn"] = C.fnId(FD);
            } else if (const auto* EC = dyn_cast<EnumConstantDecl>(D)) {
                o["enumc"] = EC->getQualifiedNameAsString();
            } else if (isa<FieldDecl>(D)) {
                o["field"] = D->getNameAsString();
            }
        } else if (const auto* ME = dyn_cast<MemberExpr>(S)) {
            const ValueDecl* D = ME->getMemberDecl();
            o["member"] = D->getNameAsString();
            if (ME->isArrow()) o["arrow"] = true;
            if (const auto* FD = dyn_cast<FieldDecl>(D)) {
                o["mrec"] = C.recName(FD->getParent());
                if (FD->isBitField()) o["bitw"] = (int64_t)FD->getBitWidthValue(C.AC);
                o["isfield"] = true;
            } else if (const auto* MD = dyn_cast<CXXMethodDecl>(D)) {
                o["mfn"] = C.fnId(MD);
                o["mrec"] = C.recName(MD->getParent());
                if (ME->hasQualifier()) o["qualified"] = true;
            } else if (const auto* VD = dyn_cast<VarDecl>(D)) {
                o["var"] = C.varId(VD);
                o["glob"] = true;
            }
        } else if (const auto* CE = dyn_cast<CXXMemberCallExpr>(S)) {
            const CXXMethodDecl* MD = CE->getMethodDecl();
            bool virt = false;
            if (MD && MD->isVirtual()) {
                const auto* ME = dyn_cast<MemberExpr>(CE->getCallee()->IgnoreParens());
                virt = !(ME && ME->hasQualifier());
            }
            addCallee(o, MD, virt);
        } else if (const auto* CE = dyn_cast<CallExpr>(S)) {
            addCallee(o, CE->getDirectCallee(), false);
            if (isa<CXXOperatorCallExpr>(CE))
                o["op"] = getOperatorSpelling(cast<CXXOperatorCallExpr>(CE)->getOperator());
        } else if (const auto* CE = dyn_cast<CXXConstructExpr>(S)) {
            addCallee(o, CE->getConstructor(), false);
            o["ctor"] = true;
            if (CE->isElidable()) o["elidable"] = true;
        } else if (const auto* NE = dyn_cast<CXXNewExpr>(S)) {
            o["newt"] = C.typeIdx(NE->getAllocatedType());
            if (NE->isArray()) o["array"] = true;
        } else if (const auto* DE = dyn_cast<CXXDeleteExpr>(S)) {
            if (DE->isArrayForm()) o["array"] = true;
        } else if (const auto* BO = dyn_cast<BinaryOperator>(S)) {
            o["op"] = BO->getOpcodeStr().str();
            if (const auto* CAO = dyn_cast<CompoundAssignOperator>(S)) {
                o["comp_t"] = C.typeIdx(CAO->getComputationResultType());
            }
        } else if (const auto* UO = dyn_cast<UnaryOperator>(S)) {
            o["op"] = UnaryOperator::getOpcodeStr(UO->getOpcode()).str();
            if (UO->isPostfix()) o["postfix"] = true;
        } else if (const auto* CE = dyn_cast<CastExpr>(S)) {
            o["ck"] = castKind(CE);
            if (const auto* ECE = dyn_cast<ExplicitCastExpr>(S))
                o["tw"] = C.typeIdx(ECE->getTypeAsWritten());
        } else if (const auto* IL = dyn_cast<IntegerLiteral>(S)) {
            (void)IL;
        } else if (const auto* SL = dyn_cast<StringLiteral>(S)) {
            if (SL->isAscii()) o["str"] = SL->getString().str();
        } else if (const auto* UE = dyn_cast<UnaryExprOrTypeTraitExpr>(S)) {
            o["trait"] = (int64_t)UE->getKind();
            if (UE->isArgumentType()) o["argt"] = C.typeIdx(UE->getArgumentType());
        } else if (const auto* TE = dyn_cast<CXXThrowExpr>(S)) {
            if (TE->getSubExpr())
                o["thrown"] = C.typeIdx(TE->getSubExpr()->getType());
            else
                o["rethrow"] = true;
        } else if (const auto* CS = dyn_cast<CXXCatchStmt>(S)) {
            if (CS->getExceptionDecl()) {
                o["caught"] = C.typeIdx(CS->getCaughtType());
                o["var"] = C.varId(CS->getExceptionDecl());
            } else
                o["catchall"] = true;
        } else if (const auto* DS = dyn_cast<DeclStmt>(S)) {
            customKids = true;
            for (const Decl* D : DS->decls()) {
                if (const auto* VD = dyn_cast<VarDecl>(D)) {
                    Object v;
                    varIds[VD] = nextId;
                    v["id"] = nextId++;
                    v["k"] = "VarDecl";
                    v["l"] = (int64_t)C.lineOf(VD->getLocation());
                    v["var"] = C.varId(VD);
                    v["name"] = VD->getNameAsString();
                    v["t"] = C.typeIdx(VD->getType());
                    if (VD->isStaticLocal()) v["static"] = true;
                    Array vk;
                    if (VD->hasInit()) vk.push_back(emit(VD->getInit()));
                    v["c"] = std::move(vk);
                    kids.push_back(std::move(v));
                }
            }
        } else if (const auto* DAE = dyn_cast<CXXDefaultArgExpr>(S)) {
            customKids = true;
            o["defarg"] = true;
            kids.push_back(emit(DAE->getExpr()));
        } else if (const auto* DIE = dyn_cast<CXXDefaultInitExpr>(S)) {
            customKids = true;
            kids.push_back(emit(DIE->getExpr()));
        } else if (const auto* LE = dyn_cast<LambdaExpr>(S)) {
            customKids = true;
            lambdas.push_back(LE);
            if (LE->getCallOperator()) o["lambda"] = C.fnId(LE->getCallOperator());
            for (const Expr* ci : LE->capture_inits())
                if (ci) kids.push_back(emit(ci));
        } else if (const auto* SC = dyn_cast<SwitchCase>(S)) {
            if (const auto* CS = dyn_cast<CaseStmt>(SC)) {
                (void)CS;
            }
        } else if (const auto* TS = dyn_cast<CXXThisExpr>(S)) {
            if (TS->isImplicit()) o["implicit"] = true;
        } else if (const auto* ILE = dyn_cast<InitListExpr>(S)) {
            (void)ILE;
        } else if (const auto* TOE = dyn_cast<CXXTypeidExpr>(S)) {
            (void)TOE;
        } else if (const auto* FE = dyn_cast<CXXForRangeStmt>(S)) {
            (void)FE;
        } else if (const auto* DSME = dyn_cast<CXXDependentScopeMemberExpr>(S)) {
            o["member"] = DSME->getMember().getAsString();
        } else if (const auto* ULE = dyn_cast<UnresolvedLookupExpr>(S)) {
            o["name"] = ULE->getName().getAsString();
        }

        if (!customKids) {
            for (const Stmt* ch : S->children()) kids.push_back(emit(ch));
        }
        if (!kids.empty()) o["c"] = std::move(kids);
        return Value(std::move(o));
    }

    int idOf(const Stmt* S) {
        auto it = ids.find(S);
        return it == ids.end() ? -1 : it->second;
    }
};

// --------------------------------------------------------------------------

struct Visitor : RecursiveASTVisitor<Visitor> {
    Ctx& C;
    explicit Visitor(Ctx& c) : C(c) {}
    bool shouldVisitTemplateInstantiations() const { return true; }
    bool shouldVisitImplicitCode() const { return true; }

    void emitFunction(const FunctionDecl* FD) {
        if (!FD->doesThisDeclarationHaveABody()) return;
        if (FD->isDependentContext()) return;
        if (FD->isInvalidDecl()) return;
        SourceLocation L = FD->getLocation();
        if (L.isInvalid() || !C.inRepo(L)) return;
        std::string id = C.fnId(FD);
        if (!gEmittedFns.insert(id).second) return;
        const Stmt* Body = FD->getBody();
        if (!Body) return;

        Object f;
        f["id"] = id;
        f["name"] = FD->getNameAsString();
        f["qual"] = FD->getQualifiedNameAsString();
        f["file"] = C.relFile(L);
        f["line"] = (int64_t)C.lineOf(FD->getBeginLoc());
        f["endline"] = (int64_t)C.lineOf(FD->getEndLoc());
        f["ret"] = C.typeIdx(FD->getReturnType());
        if (FD->isImplicit() || FD->isDefaulted()) f["implicit"] = true;
        if (FD->isTemplateInstantiation()) f["inst"] = true;
        if (FD->isVariadic()) f["variadic"] = true;
        Array params;
        for (const ParmVarDecl* P : FD->parameters()) {
            Object p;
            p["name"] = P->getNameAsString();
            p["var"] = C.varId(P);
            p["t"] = C.typeIdx(P->getType());
            if (P->hasDefaultArg() && !P->hasUninstantiatedDefaultArg() && !P->hasUnparsedDefaultArg()) p["hasdef"] = true;
            params.push_back(std::move(p));
        }
        f["params"] = std::move(params);
        if (const auto* FPT = FD->getType()->getAs<FunctionProtoType>()) {
            if (FPT->isNothrow()) f["nothrow"] = true;
        }
        FnEmitter FE(C);
        if (const auto* MD = dyn_cast<CXXMethodDecl>(FD)) {
            f["rec"] = C.recName(MD->getParent());
            if (MD->isConst()) f["const"] = true;
            if (MD->isVirtual()) f["virtual"] = true;
            if (MD->isStatic()) f["static"] = true;
            if (MD->getAccess() == AS_public) f["access"] = "public";
            else if (MD->getAccess() == AS_protected) f["access"] = "protected";
            else if (MD->getAccess() == AS_private) f["access"] = "private";
            if (MD->isCopyAssignmentOperator()) f["special"] = "copy_assign";
            if (MD->isMoveAssignmentOperator()) f["special"] = "move_assign";
            if (const auto* CD = dyn_cast<CXXConstructorDecl>(MD)) {
                f["kind"] = "ctor";
                if (CD->isCopyConstructor()) f["special"] = "copy_ctor";
                else if (CD->isMoveConstructor()) f["special"] = "move_ctor";
                else if (CD->isDefaultConstructor()) f["special"] = "default_ctor";
                Array inits;
                for (const CXXCtorInitializer* I : CD->inits()) {
                    Object io;
                    if (I->isBaseInitializer()) {
                        io["base"] = C.typeIdx(QualType(I->getBaseClass(), 0));
                    } else if (I->isAnyMemberInitializer()) {
                        io["member"] = I->getAnyMember()->getNameAsString();
                    } else if (I->isDelegatingInitializer()) {
                        io["delegating"] = true;
                    }
                    if (I->isWritten()) io["written"] = true;
                    io["l"] = (int64_t)C.lineOf(I->getSourceLocation());
                    io["e"] = FE.emit(I->getInit());
                    inits.push_back(std::move(io));
                }
                f["inits"] = std::move(inits);
            } else if (isa<CXXDestructorDecl>(MD)) {
                f["kind"] = "dtor";
            } else if (isa<CXXConversionDecl>(MD)) {
                f["kind"] = "conv";
            } else {
                f["kind"] = "method";
            }
            Array ov;
            for (const CXXMethodDecl* O : MD->overridden_methods()) ov.push_back(C.fnId(O));
            if (!ov.empty()) f["overrides"] = std::move(ov);
        } else {
            f["kind"] = "function";
        }
        f["body"] = FE.emit(Body);

        // CFG
        CFG::BuildOptions BO;
        BO.setAllAlwaysAdd();
        BO.AddInitializers = true;
        BO.AddImplicitDtors = false;
        BO.AddTemporaryDtors = false;
        BO.AddEHEdges = false;
        BO.PruneTriviallyFalseEdges = false;
        std::unique_ptr<CFG> G = CFG::buildCFG(FD, const_cast<Stmt*>(Body), &C.AC, BO);
        if (G) {
            Object cfg;
            cfg["entry"] = (int64_t)G->getEntry().getBlockID();
            cfg["exit"] = (int64_t)G->getExit().getBlockID();
            Array blocks;
            for (const CFGBlock* B : *G) {
                Object b;
                b["id"] = (int64_t)B->getBlockID();
                Array el;
                for (const CFGElement& E : *B) {
                    if (auto S = E.getAs<CFGStmt>()) {
                        int sid = FE.idOf(S->getStmt());
                        if (sid < 0) {
                            // clang splits `T a = x, b = y;` into synthetic one-declaration DeclStmts
                            if (const auto* DS = dyn_cast<DeclStmt>(S->getStmt())) {
                                if (DS->isSingleDecl()) {
                                    if (const auto* VD = dyn_cast<VarDecl>(DS->getSingleDecl())) {
                                        auto it = FE.varIds.find(VD);
                                        if (it != FE.varIds.end()) sid = it->second;
                                    }
                                }
                            }
                        }
                        el.push_back(sid);
                    } else if (auto I = E.getAs<CFGInitializer>()) {
                        // refer to the init expression of the ctor initializer
                        el.push_back(FE.idOf(I->getInitializer()->getInit()));
                    }
                }
                b["e"] = std::move(el);
                Array su;
                for (auto SI = B->succ_begin(); SI != B->succ_end(); ++SI) {
                    const CFGBlock* T = SI->getReachableBlock();
                    if (!T) T = SI->getPossiblyUnreachableBlock();
                    if (T) su.push_back((int64_t)T->getBlockID());
                    else su.push_back(Value(nullptr));
                }
                b["s"] = std::move(su);
                if (const Stmt* T = B->getTerminatorStmt()) {
                    b["term"] = FE.idOf(T);
                    b["termk"] = T->getStmtClassName();
                }
                if (const Stmt* TC = B->getTerminatorCondition()) b["cond"] = FE.idOf(TC);
                if (const Stmt* LB = B->getLabel()) b["label"] = FE.idOf(LB);
                if (B->hasNoReturnElement()) b["noreturn"] = true;
                blocks.push_back(std::move(b));
            }
            cfg["blocks"] = std::move(blocks);
            f["cfg"] = std::move(cfg);
        }
        gFunctions.push_back(std::move(f));
        // lambdas are visited by RecursiveASTVisitor through their class decl
    }

    bool VisitFunctionDecl(FunctionDecl* FD) {
        emitFunction(FD);
        return true;
    }

    bool VisitCXXRecordDecl(CXXRecordDecl* RD) {
        if (!RD->isCompleteDefinition() || RD->isDependentContext() || RD->isInvalidDecl())
            return true;
        if (!C.inRepo(RD->getLocation())) return true;
        if (RD->isInjectedClassName()) return true;
        std::string name = C.recName(RD);
        if (!gEmittedRecs.insert(name).second) return true;
        Object r;
        r["name"] = name;
        r["short"] = RD->getNameAsString();
        r["file"] = C.relFile(RD->getLocation());
        r["line"] = (int64_t)C.lineOf(RD->getLocation());
        if (RD->isUnion()) r["union"] = true;
        if (RD->isLambda()) r["lambda"] = true;
        if (RD->isAbstract()) r["abstract"] = true;
        if (isa<ClassTemplateSpecializationDecl>(RD)) r["inst"] = true;
        Array bases;
        for (const CXXBaseSpecifier& B : RD->bases()) {
            if (const CXXRecordDecl* BD = B.getType()->getAsCXXRecordDecl())
                bases.push_back(C.recName(BD));
        }
        r["bases"] = std::move(bases);
        const ASTRecordLayout* Lay = nullptr;
        if (!RD->isDependentType()) Lay = &C.AC.getASTRecordLayout(RD);
        if (Lay) r["size"] = (int64_t)Lay->getSize().getQuantity();
        Array fields;
        unsigned fi = 0;
        for (const FieldDecl* F : RD->fields()) {
            Object fo;
            fo["name"] = F->getNameAsString();
            fo["t"] = C.typeIdx(F->getType());
            if (F->isMutable()) fo["mutable"] = true;
            if (F->isBitField()) fo["bitw"] = (int64_t)F->getBitWidthValue(C.AC);
            if (Lay) fo["off"] = (int64_t)Lay->getFieldOffset(fi);
            if (!F->getType()->isDependentType() && !F->getType()->isIncompleteType())
                fo["bits"] = (int64_t)C.AC.getTypeSize(F->getType());
            fo["l"] = (int64_t)C.lineOf(F->getLocation());
            fields.push_back(std::move(fo));
            ++fi;
        }
        r["fields"] = std::move(fields);
        Array methods;
        for (const CXXMethodDecl* M : RD->methods()) {
            Object m;
            m["name"] = M->getNameAsString();
            m["id"] = C.fnId(M);
            if (M->isVirtual()) m["virtual"] = true;
            if (M->isPure()) m["pure"] = true;
            if (M->isConst()) m["const"] = true;
            if (M->isStatic()) m["static"] = true;
            if (M->isImplicit()) m["implicit"] = true;
            if (M->isDeleted()) m["deleted"] = true;
            if (M->isDefaulted()) m["defaulted"] = true;
            if (M->getAccess() == AS_public) m["access"] = "public";
            else if (M->getAccess() == AS_protected) m["access"] = "protected";
            else m["access"] = "private";
            m["ret"] = C.typeIdx(M->getReturnType());
            Array ps;
            for (const ParmVarDecl* P : M->parameters()) ps.push_back(C.typeIdx(P->getType()));
            m["pt"] = std::move(ps);
            m["l"] = (int64_t)C.lineOf(M->getLocation());
            if (M->isCopyAssignmentOperator()) m["special"] = "copy_assign";
            else if (M->isMoveAssignmentOperator()) m["special"] = "move_assign";
            else if (const auto* CD = dyn_cast<CXXConstructorDecl>(M)) {
                if (CD->isCopyConstructor()) m["special"] = "copy_ctor";
                else if (CD->isMoveConstructor()) m["special"] = "move_ctor";
                else if (CD->isDefaultConstructor()) m["special"] = "default_ctor";
                else m["special"] = "ctor";
            } else if (isa<CXXDestructorDecl>(M)) m["special"] = "dtor";
            Array ov;
            for (const CXXMethodDecl* O : M->overridden_methods()) ov.push_back(C.fnId(O));
            if (!ov.empty()) m["overrides"] = std::move(ov);
            methods.push_back(std::move(m));
        }
        r["methods"] = std::move(methods);
        // static data members with constant initialisers (pdu_flag etc.)
        Array statics;
        for (const Decl* D : RD->decls()) {
            if (const auto* VD = dyn_cast<VarDecl>(D)) {
                Object so;
                so["name"] = VD->getNameAsString();
                so["t"] = C.typeIdx(VD->getType());
                if (const Expr* I = VD->getAnyInitializer()) {
                    if (!I->isValueDependent()) {
                        Expr::EvalResult R;
                        if (I->EvaluateAsInt(R, C.AC)) so["v"] = (int64_t)R.Val.getInt().getExtValue();
                    }
                }
                statics.push_back(std::move(so));
            }
        }
        r["statics"] = std::move(statics);
        r["user_copy_ctor"] = RD->hasUserDeclaredCopyConstructor();
        r["user_copy_assign"] = RD->hasUserDeclaredCopyAssignment();
        r["user_move_ctor"] = RD->hasUserDeclaredMoveConstructor();
        r["user_move_assign"] = RD->hasUserDeclaredMoveAssignment();
        r["user_dtor"] = RD->hasUserDeclaredDestructor();
        gRecords.push_back(std::move(r));
        return true;
    }

    bool VisitEnumDecl(EnumDecl* ED) {
        if (!ED->isCompleteDefinition() || !C.inRepo(ED->getLocation())) return true;
        if (ED->isDependentContext()) return true;
        std::string name = ED->getQualifiedNameAsString();
        if (const auto* RD = dyn_cast<CXXRecordDecl>(ED->getDeclContext()))
            name = C.recName(RD) + "::" + ED->getNameAsString();
        if (!gEmittedEnums.insert(name + "@" + C.relFile(ED->getLocation()) + ":" + std::to_string(C.lineOf(ED->getLocation()))).second) return true;
        Object e;
        e["name"] = name;
        e["file"] = C.relFile(ED->getLocation());
        e["line"] = (int64_t)C.lineOf(ED->getLocation());
        Array en;
        for (const EnumConstantDecl* EC : ED->enumerators()) {
            Object x;
            x["name"] = EC->getNameAsString();
            x["qual"] = EC->getQualifiedNameAsString();
            x["v"] = (int64_t)EC->getInitVal().getExtValue();
            en.push_back(std::move(x));
        }
        e["enumerators"] = std::move(en);
        gEnums.push_back(std::move(e));
        return true;
    }

    bool VisitVarDecl(VarDecl* VD) {
        if (!VD->hasGlobalStorage()) return true;
        if (isa<ParmVarDecl>(VD)) return true;
        bool dependentCtx = VD->getDeclContext()->isDependentContext();
        if (!C.inRepo(VD->getLocation())) return true;
        if (!VD->isThisDeclarationADefinition() && !VD->isStaticDataMember()) return true;
        std::string id = C.varId(VD);
        std::string fn;
        if (VD->isStaticLocal()) {
            if (const auto* FD = dyn_cast<FunctionDecl>(VD->getDeclContext())) fn = C.fnId(FD);
            id = "l:" + fn + "::" + VD->getNameAsString();
        }
        if (dependentCtx) id = "t:" + id;
        bool isDef = VD->isThisDeclarationADefinition() == VarDecl::Definition;
        std::string key = id + (isDef ? "#def" : "#decl");
        if (!gEmittedGlobals.insert(key).second) return true;
        Object g;
        g["id"] = id;
        g["name"] = VD->getNameAsString();
        g["file"] = C.relFile(VD->getLocation());
        g["line"] = (int64_t)C.lineOf(VD->getLocation());
        g["t"] = C.typeIdx(VD->getType());
        g["def"] = isDef;
        if (VD->isStaticLocal()) { g["local"] = true; g["fn"] = fn; }
        if (dependentCtx) g["dependent"] = true;
        if (VD->isStaticDataMember()) g["member"] = true;
        if (VD->getType().isConstQualified()) g["const"] = true;
        if (VD->isConstexpr()) g["constexpr"] = true;
        if (VD->getTLSKind() != VarDecl::TLS_None) g["tls"] = true;
        // any mutable sub-object?
        if (const CXXRecordDecl* RD = VD->getType()->getBaseElementTypeUnsafe()->getAsCXXRecordDecl()) {
            if (RD->hasDefinition() && RD->hasMutableFields()) g["has_mutable"] = true;
        }
        if (!dependentCtx && VD->hasInit() && VD->getInit() && !VD->getInit()->isValueDependent()) {
            g["has_init"] = true;
            if (VD->hasConstantInitialization()) g["const_init"] = true;
            // initialiser tree (tables such as RADIOTAP_METADATA are read by the rule engines)
            FnEmitter FE(C);
            g["init"] = FE.emit(VD->getInit());
        }
        gGlobals.push_back(std::move(g));
        return true;
    }
};

struct Consumer : ASTConsumer {
    void HandleTranslationUnit(ASTContext& AC) override {
        if (AC.getDiagnostics().hasErrorOccurred()) {
            gErrors.push_back("parse errors in a translation unit");
        }
        Ctx C(AC);
        Visitor V(C);
        V.TraverseDecl(AC.getTranslationUnitDecl());
    }
};

struct Action : ASTFrontendAction {
    std::unique_ptr<ASTConsumer> CreateASTConsumer(CompilerInstance&, llvm::StringRef) override {
        return std::make_unique<Consumer>();
    }
};

}  // namespace

static llvm::cl::OptionCategory Cat("tinsfacts");
static llvm::cl::opt<std::string> OutFile("o", llvm::cl::desc("output json"), llvm::cl::Required,
                                          llvm::cl::cat(Cat));
static llvm::cl::opt<std::string> RootOpt("root", llvm::cl::desc("repo root"),
                                          llvm::cl::init("/repo"), llvm::cl::cat(Cat));
static llvm::cl::list<std::string> Sources(llvm::cl::Positional, llvm::cl::desc("<sources>"),
                                           llvm::cl::OneOrMore, llvm::cl::cat(Cat));

int main(int argc, const char** argv) {
    std::string err;
    std::unique_ptr<clang::tooling::CompilationDatabase> DB =
        clang::tooling::FixedCompilationDatabase::loadFromCommandLine(argc, argv, err);
    llvm::cl::HideUnrelatedOptions(Cat);
    llvm::cl::ParseCommandLineOptions(argc, argv);
    if (!DB) {
        llvm::errs() << "tinsfacts: need `-- <flags>`: " << err << "\n";
        return 2;
    }
    gRoot = normPath(RootOpt);
    std::vector<std::string> srcs(Sources.begin(), Sources.end());
    clang::tooling::ClangTool Tool(*DB, srcs);
    int rc = Tool.run(clang::tooling::newFrontendActionFactory<Action>().get());
    Object out;
    out["root"] = gRoot;
    Array s;
    for (auto& x : srcs) s.push_back(x);
    out["sources"] = std::move(s);
    out["types"] = std::move(gTypes);
    out["records"] = std::move(gRecords);
    out["enums"] = std::move(gEnums);
    out["functions"] = std::move(gFunctions);
    out["globals"] = std::move(gGlobals);
    Array e;
    for (auto& x : gErrors) e.push_back(x);
    out["errors"] = std::move(e);
    out["rc"] = rc;
    std::error_code EC;
    llvm::raw_fd_ostream OS(OutFile, EC);
    if (EC) {
        llvm::errs() << "tinsfacts: cannot write " << OutFile << "\n";
        return 2;
    }
    OS << Value(std::move(out));
    OS.close();
    return rc ? 2 : 0;
}
