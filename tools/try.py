#!/usr/bin/env python3
"""tools/try.py <patch.diff or -> <ID,ID,...> [file old new]... : apply a patch (optional) and exact-text edits to a scratch
copy, run the quick checks named, print exit codes and violation lines.  Development aid."""
import os, sys
sys.path.insert(0, os.path.dirname(os.path.dirname(os.path.abspath(__file__))))
from vlib import scratch
patch, pids, rest = sys.argv[1], sys.argv[2].split(","), sys.argv[3:]
d = scratch.make("try")
try:
    if patch != "-":
        scratch.apply_patch(d, os.path.abspath(patch))
    for i in range(0, len(rest), 3):
        scratch.apply_edit(d, dict(file=rest[i], old=rest[i + 1], new=rest[i + 2]))
    for pid in pids:
        rc, out = scratch.run_check(pid, d)
        print(pid, "rc=%d" % rc)
        shown = 0
        for l in out.splitlines():
            if shown >= 6:
                break
            if l.strip().startswith(("instance", "ANALYSIS-BROKEN", "VIOLATION")) or (rc == 2 and "rror" in l):
                print("   ", l.strip()[:260])
                shown += 1
finally:
    scratch.remove(d)
