#!/usr/bin/env python3
"""tools/run_benign.py [DIR ...]: apply each behaviour-preserving refactoring (DIR/patch.diff, default: /verif/benign/*) to a
scratch copy and run every check that has instances in the touched files plus the refactoring's own property; report any
non-zero exit.  Development aid / regression list for false alarms."""
import glob, json, os, re, sys
sys.path.insert(0, os.path.dirname(os.path.dirname(os.path.abspath(__file__))))
from vlib import facts, scratch
from concurrent.futures import ThreadPoolExecutor
dirs = sys.argv[1:] or sorted(glob.glob(os.path.join(facts.VERIF, "benign", "*")))
sites = json.load(open("/var/tmp/ms/site_map.json")) if os.path.exists("/var/tmp/ms/site_map.json") else {}
ALL = ["C%02d" % i for i in range(1, 20)]


def one(d):
    d = os.path.abspath(d)
    patch = os.path.join(d, "patch.diff")
    if not os.path.exists(patch):
        return d, None, "no patch"
    files = re.findall(r"^\+\+\+ b/(\S+)", open(patch).read(), re.M)
    pids = set()
    for f in files:
        pids.update(sites.get(f, ALL))
    try:
        meta = json.load(open(os.path.join(d, "meta.json")))
        pids.add(meta.get("property"))
    except Exception:
        pass
    pids = sorted(p for p in pids if p)
    sd = scratch.make("ben-%s" % os.path.basename(d.rstrip("/")) + os.path.basename(os.path.dirname(d.rstrip("/"))))
    res = {}
    try:
        scratch.apply_patch(sd, patch)
        for pid in pids:
            rc, out = scratch.run_check(pid, sd)
            if rc != 0:
                res[pid] = [rc] + [x.strip()[:200] for x in out.splitlines() if x.strip().startswith(("instance", "ANALYSIS-BROKEN"))][:3]
    except facts.AnalysisBroken as e:
        return d, pids, {"apply": [2, str(e)[:200]]}
    finally:
        scratch.remove(sd)
    return d, pids, res


with ThreadPoolExecutor(max_workers=4) as ex:
    for d, pids, res in ex.map(one, dirs):
        tag = "/".join(d.rstrip("/").split("/")[-2:])
        if pids is None:
            print("%-22s %s" % (tag, res))
        elif not res:
            print("%-22s silent (%d checks)" % (tag, len(pids)))
        else:
            print("%-22s ALARM" % tag)
            for p, v in res.items():
                print("      %s rc=%d %s" % (p, v[0], " | ".join(v[1:])))
