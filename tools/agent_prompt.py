#!/usr/bin/env python3
"""Print the sub-agent prompt for one property (property text only; nothing from /verif's machinery)."""
import json, sys
pid = sys.argv[1]
labels = (sys.argv[2], sys.argv[3]) if len(sys.argv) > 3 else ("m1", "m2")
for l in open('/verif/properties.jsonl'):
    p = json.loads(l)
    if p['id'] == pid:
        break
wt = "/tmp/wt/%s%s" % (pid.lower(), "" if labels[0] == "m1" else "r" + labels[0])
import glob, os
used = []
for d in sorted(glob.glob('/verif/seeded/%s-m*' % pid)):
    if os.path.basename(d).split('-')[1] in labels:
        continue
    try:
        used.append("- " + json.load(open(d + '/meta.json'))['summary'][:260].replace("\n", " "))
    except Exception:
        pass
used_txt = ""
if used and labels[0] != "m1":
    used_txt = "\n## Already used in earlier rounds (do NOT repeat these or near-variants of them; pick other code sites and other mechanisms)\n" + "\n".join(used) + "\n"
print(f"""You are helping to evaluate how well a semantic property of the C++ library libtins (mfontanini/libtins: packet crafting/parsing library) is protected against regressions. Your job: produce TWO different, realistic code changes ("mutations") to libtins, each of which BREAKS the property below while the library STILL COMPILES and the EXISTING TEST SUITE STILL PASSES, and for each a small demonstration program that fails with the change and passes without it.

## The property ({p['id']}: {p['title']})
{p['statement']}

Quantifier: {p['quantifier']['text']}
Source files where the behaviour lives (hints): {', '.join(p['anchors']['files'])}

## Your workspace
Create your own scratch git worktree of the repository (never edit /repo itself, never commit anything anywhere, and do not look at or touch /verif):
  git -C /repo worktree add {wt} HEAD
  cp -r /repo/googletest {wt}/googletest        # the test framework is an unpopulated submodule in the worktree
  cd {wt} && cmake -G Ninja -B _build -DCMAKE_BUILD_TYPE=RelWithDebInfo -DLIBTINS_BUILD_EXAMPLES=OFF >/dev/null
  cmake --build _build -j16 --target tests      # ~30 s; builds libtins.so and all test binaries
  ctest --test-dir _build -j16                  # all 62 test executables (882 gtest cases) must pass
Demonstration programs are compiled against the worktree build, e.g.
  g++ -std=c++11 -I{wt}/include demo.cpp -L{wt}/_build/lib -ltins -lpcap -o demo && LD_LIBRARY_PATH={wt}/_build/lib ./demo
There is no network access. Work only under {wt} and /tmp/wt/out/{pid}/.

## What makes a good mutation
- It is a plausible maintainer mistake or "optimisation"/refactor in libtins' library code (src/ or include/), small (1-15 lines), not a syntax trick, not touching tests.
- It must need something SPECIFIC to manifest: an unusual input, a particular multi-step sequence of operations, a boundary value, a rare branch, or two cooperating sites that each look fine alone. A change that ordinary use or the existing tests expose at once is not useful. The full existing test suite MUST still pass with the mutation applied (verify this!).
- The two mutations should use different mechanisms / different code sites (e.g. one a dropped or weakened check, the other a bookkeeping/ordering/table mistake), both breaking THIS property.
- Memory-safety violations may be demonstrated with -fsanitize=address (build the demo and, if needed, rebuild the library objects you need with ASan), or by an observable wrong result.

{used_txt}
## Deliverables (write them to /tmp/wt/out/{pid}/{labels[0]}/ and /tmp/wt/out/{pid}/{labels[1]}/)
For each mutation mN:
  - patch.diff : `git diff` of the worktree for that mutation alone (relative to HEAD; must apply with `git apply` at the repo root)
  - demo.cpp (or demo.sh + sources): exits 0 on the unmodified library and non-zero (or sanitizer error) with the mutation
  - meta.json : {{"property": "{p['id']}", "summary": "...what was changed...", "needs": "...what specific input/sequence/boundary is needed to manifest...", "how_run": "...exact commands you ran to build and run the demo, and the test-suite result with the mutation..."}}
Keep the mutations separate: revert the first (git checkout -- .) before making the second.

When finished, remove your worktree and its build output:  git -C /repo worktree remove --force {wt}
Report briefly: for each mutation the file/function changed, why the tests do not notice, and the demo's output with and without the change.""")
