#!/usr/bin/env python3
"""tools/patch_to_battery.py <seed-dir-name> <mutant-name> <rule substring> [--benign]
Turns seeded/<seed>/patch.diff into a selftest battery entry (one edit per hunk:
old = context + removed lines, new = context + added lines) and appends it to
selftest/<ID>.json unless an entry of that name exists."""
import json, os, re, sys
V = os.path.dirname(os.path.dirname(os.path.abspath(__file__)))


def edits_of(diff):
    out, cur_file, old, new = [], None, None, None

    def flush():
        if old is not None and (old or new):
            out.append({"file": cur_file, "old": "".join(old), "new": "".join(new)})
    for line in diff.splitlines(True):
        if line.startswith("+++ b/"):
            cur_file = line[6:].strip()
        elif line.startswith("--- ") or line.startswith("diff ") or line.startswith("index "):
            if line.startswith("diff "):
                flush()
                old = new = None
        elif line.startswith("@@"):
            flush()
            old, new = [], []
        elif old is not None:
            if line.startswith(" "):
                old.append(line[1:]); new.append(line[1:])
            elif line.startswith("-"):
                old.append(line[1:])
            elif line.startswith("+"):
                new.append(line[1:])
    flush()
    return out


def main():
    seed, name, rule = sys.argv[1:4]
    benign = "--benign" in sys.argv
    pid = seed.split("-")[0]
    diff = open(os.path.join(V, "seeded", seed, "patch.diff")).read()
    meta = json.load(open(os.path.join(V, "seeded", seed, "meta.json")))
    ent = {"name": name, "what": "seeded %s: %s" % (seed, meta.get("summary", "")[:200]), "edits": edits_of(diff)}
    if not benign:
        ent["expect"] = ["VIOLATION property=%s" % pid, rule]
    p = os.path.join(V, "selftest", pid + ".json")
    d = json.load(open(p))
    lst = d["benign" if benign else "mutants"]
    if any(x["name"] == name for x in lst):
        print("exists:", name)
        return
    lst.append(ent)
    json.dump(d, open(p, "w"), indent=1)
    print("added", name, "to", p, "(%d edits)" % len(ent["edits"]))


if __name__ == "__main__":
    main()
