#!/usr/bin/env python3
"""tools/blindspots.py <ID> [--max N] [--jobs J] [--files f1,f2]
Sensitivity map of one property's check (development aid, not a registered command):
generates small line-level edits (operator flips, dropped statements, constants +1,
&& <-> ||) inside the function bodies of the property's anchor files, runs the
quick check on a scratch copy for each, and prints per function how many edits the
check noticed.  Edits that leave the check silent are listed: they are candidate
blind spots to read (many are behaviour-preserving or break another property)."""
import json, os, random, re, sys
sys.path.insert(0, os.path.dirname(os.path.dirname(os.path.abspath(__file__))))
from vlib import facts, scratch
from concurrent.futures import ThreadPoolExecutor

FLIPS = [(" <= ", " < "), (" < ", " <= "), (" >= ", " > "), (" > ", " >= "), (" == ", " != "), (" != ", " == "),
         (" && ", " || "), (" || ", " && ")]
DECL = re.compile(r"^\s*(const\s+)?(unsigned|signed|int|bool|char|uint\d+_t|size_t|string|std::|typename|static|auto|[A-Z]\w*(::\w+)*(<.*>)?\s*[&*]?\s+\w+\s*(=|;|\())")


def function_ranges(db, rel):
    out = []
    for f in db.functions.values():
        if f.get("file") != rel or not f.get("body"):
            continue
        ls = [n.get("l") for n in facts.fn_nodes(f) if n.get("l")]
        if not ls:
            continue
        out.append((f["line"], max(ls), f["qual"]))
    return sorted(set(out))


def candidates(lines, lo, hi):
    out = []
    for i in range(lo, min(hi, len(lines))):
        t = lines[i]
        s = t.strip()
        if not s or s.startswith("//") or s.startswith("*") or s.startswith("#"):
            continue
        for a, b in FLIPS:
            if a in t:
                out.append((i, "flip%s->%s" % (a.strip(), b.strip()), t.replace(a, b, 1)))
                break
        m = re.search(r"(?<![\w.])(\d+)(?![\w.])", s)
        if m and not s.startswith("case") and "sizeof" not in s:
            k = int(m.group(1))
            if k < 70000:
                out.append((i, "const%d->%d" % (k, k + 1), re.sub(r"(?<![\w.])%d(?![\w.])" % k, str(k + 1), t, count=1)))
        if s.endswith(";") and not s.startswith(("return", "break", "continue", "throw", "typedef", "using", "}", "case", "default")) \
                and not DECL.match(t) and ("(" in s or "=" in s):
            out.append((i, "drop", "\n"))
    return out


def main():
    pid = sys.argv[1]
    mx = int(sys.argv[sys.argv.index("--max") + 1]) if "--max" in sys.argv else 120
    jobs = int(sys.argv[sys.argv.index("--jobs") + 1]) if "--jobs" in sys.argv else 8
    files = None
    if "--files" in sys.argv:
        files = sys.argv[sys.argv.index("--files") + 1].split(",")
    if files is None:
        for l in open(os.path.join(facts.VERIF, "properties.jsonl")):
            p = json.loads(l)
            if p["id"] == pid:
                files = p["anchors"]["files"]
    db = facts.extract(facts.REPO)
    muts = []
    for rel in files:
        path = os.path.join(facts.REPO, rel)
        if not os.path.exists(path):
            continue
        lines = open(path).read().split("\n")
        lines = [x + "\n" for x in lines]
        for lo, hi, q in function_ranges(db, rel):
            for i, kind, new in candidates(lines, lo, hi):
                muts.append((rel, q, i, kind, lines[i], new))
    random.seed(1)
    random.shuffle(muts)
    # spread over functions: at most 4 per function first
    per, chosen = {}, []
    for m in muts:
        if per.get(m[1], 0) < 4:
            per[m[1]] = per.get(m[1], 0) + 1
            chosen.append(m)
    chosen = chosen[:mx]
    print("%s: %d candidate edits in %d functions, running %d" % (pid, len(muts), len(per), len(chosen)))

    def one(m):
        rel, q, i, kind, old, new = m
        d = scratch.make("bs-%s-%d-%s" % (pid, i, abs(hash((rel, kind))) % 100000))
        try:
            p = os.path.join(d, rel)
            ls = open(p).read().split("\n")
            ls[i] = new.rstrip("\n")
            open(p, "w").write("\n".join(ls))
            rc, out = scratch.run_check(pid, d)
        except Exception as e:
            rc, out = 3, str(e)
        finally:
            scratch.remove(d)
        inst = [x.strip() for x in out.splitlines() if x.strip().startswith("instance")][:1]
        return rc, inst
    with ThreadPoolExecutor(max_workers=jobs) as ex:
        res = list(ex.map(one, chosen))
    byfn = {}
    for m, (rc, inst) in zip(chosen, res):
        byfn.setdefault((m[0], m[1]), []).append((rc, m, inst))
    tot = {0: 0, 1: 0, 2: 0, 3: 0}
    for (rel, q), rs in sorted(byfn.items()):
        c = [r[0] for r in rs]
        for x in c:
            tot[x] = tot.get(x, 0) + 1
        print("%-70s caught %d  silent %d  broken %d" % (q[:70], c.count(1), c.count(0), c.count(2) + c.count(3)))
        for rc, m, inst in rs:
            if rc == 0:
                print("      silent  %s:%d [%s]  %s" % (m[0], m[2] + 1, m[3], m[4].strip()[:110]))
    print("TOTAL caught %d silent %d broken/non-compiling %d" % (tot[1], tot[0], tot[2] + tot.get(3, 0)))


if __name__ == "__main__":
    main()
