#!/bin/bash
# keep_seed.sh <PID> <mN> : confirm /tmp/wt/out/<PID>/<mN> and, if confirmed, store it under /verif/seeded/<PID>-<mN>/
PID=$1; M=$2; SRC=/tmp/wt/out/$PID/$M; DST=/verif/seeded/$PID-$M
[ -f $SRC/patch.diff ] || { echo "no patch in $SRC"; exit 2; }
OUT=$(/verif/tools/confirm_seed.sh $SRC 2>&1); echo "$OUT" | tail -4
echo "$OUT" | grep -q CONFIRMED || { echo "NOT CONFIRMED: $PID $M"; exit 1; }
mkdir -p $DST; cp $SRC/patch.diff $DST/; cp $SRC/demo.* $DST/ 2>/dev/null
python3 - "$SRC" "$DST" "$PID" "$M" "$(echo "$OUT" | grep RESULT)" <<'PY'
import json,sys
src,dst,pid,m,res=sys.argv[1:6]
try: meta=json.load(open(src+'/meta.json'))
except Exception as e: meta={"property":pid,"summary":"(meta.json unreadable: %s)"%e}
meta["property"]=pid
meta["confirmed_by_me"]={"script":"tools/confirm_seed.sh (scratch worktree /tmp/wt/confirm: demo rc on unmodified tree, full ctest with the change, demo rc with the change)","result":res}
json.dump(meta,open(dst+'/meta.json','w'),indent=1)
PY
echo "KEPT $DST"
