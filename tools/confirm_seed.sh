#!/bin/bash
# confirm_seed.sh <out-dir-with-patch.diff+demo> : confirm a seeded change in a scratch worktree
#  - demo passes on the unmodified tree, fails with the change
#  - the change compiles and the whole existing test suite passes with it
# Uses one scratch worktree /tmp/wt/confirm (created on demand; remove with --cleanup).
set -u
WT=/tmp/wt/confirm
if [ "${1:-}" = "--cleanup" ]; then git -C /repo worktree remove --force $WT 2>/dev/null; git -C /repo worktree prune; exit 0; fi
D=$(realpath "$1")
if [ ! -d $WT ]; then
  git -C /repo worktree add -q $WT HEAD || exit 2
  cp -r /repo/googletest/. $WT/googletest/
  (cd $WT && cmake -G Ninja -B _build -DCMAKE_BUILD_TYPE=RelWithDebInfo -DLIBTINS_BUILD_EXAMPLES=OFF >/dev/null) || exit 2
fi
cd $WT && git checkout -q -- . && git clean -fdq -e _build -e googletest
build() { cmake --build _build -j16 --target tests 2>&1 | tail -2 | grep -E "error|FAILED" ; return ${PIPESTATUS[0]}; }
rundemo() {
  if [ -f $D/demo.sh ]; then (cd $D && WT=$WT bash ./demo.sh $WT) >/tmp/wt/confirm.demo.log 2>&1; return $?; fi
  EXTRA=""; grep -q "fsanitize" $D/meta.json 2>/dev/null && EXTRA="-fsanitize=address -g"
  g++ -std=c++11 $EXTRA -I$WT/include $D/demo.cpp -L$WT/_build/lib -ltins -lpcap -lcrypto -lpthread -Wno-deprecated-declarations -o /tmp/wt/confirm.demo 2>/tmp/wt/confirm.demo.log || { echo "demo does not compile"; cat /tmp/wt/confirm.demo.log | head; return 99; }
  LD_LIBRARY_PATH=$WT/_build/lib timeout 120 /tmp/wt/confirm.demo >/tmp/wt/confirm.demo.log 2>&1; return $?
}
build || { echo "RESULT base build failed"; exit 2; }
rundemo; base=$?
git apply $D/patch.diff || { echo "RESULT patch does not apply"; exit 2; }
build || { echo "RESULT mutant build failed"; git checkout -q -- .; exit 2; }
ctest --test-dir _build -j16 2>&1 | tail -3 > /tmp/wt/confirm.ctest.log; grep -q "100% tests passed" /tmp/wt/confirm.ctest.log; tests=$?
rundemo; mut=$?
tail -3 /tmp/wt/confirm.demo.log
git checkout -q -- . ; git clean -fdq -e _build -e googletest
echo "RESULT base_demo_rc=$base tests_pass_with_change=$((1-tests)) mutant_demo_rc=$mut"
[ $base -eq 0 ] && [ $tests -eq 0 ] && [ $mut -ne 0 ] && echo CONFIRMED
