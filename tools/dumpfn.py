#!/usr/bin/env python3
"""dumpfn.py <substring of function id> [maxdepth] : print the simplified AST of matching functions"""
import sys; sys.path.insert(0,'/verif')
from vlib import facts
db=facts.extract()
pat=sys.argv[1]; md=int(sys.argv[2]) if len(sys.argv)>2 else 99
def show(f,n,d=0):
    if d>md or n is None: return
    t=facts.ty(f,n)
    extra={k:v for k,v in n.items() if k not in('id','k','l','t','c','lv')}
    print("%s%s#%d L%d %s %s"%("  "*d,n['k'],n['id'],n.get('l',0),(t or {}).get('s','')[:40],extra))
    for c in n.get('c',[]): show(f,c,d+1)
for fid,f in db.functions.items():
    if pat in fid:
        print("==",fid,f['file'],f['line'])
        for i in f.get('inits',[]): print(" init",{k:v for k,v in i.items() if k!='e'}); show(f,i['e'],2)
        show(f,f['body'])
