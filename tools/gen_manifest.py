#!/usr/bin/env python3
import json, os, sys
sys.path.insert(0, os.path.dirname(os.path.dirname(os.path.abspath(__file__))))
from rules import registry as R

checks = []
for pid in R.ALL:
    if pid not in R.CLAIMED:
        continue
    c = R.CLAIMED[pid]
    checks.append(dict(
        property_id=pid,
        quick_cmd="./check %s --tier quick" % pid,
        thorough_cmd="./check %s --tier thorough" % pid,
        evidence_file="/verif/evidence/%s.json" % pid,
        replay_cmd_template="./check %s --explain {path}" % pid,
        engine="tinsfacts+rules",
        level_claimed=dict(category=c["category"], text=c["text"], design_ref=c["design_ref"]),
        level_note=c["note"],
        technique=c["technique"],
    ))
na = []
for pid in R.ALL:
    if pid in R.CLAIMED:
        continue
    na.append(dict(property_id=pid, reason=R.NOT_APPLICABLE.get(pid, R.PENDING_REASON)))
m = dict(
    version=1,
    setup_cmd="./setup.sh",
    hooks=dict(guard="TINS_VERIF_HOOKS",
               enable="no hooks are needed: every rule reads the unmodified declarations of /repo; the guard name is reserved only",
               baseline_off_cmd="cmake --build /repo/_build -j16 && ctest --test-dir /repo/_build -j8 --timeout 900",
               source_commits=[], add_only=True),
    engines=[dict(name="tinsfacts+rules", path="/verif/check",
                  serves_properties=sorted(R.CLAIMED),
                  kind_free_text="libTooling fact extractor (tools/tinsfacts.cc: resolved AST + clang CFG per function, "
                                 "record layouts, globals) feeding python rule engines (vlib/, rules/): dominance/pairing, "
                                 "bounds, exception escape, bit provenance, table agreement")],
    checks=checks,
    not_applicable=na,
    notes="Technique family: static analysis only. exit 0 = all obligations discharged (known findings printed), "
          "1 = VIOLATION, 2 = analysis broken (anchor vanished / rule below frozen minimum / unparsable TU).",
)
with open(os.path.join(os.path.dirname(os.path.dirname(os.path.abspath(__file__))), "MANIFEST.json"), "w") as f:
    json.dump(m, f, indent=1)
print("MANIFEST.json: %d checks, %d not_applicable" % (len(checks), len(na)))
