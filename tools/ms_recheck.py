#!/usr/bin/env python3
"""tools/ms_recheck.py IN OUT [--workers K]: for every surviving edit of a mutation survey (tests pass) run ALL checks
on a scratch copy and record which properties' checks notice it (development aid)."""
import json, os, sys
sys.path.insert(0, os.path.dirname(os.path.dirname(os.path.abspath(__file__))))
from vlib import facts, scratch
from concurrent.futures import ThreadPoolExecutor
inp, outp = sys.argv[1], sys.argv[2]
K = int(sys.argv[sys.argv.index("--workers") + 1]) if "--workers" in sys.argv else 4
done = set()
if os.path.exists(outp):
    for l in open(outp):
        r = json.loads(l)
        done.add((r["file"], r["line"], r["kind"]))
rows = [json.loads(l) for l in open(inp)]
todo = [r for r in rows if r.get("tests") == "pass" and (r["file"], r["line"], r["kind"]) not in done]
print(len(todo), "survivors to re-check", flush=True)
ALL = ["C%02d" % i for i in range(1, 20)]
SITES = json.load(open("/var/tmp/ms/site_map.json")) if os.path.exists("/var/tmp/ms/site_map.json") else {}


def one(ir):
    i, r = ir
    d = scratch.make("rc-%d" % i)
    try:
        p = os.path.join(d, r["file"])
        src = open(p).read().split("\n")
        if src[r["line"] - 1] != r["old"]:
            r["all"] = ["stale"]
            return r
        src[r["line"] - 1] = r["new"]
        open(p, "w").write("\n".join(src))
        caught = []
        pids = sorted(set(SITES.get(r["file"], ALL)) - set(x.split()[0] for x in r.get("caught_by") or [] if False))
        r["checked"] = pids
        for pid in pids:
            rc, out = scratch.run_check(pid, d)
            if rc == 1:
                inst = [x.strip() for x in out.splitlines() if x.strip().startswith("instance")][:1]
                caught.append("%s %s" % (pid, inst[0][9:90] if inst else ""))
            elif rc != 0:
                caught.append("%s rc=%d" % (pid, rc))
        r["all"] = caught
    finally:
        scratch.remove(d)
    with open(outp, "a") as f:
        f.write(json.dumps(r) + "\n")
    return r


with ThreadPoolExecutor(max_workers=K) as ex:
    list(ex.map(one, enumerate(todo)))
print("done")
