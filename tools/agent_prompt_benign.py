#!/usr/bin/env python3
"""Print the sub-agent prompt for behaviour-preserving refactorings around one property (property text only)."""
import json, sys
pid = sys.argv[1]
first = int(sys.argv[2]) if len(sys.argv) > 2 else 1          # number of the first refactoring to produce (b<first> .. b<first+3>)
import glob, os
earlier = []
for d in sorted(glob.glob('/verif/benign/%s-b*' % pid)):
    try:
        m = json.load(open(os.path.join(d, 'meta.json')))
        earlier.append("- %s: %s" % (m.get('kind', '')[:80], (m.get('summary') or '')[:300]))
    except Exception:
        pass
for l in open('/verif/properties.jsonl'):
    p = json.loads(l)
    if p['id'] == pid:
        break
wt = "/tmp/wt/%sben%d" % (pid.lower(), first)
mech = "; ".join("%s (%s)" % (m['name'], m['where']) for m in p['anchors'].get('mechanism', []))
print(f"""You are helping to evaluate how robust a set of static checkers for the C++ library libtins (mfontanini/libtins: packet crafting/parsing library) is against BENIGN code changes. Your job: produce FOUR different, realistic, strictly BEHAVIOUR-PRESERVING refactorings of libtins library code in the area of the property below. The checkers must stay silent on them; a checker that fires on one of your refactorings has a false alarm.

## The property ({p['id']}: {p['title']}) - the code area to refactor
{p['statement']}

Source files where the behaviour lives: {', '.join(p['anchors']['files'])}
Mechanisms: {mech}

## Your workspace
Create your own scratch git worktree of the repository (never edit /repo itself, never commit anything anywhere, and do not look at or touch /verif):
  git -C /repo worktree add {wt} HEAD
  cp -r /repo/googletest {wt}/googletest
  cd {wt} && cmake -G Ninja -B _build -DCMAKE_BUILD_TYPE=RelWithDebInfo -DLIBTINS_BUILD_EXAMPLES=OFF >/dev/null
  cmake --build _build -j8 --target tests      # builds libtins.so and all test binaries
  ctest --test-dir _build -j8                  # all 62 test executables must pass
There is no network access. Work only under {wt} and /tmp/wt/out/{pid}/.

## What makes a good refactoring here
- It changes the functions that IMPLEMENT the mechanism of the property (the ones named above), not comments, tests or unrelated code.
- It is the kind of cleanup a maintainer really does: extract a helper function or inline one; turn nested ifs into early returns (or back); turn an if-chain into a switch (or back); replace a hand-written loop by a std algorithm (or back); introduce named locals / constants for sub-expressions; reorder statements that are independent of each other; rename locals; replace `a ? b : c` by if/else; change the spelling of a condition (De Morgan, swapped operands); replace memcpy by a typed read through the existing stream helpers where that is exactly equivalent; split a function in two.
- It MUST keep the observable behaviour identical for ALL inputs and call sequences - not only for what the tests exercise: same bytes, same values, same exceptions (type and condition), same memory safety, same ownership, no new shared state. If you are not sure a change is exactly equivalent, do not use it.
- 5 to 40 changed lines each; the four should use different refactoring kinds and touch different functions where possible.
- The library must compile and the FULL test suite must pass with each refactoring applied (verify this).

{("## Already done in an earlier round - do something DIFFERENT (other functions where possible, other refactoring kinds, larger restructurings are welcome as long as they stay exactly equivalent)" + chr(10) + chr(10).join(earlier) + chr(10)) if earlier and first > 1 else ""}
## Deliverables (write them to /tmp/wt/out/{pid}/b{first}/ ... /tmp/wt/out/{pid}/b{first+3}/)
For each refactoring bN:
  - patch.diff : `git diff` of the worktree for that refactoring alone (relative to HEAD; must apply with `git apply` at the repo root)
  - meta.json : {{"property": "{p['id']}", "kind": "...refactoring kind...", "summary": "...what was changed...", "why_equivalent": "...argument that behaviour is identical for all inputs..."}}
Number them b{first}, b{first+1}, b{first+2}, b{first+3}. Keep them separate: revert (git checkout -- .) before making the next one.

When finished, remove your worktree and its build output:  git -C /repo worktree remove --force {wt}
Report briefly: for each refactoring the file/function changed and the kind.""")
