#!/usr/bin/env python3
"""tools/benignsurvey.py --out FILE [--max N] [--jobs J] [--files a,b]
Development aid: applies behaviour-PRESERVING line-level rewrites to library sources (operand swaps of ==, != and of
< / > with the operator mirrored, `a != b` -> `!(a == b)`, pre/post increment in loop headers, `x += y` -> `x = x + y`)
and runs every check that has instances in the edited file on a scratch copy.  Any exit code other than 0 is a false
alarm (1) or a fragile rule (2) to be looked at.  Nothing is built or run; rewrites that do not compile show up as exit 2
in ALL checks of the file and are skipped."""
import json, os, random, re, sys
sys.path.insert(0, os.path.dirname(os.path.dirname(os.path.abspath(__file__))))
from vlib import facts, scratch
from tools.blindspots import function_ranges
from concurrent.futures import ThreadPoolExecutor


def split_top(s, ops):
    """split s at the single top-level occurrence of one of ops (longest first); None if not exactly one"""
    depth = 0
    hits = []
    i = 0
    while i < len(s):
        ch = s[i]
        if ch in "([{":
            depth += 1
        elif ch in ")]}":
            depth -= 1
        elif depth == 0:
            for op in ops:
                if s.startswith(op, i):
                    # not part of a longer operator / template / arrow / shift
                    before = s[i - 1] if i else " "
                    after = s[i + len(op)] if i + len(op) < len(s) else " "
                    if op in ("<", ">") and (before in "<>-=" or after in "<>="):
                        continue
                    if op in ("==", "!=") and after == "=":
                        continue
                    hits.append((i, op))
                    i += len(op) - 1
                    break
        i += 1
    if len(hits) != 1:
        return None
    i, op = hits[0]
    return s[:i].strip(), op, s[i + len(op):].strip()


SIMPLE = re.compile(r"^[\w:\.\->\(\)\[\]\*& ,]+$")


def rewrites(line):
    out = []
    m = re.match(r"^(\s*(?:else )?if \()(.*)(\) \{\s*)$", line)
    if m:
        cond = m.group(2)
        if "&&" not in cond and "||" not in cond and "?" not in cond and "=" not in cond.replace("==", "").replace("!=", "").replace("<=", "").replace(">=", ""):
            sp = split_top(cond, ["==", "!=", "<=", ">=", "<", ">"])
            if sp and SIMPLE.match(sp[0]) and SIMPLE.match(sp[2]) and "<" not in sp[0] + sp[2] and "(" not in sp[0][:1]:
                a, op, b = sp
                mirror = {"==": "==", "!=": "!=", "<": ">", ">": "<", "<=": ">=", ">=": "<="}[op]
                out.append(("swap" + op, "%s%s %s %s%s" % (m.group(1), b, mirror, a, m.group(3))))
                if op == "!=":
                    out.append(("not-eq", "%s!(%s == %s)%s" % (m.group(1), a, b, m.group(3))))
                if op == "==":
                    out.append(("not-ne", "%s!(%s != %s)%s" % (m.group(1), a, b, m.group(3))))
                if op in ("<", ">", "<=", ">="):
                    inv = {"<": ">=", ">": "<=", "<=": ">", ">=": "<"}[op]
                    out.append(("not-inv" + op, "%s!(%s %s %s)%s" % (m.group(1), a, inv, b, m.group(3))))
    m = re.match(r"^(\s*for \(.*; )\+\+(\w+)(\) \{\s*)$", line)
    if m:
        out.append(("post-inc", "%s%s++%s" % (m.group(1), m.group(2), m.group(3))))
    m = re.match(r"^(\s*)(\w[\w\.\->]*) \+= ([^;]+);\s*$", line)
    if m and SIMPLE.match(m.group(3)):
        out.append(("plus-assign", "%s%s = %s + (%s);" % (m.group(1), m.group(2), m.group(2), m.group(3))))
    m = re.match(r"^(\s*)(\w[\w\.\->]*) -= ([^;]+);\s*$", line)
    if m and SIMPLE.match(m.group(3)):
        out.append(("minus-assign", "%s%s = %s - (%s);" % (m.group(1), m.group(2), m.group(2), m.group(3))))
    m = re.match(r"^(\s*)(\+\+|--)(\w+);\s*$", line)
    if m:
        out.append(("step-assign", "%s%s %s= 1;" % (m.group(1), m.group(3), m.group(2)[0])))
    return out


def main():
    a = sys.argv
    out_p = a[a.index("--out") + 1]
    mx = int(a[a.index("--max") + 1]) if "--max" in a else 300
    jobs = int(a[a.index("--jobs") + 1]) if "--jobs" in a else 6
    sites = json.load(open("/var/tmp/ms/site_map.json"))
    files = a[a.index("--files") + 1].split(",") if "--files" in a else sorted(f for f in sites if f.startswith(("src/", "include/tins")))
    db = facts.extract(facts.REPO)
    cands = []
    for rel in files:
        path = os.path.join(facts.REPO, rel)
        if not os.path.exists(path) or rel not in sites:
            continue
        lines = open(path).read().split("\n")
        inside = set()
        for lo, hi, q in function_ranges(db, rel):
            inside.update(range(lo, hi))
        for i, t in enumerate(lines):
            if i not in inside:
                continue
            for kind, new in rewrites(t):
                cands.append(dict(file=rel, line=i + 1, kind=kind, old=t, new=new))
    random.seed(int(a[a.index('--seed') + 1]) if '--seed' in a else 11)
    random.shuffle(cands)
    done = set()
    if os.path.exists(out_p):
        for l in open(out_p):
            r = json.loads(l)
            done.add((r["file"], r["line"], r["kind"]))
    todo = [c for c in cands if (c["file"], c["line"], c["kind"]) not in done][:mx]
    print("%d candidate rewrites, running %d" % (len(cands), len(todo)), flush=True)

    def one(ic):
        i, c = ic
        d = scratch.make("bn-%d" % i)
        try:
            p = os.path.join(d, c["file"])
            src = open(p).read().split("\n")
            src[c["line"] - 1] = c["new"]
            open(p, "w").write("\n".join(src))
            res = {}
            for pid in sorted(set(sites.get(c["file"], []))):
                rc, out = scratch.run_check(pid, d)
                if rc != 0:
                    inst = [x.strip() for x in out.splitlines() if x.strip().startswith(("instance", "ANALYSIS-BROKEN"))][:2]
                    res[pid] = [rc] + [x[:160] for x in inst]
            c["alarms"] = res
            c["checked"] = sorted(set(sites.get(c["file"], [])))
        finally:
            scratch.remove(d)
        with open(out_p, "a") as f:
            f.write(json.dumps(c) + "\n")
    with ThreadPoolExecutor(max_workers=jobs) as ex:
        list(ex.map(one, enumerate(todo)))
    print("done")


if __name__ == "__main__":
    main()
