#!/usr/bin/env python3
"""run_seeded.py [PID ...] : apply every kept seeded change of the given properties to a scratch copy
and run the property's check on it; print which fire."""
import json, os, sys, glob
sys.path.insert(0, '/verif')
from vlib import scratch
from concurrent.futures import ThreadPoolExecutor
pids = [p.upper() for p in sys.argv[1:]]
seeds = sorted(glob.glob('/verif/seeded/*/patch.diff'))
jobs = []
for s in seeds:
    name = os.path.basename(os.path.dirname(s))
    pid = name.split('-')[0]
    if pids and pid not in pids: continue
    jobs.append((pid, name, s))
def one(j):
    pid, name, patch = j
    if not os.path.exists('/verif/rules/%s.py' % pid.lower()):
        return (name, None, 'no check yet')
    d = scratch.make('seed-' + name)
    try:
        scratch.apply_patch(d, patch)
        rc, out = scratch.run_check(pid, d)
    finally:
        scratch.remove(d)
    v = [l for l in out.split('\n') if l.startswith('  instance') or 'BROKEN' in l]
    return (name, rc, '; '.join(x.strip() for x in v[:3]))
with ThreadPoolExecutor(max_workers=4) as ex:
    for name, rc, info in ex.map(one, jobs):
        print('%-10s rc=%s %s' % (name, rc, info[:260]))
