#!/usr/bin/env python3
"""bounds_fn.py <substring of function id> : run E-BOUNDS on matching functions and print obligations"""
import sys; sys.path.insert(0,'/verif')
from vlib import facts, bounds
db=facts.extract()
pat=sys.argv[1]
for fid,f in sorted(db.functions.items()):
    if pat in fid and f.get('cfg'):
        print("==",fid,f['file'],f['line'])
        try:
            b=bounds.FnBounds(db,f).run()
        except Exception as e:
            import traceback; traceback.print_exc(); continue
        for o in sorted(b.obls.values(), key=lambda o:o.node.get('l',0)):
            print("  L%-4d %-10s %-14s %s\n          %s"%(o.node.get('l',0),o.verdict,o.kind,o.text[:100],o.why[:300]))
