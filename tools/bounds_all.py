#!/usr/bin/env python3
import sys,time; sys.path.insert(0,'/verif')
from vlib import facts, bounds
db=facts.extract()
t0=time.time()
tot={'ok':0,'violation':0,'undecided':0}; bad=[]; nf=0; errs=0
for fid,f in sorted(db.functions.items()):
    if not f.get('cfg') or f.get('implicit'): continue
    if not (f['file'].startswith('src/') or f['file'].startswith('include/')): continue
    nf+=1
    try:
        b=bounds.FnBounds(db,f).run()
    except Exception as e:
        errs+=1; print("ERR",fid[:80],repr(e)[:200]); continue
    for o in b.obls.values():
        tot[o.verdict]+=1
        if o.verdict!='ok': bad.append((f['file'],o.node.get('l',0),o.verdict,o.kind,fid.split('(')[0][-50:],o.text[:70],o.why[:160]))
print(nf,'functions',tot,'errors',errs,'%.1fs'%(time.time()-t0))
for x in sorted(bad): print(*x,sep=' | ')
