#!/usr/bin/env python3
"""tools/site_map.py OUT: which source files each property's check has instances in (development aid for the surveys)."""
import importlib, json, os, sys
sys.path.insert(0, os.path.dirname(os.path.dirname(os.path.abspath(__file__))))
from vlib import facts, report
db = facts.extract(facts.REPO)
out = {}
for i in range(1, 20):
    pid = "C%02d" % i
    mod = importlib.import_module("rules.c%02d" % i)
    rep = report.Report(pid, "quick")
    try:
        mod.run(db, rep, "quick")
    except Exception as e:
        print(pid, "error", e)
    files = set()
    for o in rep.obls:
        s = o.get("site") or ""
        files.add(s.rsplit(":", 1)[0])
    for f in files:
        out.setdefault(f, []).append(pid)
    print(pid, len(rep.obls), "obligations in", len(files), "files", flush=True)
json.dump(out, open(sys.argv[1], "w"), indent=1)
