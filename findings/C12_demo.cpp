// Demonstration for the two C12 defects found by ./check C12 (run by hand for triage):
//   g++ -std=c++11 -I/repo/include findings/C12_demo.cpp -L/repo/_build/lib -ltins -o /var/tmp/c12demo && LD_LIBRARY_PATH=/repo/_build/lib /var/tmp/c12demo
#include <tins/tins.h>
#include <iostream>
using namespace Tins;
int main() {
    int bad = 0;
    // 1. copy assignment from a source with fewer layers keeps the target's old chain
    IP target = IP("1.1.1.1", "2.2.2.2") / TCP(80, 1234) / RawPDU("payload");
    IP source("3.3.3.3", "4.4.4.4");          // no inner layer
    target = source;
    if (target.inner_pdu() != 0 || target.serialize() != source.serialize()) {
        std::cout << "DEFECT 1: after `target = source` target still has " << (target.inner_pdu() ? "an inner layer" : "no inner layer")
                  << "; size " << target.size() << " vs source " << source.size() << "\n";
        ++bad;
    }
    // 2. clone() of a concrete Dot11Control yields an object of another class
    Dot11Control ctrl;
    PDU* c = ctrl.clone();
    if (c->pdu_type() != ctrl.pdu_type() || c->find_pdu<Dot11Control>() == 0) {
        std::cout << "DEFECT 2: Dot11Control::clone() has pdu_type " << c->pdu_type() << " (source " << ctrl.pdu_type()
                  << "), find_pdu<Dot11Control>() on the clone: " << (c->find_pdu<Dot11Control>() ? "found" : "null") << "\n";
        ++bad;
    }
    delete c;
    return bad;
}
