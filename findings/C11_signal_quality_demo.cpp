// Demonstration for the C11.R1 finding (RadioTap::signal_quality), run by hand for triage:
//   g++ -std=c++11 -I/repo/include findings/C11_signal_quality_demo.cpp -L/repo/_build/lib -ltins -o /var/tmp/c11demo && LD_LIBRARY_PATH=/repo/_build/lib /var/tmp/c11demo
// The setter writes LOCK_QUALITY as ONE byte while the shared field table says two; the getter reads DBM_SIGNAL as
// uint16_t.  Setting the field therefore (1) cannot be read back and (2) shifts every later field by one byte for the parser.
#include <tins/tins.h>
#include <iostream>
using namespace Tins;
int main() {
    int bad = 0;
    RadioTap radio;                 // default: TSFT, FLAGS, CHANNEL, DBM_SIGNAL, ANTENNA, RX_FLAGS
    const uint8_t antenna_before = radio.antenna();
    const uint16_t rx_before = radio.rx_flags();
    radio.signal_quality(0x7b);
    try {
        uint16_t q = radio.signal_quality();
        if (q != 0x7b) { std::cout << "signal_quality(0x7b) reads back 0x" << std::hex << q << std::dec << "\n"; ++bad; }
    } catch (std::exception& e) { std::cout << "signal_quality() after signal_quality(0x7b) throws: " << e.what() << "\n"; ++bad; }
    if ((radio.present() & RadioTap::LOCK_QUALITY) == 0) { std::cout << "LOCK_QUALITY not present\n"; ++bad; }
    try {
        if (radio.antenna() != antenna_before) { std::cout << "antenna changed from " << int(antenna_before) << " to " << int(radio.antenna()) << "\n"; ++bad; }
        if (radio.rx_flags() != rx_before) { std::cout << "rx_flags changed from " << rx_before << " to " << radio.rx_flags() << "\n"; ++bad; }
    } catch (std::exception& e) { std::cout << "later field unreadable: " << e.what() << "\n"; ++bad; }
    // round trip through bytes
    try {
        PDU::serialization_type bytes = radio.serialize();
        RadioTap parsed(&bytes[0], (uint32_t)bytes.size());
        if (parsed.antenna() != antenna_before || parsed.rx_flags() != rx_before) { std::cout << "parsed copy differs in antenna/rx_flags\n"; ++bad; }
    } catch (std::exception& e) { std::cout << "serialise/parse round trip fails: " << e.what() << "\n"; ++bad; }
    std::cout << bad << " problem(s)\n";
    return bad ? 1 : 0;
}
