// Demonstration for the C17.R2 finding (DataLinkType<Loopback> announces DLT_LOOP, which the sniffer cannot read):
//   g++ -std=c++11 -I/repo/include findings/C17_loopback_linktype_demo.cpp -L/repo/_build/lib -ltins -lpcap -o /var/tmp/c17b/demo && (cd /var/tmp/c17b && LD_LIBRARY_PATH=/repo/_build/lib ./demo)
#include <tins/tins.h>
#include <tins/loopback.h>
#include <iostream>
using namespace Tins;
int main() {
    Loopback lo = Loopback() / IP("1.2.3.4", "5.6.7.8") / UDP(53, 53) / RawPDU("x");
    {
        PacketWriter writer("lo.pcap", DataLinkType<Loopback>());
        writer.write(lo);
    }
    try {
        FileSniffer sniffer("lo.pcap");
        Packet p = sniffer.next_packet();
        if (!p.pdu() || !p.pdu()->find_pdu<UDP>()) { std::cout << "read back without the UDP layer\n"; return 1; }
        std::cout << "round trip ok\n";
        return 0;
    } catch (std::exception& e) { std::cout << "reading the file libtins just wrote throws: " << e.what() << "\n"; return 1; }
}
