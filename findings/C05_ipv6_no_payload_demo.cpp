#include <tins/tins.h>
#include <iostream>
using namespace Tins;
int main() {
    EthernetII e = EthernetII() / IPv6("::1", "::2");
    PDU::serialization_type b = e.serialize();
    std::cout << "size " << b.size() << " nh=" << (int)b[14+6] << "\n";
    try { EthernetII q(&b[0], b.size()); std::cout << "reparsed, inner of ipv6: " << (q.rfind_pdu<IPv6>().inner_pdu() ? "yes" : "none") << "\n"; }
    catch (std::exception& ex) { std::cout << "reparse threw: " << ex.what() << "\n"; return 1; }
    IPv6 alone("::1", "::2");
    b = alone.serialize();
    std::cout << "alone size " << b.size() << " nh=" << (int)b[6] << "\n";
    try { IPv6 q(&b[0], b.size()); std::cout << "alone reparsed\n"; } catch (std::exception& ex) { std::cout << "alone threw " << ex.what() << "\n"; }
    return 0;
}
