// Demonstration for the C17.R3 finding (sniff_loop_raw_handler reads the frame without looking at caplen):
//   g++ -std=c++11 -I/repo/include findings/C17_zero_length_frame_demo.cpp -L/repo/_build/lib -ltins -lpcap -o /var/tmp/c17/demo
//   LD_LIBRARY_PATH=/repo/_build/lib valgrind -q --error-exitcode=9 /var/tmp/c17/demo /var/tmp/c17/zero.pcap
// zero.pcap: LINKTYPE_RAW, one record with caplen 0 followed by one valid IPv4 packet.  The handler evaluates
// header->version on a frame of length 0: valgrind reports a jump depending on uninitialised memory (libpcap's buffer).
#include <tins/tins.h>
#include <iostream>
using namespace Tins;
int main(int argc, char** argv) {
    FileSniffer sniffer(argv[1]);
    int n = 0;
    for (auto& pkt : sniffer) { if (pkt.pdu()) ++n; }
    std::cout << n << " packet(s) parsed\n";
    return n == 1 ? 0 : 1;
}
