// Demonstration for the C02.R3 region finding (ICMP extensions are placed relative to sizeof(icmp_header), not to the
// end of the header that was written):
//   g++ -std=c++11 -I<tree>/include findings/C02_icmp_ext_offset_demo.cpp -L<tree>/_build/lib -ltins -o /var/tmp/c02b && LD_LIBRARY_PATH=<tree>/_build/lib /var/tmp/c02b
// For the timestamp / address-mask types header_size() is 8 + 12 / 8 + 4, but write_serialization puts the extension
// block at buffer + 8 + padded payload: it lands 12 (or 4) bytes too early, inside the payload that was already written.
#include <tins/tins.h>
#include <iostream>
using namespace Tins;
int main() {
    int bad = 0;
    std::string payload(140, 'P');
    ICMP icmp(ICMP::TIMESTAMP_REQUEST);
    icmp.original_timestamp(0x01020304);
    ICMPExtension ext(1, 1);
    ICMPExtension::payload_type ep(8, 0xEE);
    ext.payload(ep);
    icmp.extensions().add_extension(ext);
    icmp /= RawPDU(payload);
    PDU::serialization_type bytes = icmp.serialize();
    if (bytes.size() != icmp.size()) { std::cout << "size mismatch\n"; ++bad; }
    const uint32_t hs = icmp.header_size();
    unsigned clobbered = 0;
    for (size_t i = 0; i < payload.size(); ++i) if (bytes[hs + i] != 'P') ++clobbered;
    if (clobbered) { std::cout << clobbered << " of " << payload.size() << " payload bytes were overwritten by the ICMP layer (header_size()=" << hs << ")\n"; ++bad; }
    else std::cout << "payload intact\n";
    return bad ? 1 : 0;
}
