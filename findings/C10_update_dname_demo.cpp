// Demonstration for the C10 defect in DNS::update_dname / update_records (run by hand for triage):
//   g++ -std=c++11 -g -I/repo/include findings/C10_update_dname_demo.cpp -L/repo/_build/lib -ltins -o /var/tmp/c10demo
//   LD_LIBRARY_PATH=/repo/_build/lib valgrind -q --error-exitcode=9 /var/tmp/c10demo
// A response whose answer records use UNCOMPRESSED owner names is parsed, then a query is inserted:
// the later sections must shift and still be returned intact, without touching memory outside the message.
#include <tins/tins.h>
#include <iostream>
#include <vector>
using namespace Tins;
static void name(std::vector<uint8_t>& v, const char* a, const char* b) {
    v.push_back(strlen(a)); v.insert(v.end(), a, a + strlen(a));
    v.push_back(strlen(b)); v.insert(v.end(), b, b + strlen(b));
    v.push_back(0);
}
static void be16(std::vector<uint8_t>& v, uint16_t x) { v.push_back(x >> 8); v.push_back(x & 0xff); }
int main() {
    std::vector<uint8_t> m;
    be16(m, 0x1234); be16(m, 0x8180); be16(m, 1); be16(m, 2); be16(m, 0); be16(m, 0);
    name(m, "www", "example"); be16(m, 1); be16(m, 1);                       // question
    for (int i = 0; i < 2; ++i) {                                            // two A answers, names not compressed
        name(m, "www", "example"); be16(m, 1); be16(m, 1);
        be16(m, 0); be16(m, 300); be16(m, 4); m.push_back(10); m.push_back(0); m.push_back(0); m.push_back(1 + i);
    }
    DNS dns(&m[0], m.size());
    DNS::resources_type before = dns.answers();
    dns.add_query(DNS::query("other.example", DNS::A, DNS::INTERNET));         // shifts the answer section
    DNS::resources_type after = dns.answers();
    int bad = 0;
    if (before.size() != after.size()) { std::cout << "answers changed: " << before.size() << " -> " << after.size() << "\n"; ++bad; }
    for (size_t i = 0; i < before.size() && i < after.size(); ++i) {
        if (before[i].dname() != after[i].dname() || before[i].data() != after[i].data()) {
            std::cout << "answer " << i << " changed: " << before[i].dname() << "/" << before[i].data() << " -> " << after[i].dname() << "/" << after[i].data() << "\n"; ++bad;
        }
    }
    std::cout << (bad ? "DEFECT" : "ok") << "\n";
    return bad ? 1 : 0;
}
