// Demonstration for the C14 defect in RadioTap::matches_response (run by hand for triage):
//   g++ -std=c++11 -I/repo/include findings/C14_radiotap_demo.cpp -L/repo/_build/lib -ltins -o /var/tmp/c14demo && LD_LIBRARY_PATH=/repo/_build/lib /var/tmp/c14demo
// A 2-byte buffer placed right before an inaccessible page: response matching must read only inside the buffer.
#include <tins/tins.h>
#include <sys/mman.h>
#include <unistd.h>
#include <csignal>
#include <csetjmp>
#include <cstring>
#include <iostream>
using namespace Tins;
static sigjmp_buf jb;
static void on_segv(int) { siglongjmp(jb, 1); }
int main() {
    long pg = sysconf(_SC_PAGESIZE);
    uint8_t* m = (uint8_t*)mmap(0, 2 * pg, PROT_READ | PROT_WRITE, MAP_PRIVATE | MAP_ANONYMOUS, -1, 0);
    mprotect(m + pg, pg, PROT_NONE);
    signal(SIGSEGV, on_segv);
    int bad = 0;
    RadioTap rt;
    for (uint32_t len = 0; len <= 3; ++len) {
        uint8_t* buf = m + pg - len;
        memset(buf, 0, len);
        if (sigsetjmp(jb, 1) == 0) {
            rt.matches_response(buf, len);
        } else {
            std::cout << "DEFECT: RadioTap::matches_response read outside a " << len << "-byte buffer (guard page hit)\n";
            ++bad;
        }
    }
    // and a well-formed mirrored frame must be recognised
    RadioTap req = RadioTap() / Dot11Data();
    PDU::serialization_type ser = req.serialize();
    if (!RadioTap().matches_response(&ser[0], (uint32_t)ser.size()) ) {
        std::cout << "DEFECT: a " << ser.size() << "-byte radiotap frame is never recognised (size test inverted)\n";
        ++bad;
    }
    return bad ? 1 : 0;
}
