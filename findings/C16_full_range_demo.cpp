// Demonstration for the C16.R6 finding: Internals::increment(IPv4Address&) returned `++v == 0xffffffff` (true when the
// NEW value is all-ones) instead of reporting wrap-around like the byte-wise increment used for IPv6/hardware addresses.
// The end sentinel of a range ending at 255.255.255.255 is then (0.0.0.0, flag=false) == begin() of 0.0.0.0-255.255.255.255.
//   g++ -std=c++11 -I/repo/include findings/C16_full_range_demo.cpp -L/repo/_build/lib -ltins -lpcap -o /var/tmp/c16f && LD_LIBRARY_PATH=/repo/_build/lib /var/tmp/c16f
#include <tins/tins.h>
#include <tins/address_range.h>
#include <iostream>
using namespace Tins;
int main() {
    int bad = 0;
    IPv4Range all(IPv4Address("0.0.0.0"), IPv4Address("255.255.255.255"));
    if (all.begin() == all.end()) { std::cout << "IPv4 0.0.0.0-255.255.255.255: begin() == end(), iteration visits nothing\n"; ++bad; }
    else { std::cout << "IPv4 full range: first visited " << *all.begin() << "\n"; }
    IPv6Range all6(IPv6Address("::"), IPv6Address("ffff:ffff:ffff:ffff:ffff:ffff:ffff:ffff"));
    if (all6.begin() == all6.end()) { std::cout << "IPv6 full range: begin() == end()\n"; ++bad; }
    // ranges that end at the all-ones address must still be visited completely, in order
    IPv4Range top(IPv4Address("255.255.255.252"), IPv4Address("255.255.255.255"));
    int n = 0; IPv4Address last;
    for (IPv4Range::const_iterator it = top.begin(); it != top.end() && n < 10; ++it, ++n) last = *it;
    if (n != 4 || last != IPv4Address("255.255.255.255")) { std::cout << "255.255.255.252-255: visited " << n << ", last " << last << "\n"; ++bad; }
    IPv4Range net = IPv4Address("255.255.255.248") / 29;    // hosts only
    n = 0;
    for (IPv4Range::const_iterator it = net.begin(); it != net.end() && n < 20; ++it, ++n) last = *it;
    if (n != 6 || last != IPv4Address("255.255.255.254")) { std::cout << "/29 at the top: visited " << n << ", last " << last << "\n"; ++bad; }
    std::cout << bad << " problem(s)\n";
    return bad ? 1 : 0;
}
