// Demonstration for the C15.R5 finding (PPPoE version/type nibbles): RFC 2516 puts VER in the high nibble of the
// first octet and TYPE in the low nibble; the little-endian declaration had them the other way round (the big-endian
// one was right), which is invisible for the usual 0x11.
//   g++ -std=c++11 -I/repo/include findings/C15_pppoe_nibbles_demo.cpp -L/repo/_build/lib -ltins -o /var/tmp/c15p && LD_LIBRARY_PATH=/repo/_build/lib /var/tmp/c15p
#include <tins/tins.h>
#include <iostream>
using namespace Tins;
int main() {
    int bad = 0;
    static const uint8_t raw[] = {0x12, 0x09, 0x00, 0x00, 0x00, 0x00};   // VER=1 TYPE=2, PADI, session 0, length 0
    PPPoE p(raw, sizeof(raw));
    if (p.version() != 1 || p.type() != 2) { std::cout << "octet 0x12 parsed as version " << int(p.version()) << " type " << int(p.type()) << " (RFC 2516: version 1, type 2)\n"; ++bad; }
    PPPoE q;
    q.version(1); q.type(2);
    if (q.serialize()[0] != 0x12) { std::cout << "version 1 / type 2 serialised as 0x" << std::hex << int(q.serialize()[0]) << std::dec << "\n"; ++bad; }
    std::cout << bad << " problem(s)\n";
    return bad ? 1 : 0;
}
