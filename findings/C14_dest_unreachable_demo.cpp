// Demonstration for the C14 finding in IP::matches_response: the "ICMP destination unreachable quoting our header" shortcut
// tests `memcmp(&header_, quoted, 20)` WITHOUT `== 0` (and looks 4 instead of 8 bytes into the ICMP message), so ANY
// ICMP type-3 packet from ANY host to ANY host whose bytes differ from our header is accepted as the response to our
// request - a packet that differs in every matched address is recognised - while the genuine error message quoting
// exactly our header is not recognised through this path.
//   g++ -std=c++11 -I/repo/include findings/C14_dest_unreachable_demo.cpp -L/repo/_build/lib -ltins -lpcap -o /var/tmp/c14d && LD_LIBRARY_PATH=/repo/_build/lib /var/tmp/c14d
#include <tins/tins.h>
#include <iostream>
using namespace Tins;
int main() {
    int bad = 0;
    IP request = IP("1.2.3.4", "5.6.7.8") / UDP(53, 4000) / RawPDU("hello");
    PDU::serialization_type req_bytes = request.serialize();
    // (a) an unrelated error message: other source, other destination, quoting some other datagram
    IP other = IP("200.1.1.1", "100.1.1.1") / UDP(9, 9) / RawPDU("zzzz");
    PDU::serialization_type other_bytes = other.serialize();
    ICMP err;
    err.type(ICMP::DEST_UNREACHABLE);
    IP stranger = IP("9.9.9.9", "8.8.8.8") / err / RawPDU(&other_bytes[0], 28);
    PDU::serialization_type stranger_bytes = stranger.serialize();
    if (request.matches_response(&stranger_bytes[0], (uint32_t)stranger_bytes.size())) {
        std::cout << "an ICMP unreachable 8.8.8.8 -> 9.9.9.9 about another datagram is accepted as the response to 5.6.7.8 -> 1.2.3.4\n";
        ++bad;
    }
    // (b) the genuine one: the destination host reports the port unreachable and quotes our datagram
    ICMP err2;
    err2.type(ICMP::DEST_UNREACHABLE);
    err2.code(3);
    IP genuine = IP("77.7.7.7", "66.6.6.6") / err2 / RawPDU(&req_bytes[0], 28);   // from a router: addresses do not mirror
    PDU::serialization_type genuine_bytes = genuine.serialize();
    if (!request.matches_response(&genuine_bytes[0], (uint32_t)genuine_bytes.size())) {
        std::cout << "the unreachable message that quotes exactly our header is NOT recognised\n";
        ++bad;
    }
    std::cout << (bad ? "DEFECT SHOWN\n" : "ok\n");
    return bad ? 1 : 0;
}
