// Demonstration for the C04.R12 finding: Dot11ManagementFrame::country() pads the element to an even length; the decoder threw
// malformed_option for the pad octet, so elements with 2, 4, 6 ... triplets could not be read back.
//   g++ -std=c++11 -I/repo/include findings/C04_country_padding_demo.cpp -L/repo/_build/lib -ltins -lpcap -o /var/tmp/c04c && LD_LIBRARY_PATH=/repo/_build/lib /var/tmp/c04c
#include <tins/tins.h>
#include <iostream>
using namespace Tins;
int main() {
    int bad = 0;
    for (int n = 1; n <= 6; ++n) {
        Dot11Beacon b;
        Dot11ManagementFrame::country_params p;
        p.country = "US ";
        for (int i = 0; i < n; ++i) { p.first_channel.push_back(1 + i); p.number_channels.push_back(11); p.max_transmit_power.push_back(30); }
        b.country(p);
        try {
            Dot11ManagementFrame::country_params q = b.country();
            bool same = q.country == p.country && q.first_channel == p.first_channel && q.number_channels == p.number_channels && q.max_transmit_power == p.max_transmit_power;
            std::cout << n << " triplet(s): " << (same ? "ok" : "DIFFERENT") << "\n"; bad += !same;
        } catch (std::exception& e) { std::cout << n << " triplet(s): country() throws " << e.what() << "\n"; ++bad; }
    }
    std::cout << bad << " problem(s)\n";
    return bad ? 1 : 0;
}
