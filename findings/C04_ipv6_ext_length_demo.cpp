// Demonstration for the C04.R6 finding (IPv6 extension header length byte), run by hand for triage:
//   g++ -std=c++11 -I/repo/include findings/C04_ipv6_ext_length_demo.cpp -L/repo/_build/lib -ltins -o /var/tmp/c04demo && LD_LIBRARY_PATH=/repo/_build/lib /var/tmp/c04demo
// An extension header whose data length is 7 mod 8 is padded to the next multiple of 8 but its length byte is data/8:
// one unit too small, so a parser of the bytes takes the tail of the header as the next header.
#include <tins/tins.h>
#include <iostream>
using namespace Tins;
int main() {
    int bad = 0;
    for (unsigned n = 0; n <= 16; ++n) {
        IPv6 ip("::1", "::2");
        std::vector<uint8_t> data(n, 0);
        // a PadN option filling the header, so that the content is well formed: type 1, len n-2
        if (n >= 2) { data[0] = 1; data[1] = n - 2; }
        ip.add_header(IPv6::ext_header(IPv6::DESTINATION_OPTIONS, data.begin(), data.end()));
        ip /= UDP(53, 53);
        ip /= RawPDU("payload");
        PDU::serialization_type bytes = ip.serialize();
        try {
            IPv6 parsed(&bytes[0], (uint32_t)bytes.size());
            const UDP* udp = parsed.find_pdu<UDP>();
            if (!udp || udp->dport() != 53 || parsed.headers().size() != 1) {
                std::cout << "data size " << n << ": re-parsed packet has " << parsed.headers().size() << " extension header(s) and "
                          << (udp ? "a wrong" : "no") << " UDP layer\n";
                ++bad;
            }
        } catch (std::exception& e) { std::cout << "data size " << n << ": parse of own serialization throws " << e.what() << "\n"; ++bad; }
    }
    std::cout << bad << " problem(s)\n";
    return bad ? 1 : 0;
}
