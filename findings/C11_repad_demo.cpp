// Demonstration for the C11.R6 finding (RadioTapWriter::update_paddings loses track of the buffer offset), run by hand:
//   g++ -std=c++11 -I/repo/include findings/C11_repad_demo.cpp -L/repo/_build/lib -ltins -o /var/tmp/c11demo2 && LD_LIBRARY_PATH=/repo/_build/lib /var/tmp/c11demo2
// Inserting a field in front of two or more fields that need re-alignment measures and edits the wrong bytes from the
// second one on (`offset += start` adds an absolute index each round).
#include <tins/tins.h>
#include <iostream>
using namespace Tins;
int main() {
    // RadioTap header with only FLAGS present, followed by an 802.11 ACK
    static const uint8_t raw[] = {0,0,9,0, 2,0,0,0, 0x00, 0xd4,0,0,0, 1,2,3,4,5,6};
    int bad = 0;
    RadioTap r(raw, sizeof(raw));
    r.channel(2437, 0xa0);
    r.rx_flags(0x5566);
    r.rate(0x31);          // inserted before CHANNEL and RX_FLAGS: both must be re-aligned
    try {
        if (r.rate() != 0x31) { std::cout << "rate reads back " << int(r.rate()) << "\n"; ++bad; }
        if (r.channel_freq() != 2437 || r.channel_type() != 0xa0) { std::cout << "channel reads back " << r.channel_freq() << "/" << r.channel_type() << "\n"; ++bad; }
        if (r.rx_flags() != 0x5566) { std::cout << "rx_flags reads back 0x" << std::hex << r.rx_flags() << std::dec << "\n"; ++bad; }
    } catch (std::exception& e) { std::cout << "getter throws: " << e.what() << "\n"; ++bad; }
    std::cout << "payload size " << r.options_payload().size() << " (canonical: present 4 + flags 1 + rate 1 + channel 4 + rx_flags 2 = 12)\n";
    if (r.options_payload().size() != 12) ++bad;
    std::cout << bad << " problem(s)\n";
    return bad ? 1 : 0;
}
