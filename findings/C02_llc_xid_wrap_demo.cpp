// Demonstration for the C02 finding in LLC: information_field_length_ is a uint8_t that add_xid_information() increases by 3
// per XID field, while information_fields_ keeps every field.  From the 86th field on the cached length has wrapped
// (258 -> 2), header_size() announces fewer bytes than write_serialization() writes, and serialising a packet that was
// built only through the public API throws serialization_error (the cursor refuses to leave the region size() reserved).
//   g++ -std=c++11 -I/repo/include findings/C02_llc_xid_wrap_demo.cpp -L/repo/_build/lib -ltins -lpcap -o /var/tmp/c02l && LD_LIBRARY_PATH=/repo/_build/lib /var/tmp/c02l
#include <tins/tins.h>
#include <iostream>
using namespace Tins;
int main() {
    int bad = 0;
    for (int n = 84; n <= 87; ++n) {
        LLC llc(0x42, 0x42);
        for (int i = 0; i < n; ++i) {
            llc.add_xid_information(0x81, 1, 2);
        }
        try {
            PDU::serialization_type out = llc.serialize();
            const size_t want = 3 + 1 + 3 * (size_t)n;      // header + unnumbered control byte + the XID fields
            if (out.size() != want) {
                std::cout << n << " XID fields: serialised to " << out.size() << " bytes, " << want << " expected\n";
                ++bad;
            }
        }
        catch (serialization_error&) {
            std::cout << n << " XID fields: header_size() = " << llc.header_size() << ", serialize() throws serialization_error\n";
            ++bad;
        }
    }
    std::cout << (bad ? "DEFECT SHOWN\n" : "ok\n");
    return bad ? 1 : 0;
}
