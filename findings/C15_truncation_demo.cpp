// Demonstration for the C15.R2 findings (silent truncation in scalar setters), run by hand for triage:
//   g++ -std=c++11 -I/repo/include findings/C15_truncation_demo.cpp -L/repo/_build/lib -ltins -o /var/tmp/c15demo && LD_LIBRARY_PATH=/repo/_build/lib /var/tmp/c15demo
// The property requires "values too large for a sub-byte or odd-width field are rejected with an error instead of
// being truncated".  The DNS flag/opcode/rcode setters take uint8_t and store into 1- and 4-bit bit-fields; the STP
// timer setters take uint16_t seconds and store (value * 256) into a 16-bit field.
#include <tins/tins.h>
#include <iostream>
using namespace Tins;
int main() {
    int bad = 0;
    DNS dns;
    try { dns.opcode(0x1f); if (dns.opcode() != 0x1f) { std::cout << "DNS::opcode(0x1f) accepted, reads back " << int(dns.opcode()) << "\n"; ++bad; } } catch (std::exception&) {}
    try { dns.rcode(0x13); if (dns.rcode() != 0x13) { std::cout << "DNS::rcode(0x13) accepted, reads back " << int(dns.rcode()) << "\n"; ++bad; } } catch (std::exception&) {}
    try { dns.truncated(2); if (dns.truncated() != 2) { std::cout << "DNS::truncated(2) accepted, reads back " << int(dns.truncated()) << "\n"; ++bad; } } catch (std::exception&) {}
    try { dns.recursion_desired(4); if (dns.recursion_desired() != 4) { std::cout << "DNS::recursion_desired(4) accepted, reads back " << int(dns.recursion_desired()) << "\n"; ++bad; } } catch (std::exception&) {}
    STP stp;
    try { stp.msg_age(300); if (stp.msg_age() != 300) { std::cout << "STP::msg_age(300) accepted, reads back " << stp.msg_age() << "\n"; ++bad; } } catch (std::exception&) {}
    try { stp.fwd_delay(256); if (stp.fwd_delay() != 256) { std::cout << "STP::fwd_delay(256) accepted, reads back " << stp.fwd_delay() << "\n"; ++bad; } } catch (std::exception&) {}
    std::cout << bad << " silent truncation(s)\n";
    return bad ? 1 : 0;
}
