// Demonstration for the C09 defect "default-constructed SessionKeys used for decryption" (run by hand):
//   g++ -std=c++11 -g -I/repo/include findings/C09_default_keys_demo.cpp -L/repo/_build/lib -ltins -o /var/tmp/c09bdemo
//   LD_LIBRARY_PATH=/repo/_build/lib valgrind -q --error-exitcode=9 /var/tmp/c09bdemo
// Key material supplied directly may be an empty (default constructed) SessionKeys object; decrypting with it
// must fail cleanly instead of reading the temporal key 32 bytes into an empty vector.
#include <tins/tins.h>
#include <iostream>
using namespace Tins;
int main() {
    Crypto::WPA2Decrypter dec;
    HWAddress<6> ap("00:11:22:33:44:55"), sta("66:77:88:99:aa:bb");
    dec.add_decryption_keys(std::make_pair(ap, sta), Crypto::WPA2::SessionKeys());
    Dot11Data frame;
    frame.from_ds(1); frame.to_ds(0);
    frame.addr1(sta); frame.addr2(ap); frame.addr3(ap);
    frame.wep(1);
    frame /= RawPDU(std::string(64, 'x'));
    bool ok = dec.decrypt(frame);
    std::cout << "decrypt() returned " << ok << " (must be false)\n";
    return ok ? 1 : 0;
}
