// Demonstration for the C09 defect in SessionKeys::ccmp_decrypt_unicast (run by hand for triage):
//   g++ -std=c++11 -g -I/repo/include findings/C09_ccmp_short_demo.cpp -L/repo/_build/lib -ltins -o /var/tmp/c09demo
//   LD_LIBRARY_PATH=/repo/_build/lib valgrind -q --error-exitcode=9 /var/tmp/c09demo
// A protected data frame whose body is shorter than the CCMP header + MIC must be rejected, memory-safely.
#include <tins/tins.h>
#include <iostream>
using namespace Tins;
int main() {
    Crypto::WPA2Decrypter dec;
    Crypto::WPA2::SessionKeys::ptk_type ptk(80, 0x11);
    HWAddress<6> ap("00:11:22:33:44:55"), sta("66:77:88:99:aa:bb");
    dec.add_decryption_keys(std::make_pair(ap, sta), Crypto::WPA2::SessionKeys(ptk, true));
    Dot11Data frame;
    frame.from_ds(1); frame.to_ds(0);
    frame.addr1(sta); frame.addr2(ap); frame.addr3(ap);
    frame.wep(1);
    frame /= RawPDU(std::string("\x01\x02\x03", 3));          // 3-byte body: no room for the 8-byte CCMP header nor the MIC
    bool ok = dec.decrypt(frame);
    std::cout << "decrypt() returned " << ok << " (must be false)\n";
    return ok ? 1 : 0;
}
