// Demonstration for the C16 finding: AddressRangeIterator::operator++(int) is written `copy(*this); (*this)++; return copy;`
// - the statement in the middle is the post-increment itself, so `it++` recurses without end (stack overflow) and a loop
// that iterates an address range with `it++` never terminates.  The demo runs the iteration in a child process.
//   g++ -std=c++11 -I/repo/include findings/C16_postincrement_demo.cpp -L/repo/_build/lib -ltins -lpcap -o /var/tmp/c16p && LD_LIBRARY_PATH=/repo/_build/lib /var/tmp/c16p
#include <tins/tins.h>
#include <tins/address_range.h>
#include <iostream>
#include <sys/wait.h>
#include <unistd.h>
using namespace Tins;
int main() {
    pid_t pid = fork();
    if (pid == 0) {
        IPv4Range range = IPv4Address("192.168.0.0") / 30;
        int n = 0;
        for (IPv4Range::const_iterator it = range.begin(); it != range.end(); it++) {
            ++n;
        }
        _exit(n == 2 ? 0 : 3);
    }
    int status = 0;
    waitpid(pid, &status, 0);
    if (WIFSIGNALED(status)) {
        std::cout << "iterating 192.168.0.0/30 with it++ died with signal " << WTERMSIG(status) << " (unbounded recursion)\nDEFECT SHOWN\n";
        return 1;
    }
    if (WEXITSTATUS(status) != 0) {
        std::cout << "iterating with it++ visited the wrong number of hosts\nDEFECT SHOWN\n";
        return 1;
    }
    std::cout << "ok\n";
    return 0;
}
