// Demonstration for the C01/C10 defect in DNS::compose_name (run by hand for triage):
//   g++ -std=c++11 -g -I/repo/include findings/C01_compose_name_demo.cpp -L/repo/_build/lib -ltins -o /var/tmp/c01demo
//   LD_LIBRARY_PATH=/repo/_build/lib valgrind -q --error-exitcode=9 /var/tmp/c01demo
// The question's name is a compression pointer to a label that runs to the very last byte of the message.
#include <tins/tins.h>
#include <iostream>
using namespace Tins;
int main() {
    const uint8_t msg[] = {
        0x12, 0x34, 0x01, 0x00, 0x00, 0x01, 0x00, 0x00, 0x00, 0x00, 0x00, 0x00,   // header, 1 question
        0xc0, 0x12, 0x00, 0x01, 0x00, 0x01,                                       // name = pointer to offset 18
        0x03, 'a', 'b', 'c'                                                       // label without terminator, ends the message
    };
    try {
        DNS dns(msg, sizeof(msg));
        DNS::queries_type q = dns.queries();
        std::cout << "accepted, " << q.size() << " queries\n";
    } catch (exception_base& e) {
        std::cout << "rejected: " << e.what() << "\n";
    }
    return 0;
}
