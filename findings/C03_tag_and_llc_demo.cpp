// Demonstration for the C03 findings (parse -> serialise loses information), run by hand for triage:
//   g++ -std=c++11 -I<tree>/include findings/C03_tag_and_llc_demo.cpp -L<tree>/_build/lib -ltins -o /var/tmp/c03demo && LD_LIBRARY_PATH=<tree>/_build/lib /var/tmp/c03demo
// R1: SNAP, SLL and IPSecAH overwrite their next-protocol field with the "unknown" value when the payload class is not
//     in the class->tag table.   R4: an LLC information frame whose first control octet has low bits 10 loses its control field.
#include <tins/tins.h>
#include <iostream>
#include <cstdio>
using namespace Tins;
template <class T> static int roundtrip(const char* what, const uint8_t* raw, size_t n) {
    try {
        T pdu(raw, (uint32_t)n);
        PDU::serialization_type out = pdu.serialize();
        if (out.size() != n || !std::equal(out.begin(), out.end(), raw)) {
            std::cout << what << ": re-serialised bytes differ:";
            for (size_t i = 0; i < out.size() && i < n; ++i) if (out[i] != raw[i]) printf(" [%zu] %02x->%02x", i, raw[i], out[i]);
            std::cout << " (sizes " << n << " -> " << out.size() << ")\n";
            return 1;
        }
        std::cout << what << ": ok\n";
        return 0;
    } catch (std::exception& e) { std::cout << what << ": exception " << e.what() << "\n"; return 1; }
}
int main() {
    int bad = 0;
    // SNAP header: dsap ssap control(3) org(3 bytes) eth_type 0x88b5 (local experimental) + payload
    static const uint8_t snap[] = {0xaa, 0xaa, 0x03, 0x00, 0x00, 0x00, 0x88, 0xb5, 'd', 'a', 't', 'a'};
    bad += roundtrip<SNAP>("SNAP with ethertype 0x88b5", snap, sizeof(snap));
    // Linux cooked capture: type 0, arphrd 1, addr len 6, addr(8), protocol 0x88b5 + payload
    static const uint8_t sll[] = {0,0, 0,1, 0,6, 1,2,3,4,5,6,0,0, 0x88,0xb5, 'd','a','t','a'};
    bad += roundtrip<SLL>("SLL with protocol 0x88b5", sll, sizeof(sll));
    // AH: next header 0x2f (GRE, not in the table), length 1 (12 bytes), reserved, spi, seq, payload
    static const uint8_t ah[] = {0x2f, 0x01, 0,0, 0,0,0,1, 0,0,0,2, 'd','a','t','a'};
    bad += roundtrip<IPSecAH>("IPSecAH with next header 47", ah, sizeof(ah));
    // LLC information frame: dsap ssap, control 0x02 0x04 (low bits of first octet = 10), payload
    static const uint8_t llc[] = {0xf0, 0xf0, 0x02, 0x04, 'd', 'a', 't', 'a'};
    bad += roundtrip<LLC>("LLC I-frame with N(S)=1", llc, sizeof(llc));
    std::cout << bad << " problem(s)\n";
    return bad ? 1 : 0;
}
