// Demonstration for the C02.R1 findings (option size accounting vs bytes written), run by hand for triage:
//   g++ -std=c++11 -I<tree>/include findings/C02_option_size_demo.cpp -L<tree>/_build/lib -ltins -o /var/tmp/c02demo && LD_LIBRARY_PATH=<tree>/_build/lib /var/tmp/c02demo
// 1. TCP: an option of kind > 1 without data (e.g. TCP Fast Open cookie request, kind 34 len 2) was counted as 1 byte by
//    calculate_options_size() but written as 2 bytes by write_option().
// 2. IP: an option whose identifier has the `copied` bit set and class/number 0 (byte 0x80) was counted as 1 byte but
//    written as type + length.
#include <tins/tins.h>
#include <iostream>
using namespace Tins;
static int check(const char* what, PDU& pdu, const std::string& payload) {
    try {
        PDU::serialization_type bytes = pdu.serialize();
        if (bytes.size() != pdu.size()) { std::cout << what << ": serialize() returned " << bytes.size() << " bytes, size() is " << pdu.size() << "\n"; return 1; }
        std::string tail(bytes.end() - payload.size(), bytes.end());
        if (tail != payload) { std::cout << what << ": payload bytes were overwritten: '" << tail << "'\n"; return 1; }
        std::cout << what << ": ok (" << bytes.size() << " bytes)\n";
        return 0;
    } catch (std::exception& e) { std::cout << what << ": serialize() throws: " << e.what() << "\n"; return 1; }
}
int main() {
    int bad = 0;
    const std::string payload = "PAYLOAD!";
    {
        IP ip = IP("1.2.3.4", "4.3.2.1") / TCP(80, 1000) / RawPDU(payload);
        TCP& tcp = ip.rfind_pdu<TCP>();
        tcp.add_option(TCP::option((TCP::OptionTypes)34));      // Fast Open cookie request: kind 34, no data
        tcp.add_option(TCP::option((TCP::OptionTypes)34));
        tcp.add_option(TCP::option((TCP::OptionTypes)34));
        bad += check("TCP kind-34 empty options", ip, payload);
    }
    {
        IP ip = IP("1.2.3.4", "4.3.2.1") / UDP(53, 53) / RawPDU(payload);
        for (int i = 0; i < 4; ++i) ip.add_option(IP::option(IP::option_identifier((IP::OptionNumber)0, IP::CONTROL, 1)));  // byte 0x80
        bad += check("IP option 0x80", ip, payload);
        try {
            PDU::serialization_type bytes = ip.serialize();
            const uint32_t ihl = (bytes[0] & 0xf) * 4;
            // the UDP header starts right after the IP header: source port 53
            if (bytes.size() < ihl + 2 || bytes[ihl] != 0 || bytes[ihl + 1] != 53) {
                std::cout << "IP option 0x80: the UDP header that follows the IP header was overwritten (bytes " << int(bytes[ihl]) << " " << int(bytes[ihl + 1]) << " instead of 0 53)\n";
                ++bad;
            }
        } catch (std::exception&) { }
    }
    std::cout << bad << " problem(s)\n";
    return bad ? 1 : 0;
}
