// Demonstration for the C12.R7 finding: TCPStream::operator= overwrote client_frags_/server_frags_ (maps of owning RawPDU*)
// without freeing the segments they held; run under valgrind --leak-check=full (2 definitely-lost blocks before the fix).
//   g++ -std=c++11 -g -I/repo/include findings/C12_tcpstream_assign_demo.cpp -L/repo/_build/lib -ltins -lpcap -o /var/tmp/c12t && LD_LIBRARY_PATH=/repo/_build/lib valgrind --leak-check=full --error-exitcode=9 /var/tmp/c12t
#include <tins/tins.h>
#include <tins/tcp_stream.h>
#include <iostream>
using namespace Tins;
// builds a legacy TCPStream that has one out-of-order client segment buffered
static TCPStream make(uint16_t sport) {
    IP syn = IP("10.0.0.2", "10.0.0.1") / TCP(80, sport);
    syn.rfind_pdu<TCP>().flags(TCP::SYN); syn.rfind_pdu<TCP>().seq(100);
    TCPStream s(&syn, &syn.rfind_pdu<TCP>(), sport);
    IP synack = IP("10.0.0.1", "10.0.0.2") / TCP(sport, 80);
    synack.rfind_pdu<TCP>().flags(TCP::SYN | TCP::ACK); synack.rfind_pdu<TCP>().seq(500); synack.rfind_pdu<TCP>().ack_seq(101);
    s.update(&synack, &synack.rfind_pdu<TCP>());
    // client segment that starts 50 bytes ahead: stays in client_frags_
    IP data = IP("10.0.0.2", "10.0.0.1") / TCP(80, sport) / RawPDU(std::string(32, 'x'));
    data.rfind_pdu<TCP>().flags(TCP::ACK); data.rfind_pdu<TCP>().seq(151);
    s.update(&data, &data.rfind_pdu<TCP>());
    return s;
}
int main() {
    TCPStream a = make(1000), b = make(2000);
    a = b;          // a's buffered segment must be freed
    a = a;
    std::cout << "done\n";
}
