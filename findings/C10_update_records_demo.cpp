// Demonstration for the C10 KNOWN FINDING: DNS::update_records/update_dname walk record data without bounds
// ("no length checks, records are already valid") but the constructor never validates names INSIDE record data.
//   g++ -std=c++11 -g -I/repo/include findings/C10_update_records_demo.cpp -L/repo/_build/lib -ltins -o /var/tmp/c10kdemo
//   LD_LIBRARY_PATH=/repo/_build/lib valgrind -q --error-exitcode=9 /var/tmp/c10kdemo
#include <tins/tins.h>
#include <iostream>
using namespace Tins;
int main() {
    const uint8_t msg[] = {
        0x12, 0x34, 0x81, 0x80, 0x00, 0x00, 0x00, 0x01, 0x00, 0x00, 0x00, 0x00,   // header: 0 questions, 1 answer
        0x01, 'a', 0x00,                                                          // owner name "a"
        0x00, 0x05, 0x00, 0x01, 0x00, 0x00, 0x00, 0x3c, 0x00, 0x01,               // CNAME IN ttl=60 rdlength=1
        0x3f                                                                      // rdata: a label of 63 bytes that is not there
    };
    DNS dns(msg, sizeof(msg));                       // accepted: the constructor only skips rdlength bytes
    dns.add_query(DNS::query("x.example", DNS::A, DNS::INTERNET));   // shifts the answer section -> update_records
    std::cout << "done\n";
    return 0;
}
