// Demonstration for the C13 known finding (run by hand for triage, not by the check):
//   g++ -std=c++11 -I/repo/include findings/C13_cacher_demo.cpp -L/repo/_build/lib -ltins -o /var/tmp/c13demo
//   LD_LIBRARY_PATH=/repo/_build/lib /var/tmp/c13demo
// A chain search for IP on a chain whose layer is a PDUCacher<IP> "succeeds"
// and returns a pointer to an object that is not an IP.
#include <tins/tins.h>
#include <tins/pdu_cacher.h>
#include <iostream>
#include <typeinfo>
using namespace Tins;
int main() {
    PDUCacher<IP> cacher(IP("1.2.3.4", "5.6.7.8"));
    PDU& as_pdu = cacher;
    IP* found = as_pdu.find_pdu<IP>();
    std::cout << "find_pdu<IP>() on PDUCacher<IP>: " << (found ? "non-null" : "null") << "\n";
    if (found) {
        PDU* p = found; // same address
        std::cout << "dynamic type is IP? " << (dynamic_cast<IP*>(p) != 0) << " (typeid: " << typeid(*p).name() << ")\n";
    }
    IP ip("1.2.3.4", "5.6.7.8");
    PDU& ip_pdu = ip;
    PDUCacher<IP>* wrong = ip_pdu.find_pdu<PDUCacher<IP> >();
    std::cout << "find_pdu<PDUCacher<IP>>() on IP: " << (wrong ? "non-null (wrong type)" : "null") << "\n";
    PDUCacher<IP>* wrong2 = tins_cast<PDUCacher<IP>*>(&ip_pdu);
    std::cout << "tins_cast<PDUCacher<IP>*>(IP*): " << (wrong2 ? "non-null (wrong type)" : "null") << "\n";
    return (found && dynamic_cast<IP*>(static_cast<PDU*>(found)) == 0) || wrong || wrong2 ? 1 : 0;
}
