// Demonstration for the C10.R8 finding: DNS::update_dname compared a compression pointer (offset from the start of the
// MESSAGE, header included) with `threshold` (offset from the start of records_data_, i.e. 12 octets later).  A pointer
// whose target lies in the 11 octets before the insertion point was relocated although its target does not move.
//   g++ -std=c++11 -I/repo/include findings/C10_pointer_threshold_demo.cpp -L/repo/_build/lib -ltins -lpcap -o /var/tmp/c10t && LD_LIBRARY_PATH=/repo/_build/lib /var/tmp/c10t
#include <tins/tins.h>
#include <iostream>
using namespace Tins;
static int check(DNS& dns, const char* what, const std::string& want) {
    int rc = 0;
    try {
        std::string n = dns.answers().front().dname();
        std::cout << what << ": answer name after insertion: " << n << "\n";
        rc |= n != want;
    } catch (std::exception& e) { std::cout << what << ": exception " << e.what() << "\n"; rc = 1; }
    PDU::serialization_type ser = dns.serialize();
    try {
        DNS again(&ser[0], static_cast<uint32_t>(ser.size()));
        std::string n = again.answers().front().dname();
        rc |= n != want;
    } catch (std::exception& e) { std::cout << what << ": reparsed: exception " << e.what() << "\n"; rc = 1; }
    return rc;
}
int main() {
    int rc = 0;
    {   // 1) short question; the answer's owner name is a pointer to it; add_query() inserts behind the question
        const uint8_t msg[] = {
            0x12,0x34, 0x81,0x80, 0,1, 0,1, 0,0, 0,0,
            1,'a',0, 0,1, 0,1,
            0xc0,0x0c, 0,1, 0,1, 0,0,0,60, 0,4, 1,2,3,4 };
        DNS dns(msg, sizeof(msg));
        dns.add_query(DNS::query("www.example.com", DNS::A, DNS::IN));
        rc |= check(dns, "add_query", "a");
    }
    {   // 2) an authority record whose owner is a pointer to the CNAME target at the very end of the answer section;
        //    add_answer() inserts right behind that target
        const uint8_t msg[] = {
            0x12,0x34, 0x81,0x80, 0,1, 0,1, 0,1, 0,0,
            3,'w','w','w',1,'x',0, 0,1, 0,1,                                   // question www.x   (msg 12..22)
            0xc0,0x0c, 0,5, 0,1, 0,0,0,60, 0,5, 1,'y',1,'z',0,                 // answer  www.x CNAME y.z  (rdata at msg 35..39)
            0xc0,0x23, 0,1, 0,1, 0,0,0,60, 0,4, 9,9,9,9 };                     // authority: owner = pointer to y.z (msg 35)
        DNS dns(msg, sizeof(msg));
        std::string before = dns.authority().front().dname();
        dns.add_answer(DNS::resource("q.r", "1.1.1.1", DNS::A, DNS::IN, 5));
        try {
            std::string after = dns.authority().front().dname();
            std::cout << "add_answer: authority owner before '" << before << "' after '" << after << "'\n";
            rc |= before != after;
        } catch (std::exception& e) { std::cout << "add_answer: exception " << e.what() << "\n"; rc = 1; }
    }
    std::cout << (rc ? "FAIL" : "OK") << "\n";
    return rc;
}
