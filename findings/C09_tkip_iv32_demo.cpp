// reference ciphers written by a seeding sub-agent (checked against FIPS-197, the 802.11i TKIP and Michael vectors)
#include <cstdio>
// Demo for C09/m9. See meta.json.
// Independent reference implementation of the 802.11 link-layer ciphers used by the demo:
// RC4, CRC-32 (ICV), TKIP key mixing + Michael, AES-128 + CCMP. Nothing here comes from libtins.
#include <stdint.h>
#include <string.h>
#include <vector>
#include <string>
#include <stdio.h>

namespace ref {
typedef std::vector<uint8_t> bytes;

// ---- AES S-box generated from GF(2^8) arithmetic -------------------------------------------
static uint8_t gmul(uint8_t a, uint8_t b) {
    uint8_t p = 0;
    for (int i = 0; i < 8; ++i) {
        if (b & 1) p ^= a;
        bool hi = (a & 0x80) != 0;
        a <<= 1;
        if (hi) a ^= 0x1b;
        b >>= 1;
    }
    return p;
}
static uint8_t aes_sbox[256];
static void init_sbox() {
    static bool done = false;
    if (done) return;
    for (int x = 0; x < 256; ++x) {
        uint8_t inv = 0;
        if (x) for (int y = 1; y < 256; ++y) if (gmul((uint8_t)x, (uint8_t)y) == 1) { inv = (uint8_t)y; break; }
        uint8_t s = inv, r = inv;
        for (int i = 0; i < 4; ++i) { r = (uint8_t)((r << 1) | (r >> 7)); s ^= r; }
        aes_sbox[x] = s ^ 0x63;
    }
    done = true;
}

// ---- AES-128 block encryption ---------------------------------------------------------------
struct AES128 {
    uint8_t rk[176];
    explicit AES128(const uint8_t* key) {
        init_sbox();
        memcpy(rk, key, 16);
        uint8_t rcon = 1;
        for (int i = 16; i < 176; i += 4) {
            uint8_t t[4] = { rk[i - 4], rk[i - 3], rk[i - 2], rk[i - 1] };
            if (i % 16 == 0) {
                uint8_t t0 = t[0];
                t[0] = aes_sbox[t[1]] ^ rcon; t[1] = aes_sbox[t[2]]; t[2] = aes_sbox[t[3]]; t[3] = aes_sbox[t0];
                rcon = gmul(rcon, 2);
            }
            for (int k = 0; k < 4; ++k) rk[i + k] = rk[i - 16 + k] ^ t[k];
        }
    }
    void encrypt(const uint8_t* in, uint8_t* out) const {
        uint8_t s[16];
        for (int i = 0; i < 16; ++i) s[i] = in[i] ^ rk[i];
        for (int round = 1; round <= 10; ++round) {
            uint8_t t[16];
            for (int c = 0; c < 4; ++c) for (int r = 0; r < 4; ++r)   // SubBytes + ShiftRows
                t[4 * c + r] = aes_sbox[s[4 * ((c + r) % 4) + r]];
            if (round != 10) {
                for (int c = 0; c < 4; ++c) {
                    uint8_t* a = t + 4 * c;
                    uint8_t b0 = gmul(a[0],2)^gmul(a[1],3)^a[2]^a[3], b1 = a[0]^gmul(a[1],2)^gmul(a[2],3)^a[3],
                            b2 = a[0]^a[1]^gmul(a[2],2)^gmul(a[3],3), b3 = gmul(a[0],3)^a[1]^a[2]^gmul(a[3],2);
                    a[0] = b0; a[1] = b1; a[2] = b2; a[3] = b3;
                }
            }
            for (int i = 0; i < 16; ++i) s[i] = t[i] ^ rk[16 * round + i];
        }
        memcpy(out, s, 16);
    }
};

// ---- RC4, CRC-32 -------------------------------------------------------------------------------
static void rc4_crypt(const uint8_t* key, size_t klen, uint8_t* data, size_t len) {
    uint8_t S[256];
    for (int i = 0; i < 256; ++i) S[i] = (uint8_t)i;
    uint8_t j = 0;
    for (int i = 0; i < 256; ++i) { j = (uint8_t)(j + S[i] + key[i % klen]); uint8_t t = S[i]; S[i] = S[j]; S[j] = t; }
    uint8_t a = 0, b = 0;
    for (size_t n = 0; n < len; ++n) {
        a = (uint8_t)(a + 1); b = (uint8_t)(b + S[a]);
        uint8_t t = S[a]; S[a] = S[b]; S[b] = t;
        data[n] ^= S[(uint8_t)(S[a] + S[b])];
    }
}
static uint32_t crc32_ieee(const uint8_t* p, size_t n) {
    uint32_t c = 0xffffffffu;
    for (size_t i = 0; i < n; ++i) {
        c ^= p[i];
        for (int k = 0; k < 8; ++k) c = (c >> 1) ^ (0xedb88320u & (0u - (c & 1)));
    }
    return ~c;
}

// ---- 802.11 header description -----------------------------------------------------------------
struct Hdr {
    bool to_ds, from_ds, qos;
    uint8_t a1[6], a2[6], a3[6], a4[6];
    uint16_t seq;     // sequence number (12 bits)
    uint8_t frag;     // fragment number
    uint16_t qc;      // QoS control
    Hdr() : to_ds(false), from_ds(false), qos(false), seq(0), frag(0), qc(0) {
        memset(a1, 0, 6); memset(a2, 0, 6); memset(a3, 0, 6); memset(a4, 0, 6);
    }
    // DA / SA as seen by the MSDU
    const uint8_t* da() const { return to_ds ? a3 : a1; }
    const uint8_t* sa() const { return (from_ds && to_ds) ? a4 : (from_ds ? a3 : a2); }
    bytes mac_header(bool protect) const {
        bytes h;
        h.push_back((uint8_t)(0x08 | (qos ? 0x80 : 0)));
        h.push_back((uint8_t)((to_ds ? 1 : 0) | (from_ds ? 2 : 0) | (protect ? 0x40 : 0)));
        h.push_back(0x2c); h.push_back(0x00);
        h.insert(h.end(), a1, a1 + 6); h.insert(h.end(), a2, a2 + 6); h.insert(h.end(), a3, a3 + 6);
        uint16_t sc = (uint16_t)((seq << 4) | (frag & 0xf));
        h.push_back((uint8_t)(sc & 0xff)); h.push_back((uint8_t)(sc >> 8));
        if (to_ds && from_ds) h.insert(h.end(), a4, a4 + 6);
        if (qos) { h.push_back((uint8_t)(qc & 0xff)); h.push_back((uint8_t)(qc >> 8)); }
        return h;
    }
};
static void mac(uint8_t* out, const char* txt) {
    unsigned v[6];
    sscanf(txt, "%x:%x:%x:%x:%x:%x", &v[0], &v[1], &v[2], &v[3], &v[4], &v[5]);
    for (int i = 0; i < 6; ++i) out[i] = (uint8_t)v[i];
}

// ---- TKIP --------------------------------------------------------------------------------------
static uint16_t tkip_S(uint16_t v) {
    init_sbox();
    uint8_t lo = aes_sbox[v & 0xff], hi = aes_sbox[v >> 8];
    uint16_t t0 = (uint16_t)((gmul(lo, 2) << 8) | gmul(lo, 3));
    uint16_t t1 = (uint16_t)((gmul(hi, 3) << 8) | gmul(hi, 2));
    return t0 ^ t1;
}
static uint16_t mk16(uint8_t hi, uint8_t lo) { return (uint16_t)((hi << 8) | lo); }
static uint16_t rotr1(uint16_t v) { return (uint16_t)((v >> 1) | (v << 15)); }
static void tkip_phase1(uint16_t* p1k, const uint8_t* tk, const uint8_t* ta, uint32_t iv32) {
    p1k[0] = (uint16_t)(iv32 & 0xffff); p1k[1] = (uint16_t)(iv32 >> 16);
    p1k[2] = mk16(ta[1], ta[0]); p1k[3] = mk16(ta[3], ta[2]); p1k[4] = mk16(ta[5], ta[4]);
    for (int i = 0; i < 8; ++i) {
        int j = 2 * (i & 1);
        p1k[0] += tkip_S(p1k[4] ^ mk16(tk[1 + j], tk[0 + j]));
        p1k[1] += tkip_S(p1k[0] ^ mk16(tk[5 + j], tk[4 + j]));
        p1k[2] += tkip_S(p1k[1] ^ mk16(tk[9 + j], tk[8 + j]));
        p1k[3] += tkip_S(p1k[2] ^ mk16(tk[13 + j], tk[12 + j]));
        p1k[4] += tkip_S(p1k[3] ^ mk16(tk[1 + j], tk[0 + j]));
        p1k[4] += (uint16_t)i;
    }
}
static void tkip_phase2(uint8_t* rc4key, const uint8_t* tk, const uint16_t* p1k, uint16_t iv16) {
    uint16_t ppk[6];
    for (int i = 0; i < 5; ++i) ppk[i] = p1k[i];
    ppk[5] = (uint16_t)(p1k[4] + iv16);
    ppk[0] += tkip_S(ppk[5] ^ mk16(tk[1], tk[0]));
    ppk[1] += tkip_S(ppk[0] ^ mk16(tk[3], tk[2]));
    ppk[2] += tkip_S(ppk[1] ^ mk16(tk[5], tk[4]));
    ppk[3] += tkip_S(ppk[2] ^ mk16(tk[7], tk[6]));
    ppk[4] += tkip_S(ppk[3] ^ mk16(tk[9], tk[8]));
    ppk[5] += tkip_S(ppk[4] ^ mk16(tk[11], tk[10]));
    ppk[0] += rotr1(ppk[5] ^ mk16(tk[13], tk[12]));
    ppk[1] += rotr1(ppk[0] ^ mk16(tk[15], tk[14]));
    ppk[2] += rotr1(ppk[1]); ppk[3] += rotr1(ppk[2]); ppk[4] += rotr1(ppk[3]); ppk[5] += rotr1(ppk[4]);
    rc4key[0] = (uint8_t)(iv16 >> 8);
    rc4key[1] = (uint8_t)(((iv16 >> 8) | 0x20) & 0x7f);
    rc4key[2] = (uint8_t)(iv16 & 0xff);
    rc4key[3] = (uint8_t)((ppk[5] ^ mk16(tk[1], tk[0])) >> 1);
    for (int i = 0; i < 6; ++i) { rc4key[4 + 2 * i] = (uint8_t)(ppk[i] & 0xff); rc4key[5 + 2 * i] = (uint8_t)(ppk[i] >> 8); }
}
static uint32_t rol32(uint32_t v, int n) { return (v << n) | (v >> (32 - n)); }
static uint32_t le32(const uint8_t* p) { return p[0] | (p[1] << 8) | (p[2] << 16) | ((uint32_t)p[3] << 24); }
static void michael(const uint8_t* key, const bytes& msg_in, uint8_t* out) {
    bytes m(msg_in);
    m.push_back(0x5a);
    for (int i = 0; i < 4; ++i) m.push_back(0);
    while (m.size() % 4) m.push_back(0);
    uint32_t l = le32(key), r = le32(key + 4);
    for (size_t i = 0; i < m.size(); i += 4) {
        l ^= le32(&m[i]);
        r ^= rol32(l, 17); l += r;
        r ^= ((l & 0xff00ff00u) >> 8) | ((l & 0x00ff00ffu) << 8); l += r;
        r ^= rol32(l, 3); l += r;
        r ^= rol32(l, 30) ; l += r;   // ror 2
    }
    for (int i = 0; i < 4; ++i) { out[i] = (uint8_t)(l >> (8 * i)); out[4 + i] = (uint8_t)(r >> (8 * i)); }
}
// Returns the complete protected MPDU (MAC header + TKIP header + ciphertext).
// ptk: 64+ bytes (KCK 16, KEK 16, TK 16, MIC keys 8+8).  tsc: 48-bit counter.
static bytes tkip_encrypt(const Hdr& h, const uint8_t* ptk, uint64_t tsc, const bytes& msdu, bool tx_is_ap) {
    const uint8_t* tk = ptk + 32;
    const uint8_t* mic_key = ptk + 48 + (tx_is_ap ? 0 : 8);
    uint16_t iv16 = (uint16_t)(tsc & 0xffff);
    uint32_t iv32 = (uint32_t)(tsc >> 16);
    uint16_t p1k[5]; uint8_t rc4key[16];
    tkip_phase1(p1k, tk, h.a2, iv32);
    tkip_phase2(rc4key, tk, p1k, iv16);
    bytes mic_in(h.da(), h.da() + 6);
    mic_in.insert(mic_in.end(), h.sa(), h.sa() + 6);
    mic_in.push_back(h.qos ? (uint8_t)(h.qc & 0x0f) : 0);
    mic_in.push_back(0); mic_in.push_back(0); mic_in.push_back(0);
    mic_in.insert(mic_in.end(), msdu.begin(), msdu.end());
    uint8_t mic[8];
    michael(mic_key, mic_in, mic);
    bytes body(msdu);
    body.insert(body.end(), mic, mic + 8);
    uint32_t icv = crc32_ieee(&body[0], body.size());
    for (int i = 0; i < 4; ++i) body.push_back((uint8_t)(icv >> (8 * i)));
    rc4_crypt(rc4key, 16, &body[0], body.size());
    bytes out = h.mac_header(true);
    out.push_back(rc4key[0]); out.push_back(rc4key[1]); out.push_back(rc4key[2]);
    out.push_back(0x20);  // ExtIV, key id 0
    for (int i = 0; i < 4; ++i) out.push_back((uint8_t)(iv32 >> (8 * i)));
    out.insert(out.end(), body.begin(), body.end());
    return out;
}

// ---- CCMP --------------------------------------------------------------------------------------
static bytes ccmp_encrypt(const Hdr& h, const uint8_t* ptk, uint64_t pn, const bytes& msdu) {
    AES128 aes(ptk + 32);
    bytes hdr = h.mac_header(true);
    // AAD
    bytes aad;
    aad.push_back((uint8_t)(hdr[0] & 0x8f));
    aad.push_back((uint8_t)((hdr[1] & 0xc7) | 0x40));
    aad.insert(aad.end(), hdr.begin() + 4, hdr.begin() + 22);
    aad.push_back((uint8_t)(hdr[22] & 0x0f)); aad.push_back(0);
    size_t pos = 24;
    if (h.to_ds && h.from_ds) { aad.insert(aad.end(), hdr.begin() + 24, hdr.begin() + 30); pos = 30; }
    if (h.qos) { aad.push_back((uint8_t)(hdr[pos] & 0x0f)); aad.push_back(0); }
    // nonce
    uint8_t nonce[13];
    nonce[0] = h.qos ? (uint8_t)(h.qc & 0x0f) : 0;
    memcpy(nonce + 1, h.a2, 6);
    for (int i = 0; i < 6; ++i) nonce[7 + i] = (uint8_t)(pn >> (8 * (5 - i)));
    // CBC-MAC
    uint8_t x[16], b[16];
    b[0] = 0x59; memcpy(b + 1, nonce, 13); b[14] = (uint8_t)(msdu.size() >> 8); b[15] = (uint8_t)(msdu.size() & 0xff);
    aes.encrypt(b, x);
    bytes am;
    am.push_back((uint8_t)(aad.size() >> 8)); am.push_back((uint8_t)(aad.size() & 0xff));
    am.insert(am.end(), aad.begin(), aad.end());
    while (am.size() % 16) am.push_back(0);
    bytes pm(msdu);
    while (pm.size() % 16) pm.push_back(0);
    am.insert(am.end(), pm.begin(), pm.end());
    for (size_t i = 0; i < am.size(); i += 16) {
        for (int k = 0; k < 16; ++k) x[k] ^= am[i + k];
        aes.encrypt(x, x);
    }
    // CTR
    uint8_t a[16], s[16];
    a[0] = 0x01; memcpy(a + 1, nonce, 13);
    bytes ct(msdu);
    for (size_t i = 0; i < ct.size(); ++i) {
        if (i % 16 == 0) {
            size_t ctr = i / 16 + 1;
            a[14] = (uint8_t)(ctr >> 8); a[15] = (uint8_t)(ctr & 0xff);
            aes.encrypt(a, s);
        }
        ct[i] ^= s[i % 16];
    }
    a[14] = a[15] = 0;
    aes.encrypt(a, s);
    bytes out(hdr);
    out.push_back((uint8_t)(pn & 0xff)); out.push_back((uint8_t)((pn >> 8) & 0xff));
    out.push_back(0); out.push_back(0x20);
    for (int i = 2; i < 6; ++i) out.push_back((uint8_t)((pn >> (8 * i)) & 0xff));
    out.insert(out.end(), ct.begin(), ct.end());
    for (int i = 0; i < 8; ++i) out.push_back((uint8_t)(x[i] ^ s[i]));
    return out;
}

// LLC/SNAP + a payload of an ethertype libtins does not dissect (kept as raw bytes)
static bytes make_msdu(uint16_t ethertype, size_t n, uint8_t seed) {
    bytes m;
    const uint8_t llc[6] = { 0xaa, 0xaa, 0x03, 0x00, 0x00, 0x00 };
    m.insert(m.end(), llc, llc + 6);
    m.push_back((uint8_t)(ethertype >> 8)); m.push_back((uint8_t)(ethertype & 0xff));
    for (size_t i = 0; i < n; ++i) m.push_back((uint8_t)(seed + 7 * i + (i >> 3)));
    return m;
}
} // namespace ref
#include <tins/tins.h>
#include <iostream>
#include <memory>
using namespace Tins;

static int failures = 0;

static bool check(const char* what, Crypto::WPA2Decrypter& dec, const ref::bytes& frame, const ref::bytes& msdu) {
    std::unique_ptr<PDU> pdu(Dot11::from_bytes(&frame[0], (uint32_t)frame.size()));
    bool ok = false;
    try {
        ok = dec.decrypt(*pdu);
    } catch (std::exception& e) {
        std::cout << "  exception: " << e.what() << "\n";
    }
    bool same = false, unprot = false;
    if (ok) {
        Dot11Data* d = pdu->find_pdu<Dot11Data>();
        unprot = d && !d->wep();
        SNAP* s = pdu->find_pdu<SNAP>();
        if (s) {
            PDU::serialization_type ser = s->serialize();
            same = (ser == msdu);
        }
    }
    bool pass = ok && same && unprot;
    std::cout << (pass ? "ok   " : "FAIL ") << what << "  decrypted=" << ok << " plaintext_equal=" << same
              << " unprotected=" << unprot << "\n";
    if (!pass) ++failures;
    return pass;
}

int main() {
    // C09: "for any ... IV/packet number ... a frame encrypted by an independent implementation of ... TKIP ... is decrypted
    // by libtins to exactly the original LLC/SNAP payload".  The TKIP sequence counter is 48 bits: IV16 (low 16 bits) and
    // IV32 (high 32 bits, octets 4..7 of the TKIP header, least significant first).  Phase 1 of the key mixing loads
    // Lo16(IV32) and Hi16(IV32).
    std::vector<uint8_t> ptk(80);
    for (size_t i = 0; i < ptk.size(); ++i) ptk[i] = (uint8_t)(0xa5 ^ (i * 29 + 3));
    const char* BSSID = "00:1b:11:d2:1b:eb";
    const char* STA   = "94:0c:6d:8f:93:88";
    const char* HOST  = "00:16:3e:4a:5b:6c";
    Crypto::WPA2Decrypter dec;
    dec.add_decryption_keys(std::make_pair(HWAddress<6>(BSSID), HWAddress<6>(STA)),
                            Crypto::WPA2::SessionKeys(ptk, false /* TKIP */));
    ref::bytes msdu = ref::make_msdu(0x88b5, 61, 0x11);
    const uint64_t tscs[] = { 0x0341ULL, 0xffffULL, 0x00010000ULL, 0x01020341ULL, 0x00ff00000007ULL, 0xa1b2c3d4e5f6ULL };
    for (size_t k = 0; k < sizeof(tscs) / sizeof(tscs[0]); ++k) {
        ref::Hdr h; h.to_ds = true; ref::mac(h.a1, BSSID); ref::mac(h.a2, STA); ref::mac(h.a3, HOST); h.seq = 100 + k;
        char what[64];
        snprintf(what, sizeof(what), "TKIP ToDS, TSC = 0x%012llx", (unsigned long long)tscs[k]);
        check(what, dec, ref::tkip_encrypt(h, &ptk[0], tscs[k], msdu, false), msdu);
    }
    std::cout << (failures ? "RESULT: property violated\n" : "RESULT: all frames decrypted to the original payload\n");
    return failures ? 1 : 0;
}
