"""C12 - ownership under copy, move, clone and re-linking (DESIGN.md C12).

 R1 special   special-member typestate for classes that own a raw PDU pointer
              (found structurally: the destructor deletes a pointer member):
              copy-construct never aliases; copy-assign is self-assignment safe,
              releases the old value and re-establishes the member on EVERY path;
              move-construct leaves the source null; move-assign swaps/releases.
 R2 parent    every store of a possibly non-null child into PDU::inner_pdu_ is
              followed on all paths by parent_pdu(this) on it; release clears the
              released child's parent link.
 R3 clone     for every concrete PDU class K, clone() returns `new K(*this)`.
 R4 forward   a PDU subclass that declares a copy/move member forwards the same
              source to its PDU base (expected count 0 + fixture control).
Not decided: deep equality of field values of copies.
"""
from vlib import facts, cfg, cond
from vlib.facts import strip

PID = "C12"
PDU = "Tins::PDU"


def this_field(n, field=None):
    n = strip(n)
    if n["k"] == "MemberExpr" and n.get("isfield") and n.get("c") and strip(n["c"][0])["k"] == "CXXThisExpr":
        if field is None or n["member"] == field:
            return n["member"]
    return None


def param_field(f, n, field=None):
    """`rhs.field` where rhs is the (first) parameter"""
    n = strip(n)
    if n["k"] == "MemberExpr" and n.get("isfield") and n.get("c"):
        b = strip(n["c"][0])
        if b["k"] == "DeclRefExpr" and b.get("parm"):
            if field is None or n["member"] == field:
                return n["member"]
    return None


def is_null(n):
    n0 = strip(n)
    return facts.cval(n) == 0 or n0["k"] in ("CXXNullPtrLiteralExpr", "GNUNullExpr", "ImplicitValueInitExpr") or \
        (n0["k"] == "CXXConstructExpr" and not n0.get("c"))


def owners(db):
    """(record, pointer field) where the destructor deletes the field (non-array delete of a class pointer)"""
    out = []
    for f in db.functions.values():
        if f.get("kind") != "dtor" or not f.get("body"):
            continue
        for n in facts.fn_nodes(f):
            if n["k"] == "CXXDeleteExpr" and not n.get("array"):
                m = this_field(n["c"][0])
                if m:
                    out.append((f["rec"], m, f))
    return out


def fresh_value(db, f, e, field, depth=0):
    """does expression e produce a fresh (uniquely owned) object or null?
    returns (True, why) / (False, why)"""
    e0 = strip(e)
    if is_null(e):
        return True, "null"
    k = e0["k"]
    if k == "CXXNewExpr":
        return True, "new"
    if k == "CXXMemberCallExpr" and e0.get("cname") == "clone":
        return True, "clone()"
    if k == "ConditionalOperator":
        a, wa = fresh_value(db, f, e0["c"][1], field, depth)
        b, wb = fresh_value(db, f, e0["c"][2], field, depth)
        return (a and b), "%s : %s" % (wa, wb)
    if k in ("CStyleCastExpr", "CXXStaticCastExpr"):
        return fresh_value(db, f, e0["c"][0], field, depth)
    if k in ("CallExpr", "CXXMemberCallExpr") and e0.get("callee") and not e0.get("ext") and depth < 3:
        # a library helper every return of which is fresh (`static PDU* clone_or_null(const PDU* p)`)
        h = db.fn(e0["callee"])
        if h is not None and h.get("body") and h is not f:
            rets = [x for x in facts.fn_nodes(h) if x["k"] == "ReturnStmt" and x.get("c")]
            if rets:
                res = [fresh_value(db, h, x["c"][0], field, depth + 1) for x in rets]
                if all(r_[0] for r_ in res):
                    return True, "%s(): %s" % (h["name"], " / ".join(sorted(set(r_[1] for r_ in res))))
                return False, "%s() may return %s" % (h["name"], [r_[1] for r_ in res if not r_[0]][0])
    if k == "DeclRefExpr" and not e0.get("parm") and not e0.get("glob") and e0.get("var"):
        # a local initialised once from a fresh value
        init = None
        for n in facts.fn_nodes(f):
            if n["k"] == "VarDecl" and n.get("var") == e0["var"] and n.get("c"):
                init = n["c"][0]
            if n["k"] == "BinaryOperator" and n["op"] == "=" and strip(n["c"][0]).get("var") == e0["var"]:
                return False, "local %s reassigned" % e0["name"]
        if init is not None:
            return fresh_value(db, f, init, field, depth)
    return False, facts.expr_str(e0)


def run(db, rep, tier):
    rep.rule("R1-special", "special members of pointer-owning classes: no aliasing copy, self-assignment safe, old value released, "
                           "member re-established on every path, moved-from source left null", 8)
    rep.rule("R2-parent", "every store of a possibly non-null child into inner_pdu_ is followed on all paths by parent_pdu(this); "
                          "release clears the child's parent", 4)
    rep.rule("R3-clone", "clone() of every concrete PDU class K returns new K(*this)", 50)
    rep.rule("R4-forward", "user-declared copy/move members of PDU subclasses forward the source to the PDU base", 0)
    r1(db, rep)
    r2(db, rep)
    r3(db, rep)
    r4(db, rep)
    rep.rule("R5-overwrite", "outside constructors an owning pointer member is overwritten only after its old target was deleted or handed over", 3)
    rep.rule("R6-borrowed-delete", "a layer obtained through the non-owning inner_pdu() getter is never deleted while its parent still owns it "
                                   "(expected count 0 on the library; positive and negative controls on the fixture)", 0)
    r5(db, rep)
    r6(db, rep)
    rep.rule("R7-owning-container", "a member container whose elements the destructor deletes is overwritten or cleared (outside constructors and "
                                    "the destructor) only after its elements were freed on that path", 2)
    r7(db, rep)
    rep.rule("R8-tagged-storage", "PDUOption keeps `real_size_ > small_buffer_size <=> payload_ holds an owned heap block` through every special "
                                  "member: typestate over (size class, heap ownership) on every path", 12)
    r8(db, rep)
    rep.rule("R9-alias-safe", "PDU::inner_pdu(const PDU&) takes its copy of the argument before the current child chain is released (the argument "
                              "may be one of the receiver's own descendants); PDU copies start without a parent link", 3)
    r9(db, rep)
    rep.rule("R10-self-and-release", "assignment operators do their work on the `this != &rhs` side of a self test (never only for self-assignment); "
                                     "release_*() hands back the owning member and leaves it null", 5)
    r10(db, rep)
    controls(db, rep)
    rep.explanation = ("Decides the ownership/linking clauses of C12 that are visible in the shape of the special members and of "
                       "the child-link mutators: every pointer-owning class (found from its destructor) is checked member by "
                       "member; every store into inner_pdu_ is checked for the parent back-link; clone() is checked for all "
                       "concrete classes. Deep equality of copied field values is not decided.")


# ---------------------------------------------------------------------------
def r1(db, rep):
    seen = set()
    own = owners(db)
    if not any(r == PDU for r, _, _ in own) or not any(r == "Tins::Packet" for r, _, _ in own):
        rep.analysis_broken("owner classes PDU / Packet not found from their destructors (found %s)" % [(r, m) for r, m, _ in own])
    for rec, field, dtor in own:
        if (rec, field) in seen:
            continue
        seen.add((rec, field))
        short = rec.split("::")[-1]
        rep.ok("R1-special", "%s::%s:dtor" % (short, field), facts.loc(dtor), "destructor deletes the member")
        r = db.records[rec]
        members = dict((m.get("special"), m) for m in r["methods"] if m.get("special"))
        for kind in ("copy_ctor", "copy_assign", "move_ctor", "move_assign"):
            m = members.get(kind)
            key = "%s::%s:%s" % (short, field, kind)
            if m is None:
                continue
            if m.get("deleted"):
                rep.ok("R1-special", key, "%s:%d" % (r["file"], m["l"]), "deleted")
                continue
            f = db.fn(m["id"])
            if m.get("implicit") or (f is not None and f.get("implicit")) or m.get("defaulted"):
                if kind in ("copy_ctor", "copy_assign"):
                    rep.violation("R1-special", key, "%s:%d" % (r["file"], r["line"]),
                                  "class deletes `%s` in its destructor but its %s is compiler-generated: copies alias the "
                                  "pointer and it is deleted twice" % (field, kind))
                else:
                    rep.ok("R1-special", key, "%s:%d" % (r["file"], r["line"]), "not declared (copy is used instead)")
                continue
            if f is None:
                # declared but never defined in the analysed TUs (e.g. not instantiated)
                rep.undecided("R1-special", key, "%s:%d" % (r["file"], m["l"]), "declared but no definition in the database")
                continue
            check_special(db, rep, rec, field, kind, f, key)


def stores_to(f, field):
    """[(node, value expr or None, how)] for every write of this->field"""
    out = []
    for i in f.get("inits", []):
        if i.get("member") == field:
            out.append((i["e"], i["e"], "init"))
    for n in facts.fn_nodes(f):
        if n["k"] == "BinaryOperator" and n["op"] == "=" and this_field(n["c"][0], field):
            out.append((n, n["c"][1], "assign"))
        elif n["k"] == "CallExpr" and n.get("cname") == "swap" and len(n["c"]) == 3:
            a, b = n["c"][1], n["c"][2]
            if this_field(a, field):
                out.append((n, b, "swap"))
            elif this_field(b, field):
                out.append((n, a, "swap"))
    return out


def may_store(db, f, field, depth=0):
    if stores_to(f, field):
        return True
    if depth > 3:
        return False
    return bool(helper_stores(db, f, field, depth + 1))


def must_store(db, f, field, depth=0):
    """on every normal path through f the field is (re)assigned, directly or
    through a helper that itself must-stores"""
    g = cfg.FnCFG(f)
    pos = [g.pos(n) for n, v, how in stores_to(f, field) if how != "init"]
    if any(how == "init" for _, _, how in stores_to(f, field)):
        return True
    if depth <= 3:
        for n, h in helper_stores(db, f, field, depth + 1):
            if must_store(db, h, field, depth + 1):
                pos.append(g.pos(n))
    pos = [p for p in pos if p]
    if not pos:
        return False
    return g.reaches_exit_avoiding((g.entry, -1), pos) is None


def deletes_field(db, f, field, depth=0):
    for x in facts.fn_nodes(f):
        if x["k"] == "CXXDeleteExpr" and this_field(x["c"][0], field):
            return True
    if depth <= 3:
        for n, h in helper_stores(db, f, field, depth + 1):
            if deletes_field(db, h, field, depth + 1):
                return True
    return False


def helper_stores(db, f, field, depth=0):
    """calls inside f to methods of the same object that (transitively) store the field"""
    out = []
    for n in facts.fn_nodes(f):
        if n["k"] == "CXXMemberCallExpr":
            r = cfg.receiver(n)
            if r is not None and strip(r)["k"] == "CXXThisExpr":
                g = db.fn(n.get("callee"))
                if g and g.get("body") and g is not f and may_store(db, g, field, depth):
                    out.append((n, g))
    return out


def check_special(db, rep, rec, field, kind, f, key):
    site = facts.loc(f)
    st = stores_to(f, field)
    hs = helper_stores(db, f, field)
    g = cfg.FnCFG(f)
    if kind == "copy_ctor":
        # value must be fresh on every store; at least one store or a helper that stores
        bad = []
        for node, val, how in st:
            if how == "swap":
                bad.append("swap with %s" % facts.expr_str(val))
                continue
            ok, why = fresh_value(db, f, val, field)
            if not ok:
                bad.append(why)
        if bad:
            rep.violation("R1-special", key, site, "copy constructor stores a value that is not freshly cloned/new/null: %s "
                          "(the copy aliases the source's object)" % bad[0])
        elif not st and not hs:
            rep.violation("R1-special", key, site, "copy constructor never initialises the owned pointer")
        else:
            rep.ok("R1-special", key, site, "member initialised from %s" %
                   ([fresh_value(db, f, v, field)[1] for _, v, _ in st] + ["helper %s" % h["name"] for _, h in hs]))
        return
    if kind == "move_ctor":
        # the source's pointer must be null afterwards: assigned null, or swapped with our null-initialised member
        # (in the constructor itself or in a member helper that is handed the source)
        src_nulled = False
        for fn_, n in with_source_helpers(db, f):
            if n["k"] == "BinaryOperator" and n["op"] == "=" and param_field(f, n["c"][0], field) and is_null(n["c"][1]):
                src_nulled = True
            if n["k"] == "CallExpr" and n.get("cname") == "swap" and len(n["c"]) == 3:
                a, b = n["c"][1], n["c"][2]
                if (this_field(a, field) and param_field(f, b, field)) or (this_field(b, field) and param_field(f, a, field)):
                    init = [i for i in f.get("inits", []) if i.get("member") == field]
                    if init and is_null(init[0]["e"]):
                        src_nulled = True
        # ... or taken out of the source through the class's own release function, which clears the member on every path
        for _, v, _how in st:
            for x in facts.walk(v):
                if x["k"] == "CXXMemberCallExpr" and x.get("callee"):
                    r_ = cfg.receiver(x)
                    h_ = db.fn(x["callee"])
                    if r_ is not None and facts.strip_all(r_)["k"] == "DeclRefExpr" and facts.strip_all(r_).get("parm") and \
                            h_ is not None and h_.get("body") and h_.get("rec") == f.get("rec") and clears_on_every_path(h_, field):
                        src_nulled = True
        takes = any(param_field(f, v, field) or any(param_field(f, x, field) for x in facts.walk(v) if x["k"] == "MemberExpr")
                    or any(x["k"] == "CXXMemberCallExpr" for x in facts.walk(v)) for _, v, _ in st)
        if not src_nulled:
            rep.violation("R1-special", key, site, "move constructor takes the source's pointer but does not leave the source "
                          "null: both objects delete it")
        else:
            rep.ok("R1-special", key, site, "source left null after the pointer is taken")
        return
    if kind == "copy_assign":
        problems = []
        # (a) self-assignment: a delete of the old value must be dominated by `this != &rhs`, or happen after the new
        #     value has been computed
        dels = [n for n in facts.fn_nodes(f) if n["k"] == "CXXDeleteExpr" and this_field(n["c"][0], field)]
        for d in dels:
            guards = g.guards_at(g.pos(d))
            guarded = any(is_self_test(c) and pol == (op_of(c) == "!=") for c, pol, _ in guards)
            if guarded:
                continue
            # clone evaluated before the delete on all paths?
            clones = [n for n in facts.fn_nodes(f) if n["k"] == "CXXMemberCallExpr" and n.get("cname") == "clone"]
            if clones and not any(g.reachable(g.pos(d), g.pos(c)) for c in clones):
                continue   # nothing is cloned after the delete: the new value is computed first
            problems.append("old value deleted at %s without a `this != &rhs` guard and before the new value is cloned: "
                            "self-assignment clones a deleted object" % facts.loc(f, d))
        # (b) member re-established on every path to a normal exit when this != rhs
        est = [g.pos(n) for n, v, how in st if how != "init"] + [g.pos(n) for n, h in hs]
        est = [p for p in est if p]
        if not est:
            problems.append("the owned pointer is never re-assigned")
        else:
            # through helpers: does the helper store on all of ITS paths?
            for n, h in hs:
                if not must_store(db, h, field):
                    problems.append("helper %s() leaves the owned pointer untouched on some path (e.g. when the source has "
                                    "no object): the target keeps its old chain, so the copy is not equal to its source"
                                    % h["name"])
            skip = set()
            for b in g.blocks.values():
                c = g.idx.get(b.get("cond")) if b.get("cond") is not None else None
                if c is not None and is_self_test(c) and len(b["s"]) == 2:
                    # the edge taken when this == &rhs needs no store
                    skip.add((b["id"], 1 if op_of(c) == "!=" else 0))
            w = g.reaches_exit_avoiding((g.entry, -1), est, skip_edges=skip)
            if w is not None:
                problems.append("some path through the copy assignment does not re-assign the owned pointer")
        # (c) old value released: a delete (own or inside the helper) precedes the store, or the value is swapped out
        if not dels and not deletes_field(db, f, field):
            if not any(how == "swap" for _, _, how in st):
                problems.append("the old object is never released before the pointer is overwritten (leak)")
        # (d) new values must be fresh
        for node, val, how in st:
            if how == "assign":
                ok, why = fresh_value(db, f, val, field)
                if not ok:
                    problems.append("assigns a value that is not freshly cloned/new/null: %s" % why)
        if problems:
            for i, p in enumerate(problems):
                rep.violation("R1-special", key + (":%d" % i if i else ""), site, p)
        else:
            rep.ok("R1-special", key, site, "self-assignment safe, old value released, member re-established on every path")
        return
    if kind == "move_assign":
        problems = []
        helpers = set(id(fn_) for fn_, _ in with_source_helpers(db, f))
        st_all = list(st)
        for fn_ in [x for x in db.functions.values() if id(x) in helpers and x is not f]:
            st_all += stores_to(fn_, field)
        swaps = [(n, v) for n, v, how in st_all if how == "swap"]
        dels = [n for n in facts.fn_nodes(f) if n["k"] == "CXXDeleteExpr" and this_field(n["c"][0], field)]
        src_writes = [n for fn_, n in with_source_helpers(db, f) if n["k"] == "BinaryOperator" and n["op"] == "=" and param_field(f, n["c"][0], field)]
        if not swaps and not (dels or src_writes):
            problems.append("move assignment neither swaps nor releases the old object")
        # the source must not keep our new pointer: swap or explicit write of rhs.field, or a releasing call
        rel = [n for n in facts.fn_nodes(f) if n["k"] == "CXXMemberCallExpr" and "release" in (n.get("cname") or "")]
        if not swaps and not src_writes and not rel:
            problems.append("source keeps its pointer after the move: both objects delete it")
        if problems:
            for i, p in enumerate(problems):
                rep.violation("R1-special", key + (":%d" % i if i else ""), site, p)
        else:
            rep.ok("R1-special", key, site, "old value released or swapped into the source; source does not keep the moved pointer")
        return


def clears_on_every_path(f, field):
    """the member function leaves this->field null (assigned null, or swapped out) on every normal path"""
    g = cfg.FnCFG(f)
    nulls = []
    for node, val, how in stores_to(f, field):
        if (val is not None and is_null(val)) or how == "swap":
            nulls.append(g.pos(node))
    nulls = [q for q in nulls if q]
    return bool(nulls) and g.reaches_exit_avoiding((g.entry, -1), nulls, normal_only=True) is None


def with_source_helpers(db, f):
    """(function, node) for every node of f and of the member helpers f calls on this object with its own (source) parameter
    as an argument: `take_from(rhs)` is part of the move it was extracted from"""
    out = [(f, n) for n in facts.fn_nodes(f)]
    for n in facts.fn_nodes(f):
        if n["k"] == "CXXMemberCallExpr" and n.get("callee"):
            r = cfg.receiver(n)
            if r is None or strip(r)["k"] != "CXXThisExpr":
                continue
            if not any(facts.strip_all(a)["k"] == "DeclRefExpr" and facts.strip_all(a).get("parm") for a in cfg.args(n)):
                continue
            h = db.fn(n["callee"])
            if h is not None and h.get("body") and h is not f and len(h.get("params", ())) == len(cfg.args(n)):
                out += [(h, x) for x in facts.fn_nodes(h)]
    return out


def op_of(c):
    c = strip(c)
    return c.get("op")


def is_self_test(c):
    """`this != &rhs` / `this == &rhs` / `&rhs != this`"""
    c = strip(c)
    if c["k"] != "BinaryOperator" or c.get("op") not in ("!=", "=="):
        return False
    a, b = strip(c["c"][0]), strip(c["c"][1])
    for x, y in ((a, b), (b, a)):
        if x["k"] == "CXXThisExpr":
            y = facts.strip_all(y)
            if y["k"] == "UnaryOperator" and y.get("op") == "&":
                z = strip(y["c"][0])
                if z["k"] == "DeclRefExpr" and z.get("parm"):
                    return True
    return False


# ---------------------------------------------------------------------------
def r2(db, rep):
    field = "inner_pdu_"
    r = db.records.get(PDU)
    if not r or not any(fl["name"] == field for fl in r["fields"]):
        rep.analysis_broken("PDU::inner_pdu_ vanished")
        return
    n_sites = 0
    for f in db.functions.values():
        if f.get("rec") != PDU or not f.get("body") or f.get("implicit"):
            continue
        st = stores_to(f, field)
        if not st:
            continue
        g = cfg.FnCFG(f)
        # positions of `inner_pdu_->parent_pdu(this)`
        links = []
        for n in facts.fn_nodes(f):
            if n["k"] == "CXXMemberCallExpr" and n.get("cname") == "parent_pdu" and len(cfg.args(n)) == 1:
                rcv = cfg.receiver(n)
                if rcv is not None and this_field(rcv, field) and strip(cfg.args(n)[0])["k"] == "CXXThisExpr":
                    links.append(g.pos(n))
        # edges on which inner_pdu_ is known null need no link
        skip = set()
        for b in g.blocks.values():
            c = g.idx.get(b.get("cond")) if b.get("cond") is not None else None
            if c is not None and len(b["s"]) == 2:
                c0 = strip(c)
                if this_field(c0, field):
                    skip.add((b["id"], 1))       # false edge of `if (inner_pdu_)`
                elif c0["k"] == "UnaryOperator" and c0.get("op") == "!" and this_field(c0["c"][0], field):
                    skip.add((b["id"], 0))
        short = f["id"].split("(")[0].split("::")[-1] + ("&&" if "&&" in f["id"] else "") + \
            ("(const&)" if "const Tins::PDU &" in f["id"] else "")
        for node, val, how in st:
            n_sites += 1
            key = "%s:%s@%s" % (short, how, facts.expr_str(val)[:30])
            site = facts.loc(f, node)
            if is_null(val) or null_local(f, val):
                rep.ok("R2-parent", key, site, "stores null: no child to link")
                continue
            if how == "init":
                pos = (g.entry, -1)
            else:
                pos = g.pos(node)
            w = g.reaches_exit_avoiding(pos, [p for p in links if p], skip_edges=skip)
            if w is not None and how == "assign":
                # or the link was made through the very pointer that is stored, BEFORE the store: `if (p) p->parent_pdu(this);
                # inner_pdu_ = p;` - every path to the store passes p->parent_pdu(this) except over edges where p is null
                v0 = facts.strip_all(val)
                if v0["k"] == "DeclRefExpr" and v0.get("var") and not any(
                        x["k"] == "BinaryOperator" and x.get("op") == "=" and strip(x["c"][0]).get("var") == v0["var"] for x in facts.fn_nodes(f)):
                    pre = [g.pos(x) for x in facts.fn_nodes(f) if x["k"] == "CXXMemberCallExpr" and x.get("cname") == "parent_pdu" and
                           len(cfg.args(x)) == 1 and strip(cfg.args(x)[0])["k"] == "CXXThisExpr" and cfg.receiver(x) is not None and
                           facts.strip_all(cfg.receiver(x)).get("var") == v0["var"]]
                    nskip = set()
                    for b_ in g.blocks.values():
                        c_ = g.idx.get(b_.get("cond")) if b_.get("cond") is not None else None
                        if c_ is None or len(b_["s"]) != 2:
                            continue
                        c0_, neg_ = cond.peel(c_)
                        if c0_["k"] == "BinaryOperator" and c0_.get("op") in ("==", "!=") and (is_null(c0_["c"][1]) or facts.cval(c0_["c"][1]) == 0):
                            neg_ = neg_ != (c0_["op"] == "==")
                            c0_ = strip(c0_["c"][0])
                        if c0_["k"] == "DeclRefExpr" and c0_.get("var") == v0["var"]:
                            nskip.add((b_["id"], 0 if neg_ else 1))
                    if pre and g.reached_from_entry_avoiding(pos, [q for q in pre if q], skip_edges=nskip) is None:
                        w = None
            if w is None:
                rep.ok("R2-parent", key, site, "followed on every path by inner_pdu_->parent_pdu(this) (or a null test)")
            else:
                rep.violation("R2-parent", key, site,
                              "a possibly non-null child is stored into inner_pdu_ (%s) but some path to the function's exit "
                              "does not set its parent link to this object: the adopted layer believes it is a root or keeps "
                              "pointing at its previous owner" % facts.expr_str(val)[:60])
    # release_inner_pdu clears the parent of what it returns
    for f in db.fns_named("Tins::PDU::release_inner_pdu"):
        g = cfg.FnCFG(f)
        clears = [n for n in facts.fn_nodes(f) if n["k"] == "CXXMemberCallExpr" and n.get("cname") == "parent_pdu"
                  and cfg.args(n) and is_null(cfg.args(n)[0])]
        rets = [n for n in facts.fn_nodes(f) if n["k"] == "ReturnStmt" and n.get("c") and not is_null(n["c"][0])]
        ok = bool(clears and rets)
        for r_ in rets:
            # every path to a return of a (possibly non-null) child passes the clear of THAT child's parent link, except
            # over edges on which the child is known to be null (`if (c)` false edge, `if (!c)` / `c == 0` true edge)
            rv = facts.strip_all(r_["c"][0])
            mine = [c_ for c_ in clears if cfg.receiver(c_) is not None and strip(cfg.receiver(c_)).get("var") and
                    strip(cfg.receiver(c_)).get("var") == rv.get("var")]
            if rv["k"] != "DeclRefExpr" or not mine:
                ok = False
                break
            skip = set()
            for b_ in g.blocks.values():
                c = g.idx.get(b_.get("cond")) if b_.get("cond") is not None else None
                if c is None or len(b_["s"]) != 2:
                    continue
                c0, neg = cond.peel(c)
                if c0["k"] == "BinaryOperator" and c0.get("op") in ("==", "!=") and (is_null(c0["c"][1]) or facts.cval(c0["c"][1]) == 0):
                    neg = neg != (c0["op"] == "==")
                    c0 = strip(c0["c"][0])
                if c0["k"] == "DeclRefExpr" and c0.get("var") == rv.get("var"):
                    skip.add((b_["id"], 0 if neg else 1))
            if g.reached_from_entry_avoiding(g.pos(r_), [g.pos(c_) for c_ in mine], skip_edges=skip) is not None:
                ok = False
        n_sites += 1
        if ok:
            rep.ok("R2-parent", "release_inner_pdu:clears-parent", facts.loc(f), "released child's parent link set to null on every path where it is non-null")
        else:
            rep.violation("R2-parent", "release_inner_pdu:clears-parent", facts.loc(f),
                          "release_inner_pdu() can return a child whose parent link still designates this object")
    rep.extra["R2_store_sites"] = n_sites


def null_local(f, val):
    v = strip(val)
    if v["k"] != "DeclRefExpr" or v.get("parm") or v.get("glob"):
        return False
    var = v.get("var")
    init_null = False
    for n in facts.fn_nodes(f):
        if n["k"] == "VarDecl" and n.get("var") == var:
            init_null = bool(n.get("c")) and is_null(n["c"][0])
        if n["k"] == "BinaryOperator" and n["op"] == "=" and strip(n["c"][0]).get("var") == var:
            return False
    return init_null


# ---------------------------------------------------------------------------
def r3(db, rep):
    from rules import c13
    base = c13.with_cachers(db)
    for K in c13.concrete_pdus(db):
        ctors = [m for m in db.records[K]["methods"] if m.get("special") in ("ctor", "default_ctor")]
        if ctors and not any(m.get("access") == "public" for m in ctors):
            continue   # cannot be the most-derived class of an object outside the hierarchy
        ms = [m for m in db.find_method(K, "clone") if not m.get("pure")]
        key = "K=%s" % K
        if not ms:
            rep.violation("R3-clone", key, db.records[K]["file"], "no clone() found")
            continue
        f = db.fn(ms[0]["id"])
        if f is None:
            rep.analysis_broken("clone() of %s has no body in the database" % K)
            continue
        if f.get("rec") != K:
            rep.violation("R3-clone", key, facts.loc(f), "concrete class %s does not override clone(): %s::clone() is used and "
                          "produces an object of the base type (sliced copy)" % (K, f.get("rec")))
            continue
        e = c13.ret_expr(f)
        e = strip(e) if e else None
        ok = False
        why = "body is not a single `return new K(*this)`"
        if e is not None and e["k"] == "CXXNewExpr":
            t = facts.tyi(f, e.get("newt"))
            ctor = [x for x in facts.walk(e) if x["k"] == "CXXConstructExpr"]
            if t and t.get("name") == K and ctor:
                c = ctor[0]
                args = c.get("c", [])
                if len(args) == 1:
                    a = facts.strip_all(args[0])
                    if a["k"] == "UnaryOperator" and a.get("op") == "*" and strip(a["c"][0])["k"] == "CXXThisExpr":
                        g = db.fn(c.get("callee"))
                        cal = c.get("callee", "")
                        if "(const %s &)" % K in cal:
                            ok = True
                        else:
                            why = "constructed with %s, not the copy constructor" % cal
                    else:
                        why = "argument is %s, not *this" % facts.expr_str(a)
                else:
                    why = "constructor takes %d arguments" % len(args)
            else:
                why = "allocates %s, not %s" % ((t or {}).get("name"), K)
        if ok:
            rep.ok("R3-clone", key, facts.loc(f), "returns new %s(*this)" % K.split("::")[-1])
        else:
            rep.violation("R3-clone", key, facts.loc(f), "clone() of %s: %s" % (K, why))


# ---------------------------------------------------------------------------
def r4(db, rep, recs=None, rule="R4-forward", base=PDU):
    cnt = 0
    for name in (recs if recs is not None else db.all_derived(base)):
        r = db.records.get(name)
        if not r:
            continue
        for m in r["methods"]:
            if m.get("special") in ("copy_ctor", "move_ctor", "copy_assign", "move_assign") and not m.get("implicit") \
                    and not m.get("defaulted") and not m.get("deleted"):
                cnt += 1
                f = db.fn(m["id"])
                key = "%s:%s" % (name, m["special"])
                if f is None:
                    rep.undecided(rule, key, "%s:%d" % (r["file"], m["l"]), "declared, no body in database")
                    continue
                ok = False
                pvar = f["params"][0]["var"] if f["params"] else None
                if m["special"].endswith("ctor"):
                    for i in f.get("inits", []):
                        if "base" in i and i.get("written"):
                            for x in facts.walk(i["e"]):
                                if x["k"] == "DeclRefExpr" and x.get("var") == pvar:
                                    ok = True
                else:
                    for n in facts.fn_nodes(f):
                        if n["k"] in ("CXXMemberCallExpr", "CXXOperatorCallExpr") and "operator=" in (n.get("callee") or "") and \
                                n.get("crec") != name:
                            for x in facts.walk(n):
                                if x["k"] == "DeclRefExpr" and x.get("var") == pvar:
                                    ok = True
                if ok:
                    rep.ok(rule, key, facts.loc(f), "forwards its source to the base class")
                else:
                    rep.violation(rule, key, facts.loc(f), "user-declared %s of %s does not pass its source to the PDU base: "
                                  "the inner layers are not copied/moved" % (m["special"], name))
    return cnt


def controls(db, rep):
    from vlib import report
    fx = facts.extract_fixture("c12_fixture")
    r2_ = report.Report(PID, "quick")
    n = r4(fx, r2_, recs=[k for k in fx.records if k.startswith("Fx::")], base="Fx::Base")
    got = set(o["key"] for o in r2_.obls if o["verdict"] == "violation")
    okk = set(o["key"] for o in r2_.obls if o["verdict"] == "ok")
    if "Fx::Bad:copy_ctor" not in got or "Fx::Bad:copy_assign" not in got:
        rep.analysis_broken("R4 positive control did not fire on the fixture (got %s)" % sorted(got))
    if "Fx::Good:copy_ctor" not in okk or "Fx::Good:copy_assign" not in okk:
        rep.analysis_broken("R4 negative control was reported on the fixture")
    # R1 controls
    r3_ = report.Report(PID, "quick")
    for rec, field, dtor in owners(fx):
        r = fx.records[rec]
        members = dict((m.get("special"), m) for m in r["methods"] if m.get("special"))
        for kind in ("copy_ctor", "copy_assign", "move_ctor", "move_assign"):
            m = members.get(kind)
            if m is None or m.get("implicit") or m.get("deleted"):
                if m is not None and m.get("implicit") and kind.startswith("copy"):
                    r3_.violation("R1-special", "%s|%s" % (rec, kind), "", "implicit")
                continue
            f = fx.fn(m["id"])
            if f:
                check_special(fx, r3_, rec, field, kind, f, "%s|%s" % (rec, kind))
    got = set(o["key"].split(":")[0] + "::" + o["key"].split(":")[2] for o in r3_.obls if o["verdict"] == "violation")
    okk = set(o["key"] for o in r3_.obls if o["verdict"] == "ok")
    want = ["Fx::OwnerNoGuard|copy_assign", "Fx::OwnerAlias|copy_ctor", "Fx::OwnerKeeps|copy_assign",
            "Fx::OwnerMoveLeaves|move_ctor", "Fx::OwnerImplicit|copy_ctor"]
    for w in want:
        if w not in got:
            rep.analysis_broken("R1 positive control %s did not fire on the fixture (got %s)" % (w, sorted(got)))
    for w in ["Fx::OwnerGood|copy_assign", "Fx::OwnerGood|copy_ctor", "Fx::OwnerGood|move_ctor", "Fx::OwnerGood|move_assign",
              "Fx::OwnerCloneFirst|copy_assign"]:
        if w not in okk:
            rep.analysis_broken("R1 negative control %s was reported on the fixture" % w)
    # R5 / R6 controls
    r5_ = report.Report(PID, "quick")
    r5_.rule("R5-overwrite", "", 0)
    r5_.rule("R6-borrowed-delete", "", 0)
    r5(fx, r5_, minimum=0)
    r6(fx, r5_)
    v = set(o["key"] for o in r5_.obls if o["verdict"] == "violation")
    k = set(o["key"] for o in r5_.obls if o["verdict"] == "ok")
    if not any("drop_leaks" in x for x in v) or not any("drop_good" in x for x in k):
        rep.analysis_broken("R5 controls on the fixture: violations %s, ok %s" % (sorted(v), sorted(k)))
    if not any("borrowed_bad" in x for x in v) or not any("borrowed_ok" in x for x in k):
        rep.analysis_broken("R6 controls on the fixture: violations %s, ok %s" % (sorted(v), sorted(k)))
    rep.extra["fixture_controls"] = len(want) + 5 + 4 + 4


def r5(db, rep, minimum=3):
    """every plain assignment to an owning pointer field in a member function that is not a constructor: on all paths to it
    the old target was deleted, moved out with swap, or the field is known to be null"""
    from vlib import cond
    seen = set()
    n = 0
    for rec, field, dtor in owners(db):
        if (rec, field) in seen:
            continue
        seen.add((rec, field))
        for fid, f in sorted(db.functions.items()):
            if f.get("rec") != rec or not f.get("body") or f.get("kind") in ("ctor", "dtor"):
                continue
            g = None
            for x in facts.fn_nodes(f):
                if x["k"] != "BinaryOperator" or x.get("op") != "=":
                    continue
                if this_field(x["c"][0]) != field:
                    continue
                n += 1
                g = g or cfg.FnCFG(f)
                key = "%s::%s:%s#%d" % (rec.split("::")[-1], f["qual"].split("::")[-1], field, n)
                rel = []
                for y in facts.fn_nodes(f):
                    if y["k"] == "CXXDeleteExpr" and this_field(y["c"][0]) == field:
                        rel.append(g.pos(y))
                    if y["k"] == "CallExpr" and y.get("cname") == "swap" and any(this_field(a) == field for a in y["c"][1:]):
                        rel.append(g.pos(y))
                    if y["k"] == "BinaryOperator" and y.get("op") == "=" and y is not x and saved_from(y["c"][1], field):
                        rel.append(g.pos(y))        # value saved into a local / result first
                    if y["k"] == "VarDecl" and y.get("c") and saved_from(y["c"][0], field):
                        rel.append(g.pos(y))
                released = bool(rel) and g.reached_from_entry_avoiding(g.pos(x), [p for p in rel if p]) is None
                known_null = any(op == "==" and r is not None and ((this_field(l) == field and is_null(r)) or (this_field(r) == field and is_null(l)))
                                 for op, l, r in cond.guards_facts(g, g.pos(x)))
                if released or known_null:
                    rep.ok("R5-overwrite", key, facts.loc(f, x), "old target deleted / moved out on every path before the store")
                else:
                    rep.violation("R5-overwrite", key, facts.loc(f, x),
                                  "%s::%s overwrites the owning pointer %s without deleting (or handing over) what it pointed to: the old "
                                  "layers are leaked" % (rec.split("::")[-1], f["qual"].split("::")[-1], field))
    if n < minimum:
        rep.analysis_broken("only %d assignment(s) to owning pointer members outside constructors found" % n)


def saved_from(e, field):
    """e reads the field's pointer value (possibly through std::move / a cast) so that it lives on elsewhere"""
    if this_field(e) == field:
        return True
    for y in facts.walk(e):
        if y["k"] == "MemberExpr" and y.get("member") == field and y.get("c") and strip(y["c"][0])["k"] == "CXXThisExpr":
            return True
    return False


def r6(db, rep):
    """`T* p = x->inner_pdu()` borrows; `delete p` needs x->release_inner_pdu() (or x->inner_pdu(0)-style hand-over) on every path in between"""
    n = 0
    for fid, f in sorted(db.functions.items()):
        if not f.get("body") or not (f["file"].startswith("src/") or f["file"].startswith("include/tins") or db.config == "fixture"):
            continue
        borrows = {}
        for x in facts.fn_nodes(f):
            if x["k"] == "VarDecl" and x.get("c"):
                i0 = [y for y in facts.walk(x["c"][0]) if y["k"] == "CXXMemberCallExpr" and y.get("cname") == "inner_pdu" and len(y["c"]) == 1]
                rel0 = [y for y in facts.walk(x["c"][0]) if y["k"] == "CXXMemberCallExpr" and y.get("cname") == "release_inner_pdu"]
                if i0 and not rel0 and (facts.tyi(f, x.get("t")) or {}).get("k") == "ptr":
                    me = i0[0]["c"][0]
                    while me["k"] in ("ParenExpr", "ImplicitCastExpr"):
                        me = me["c"][0]
                    owner = facts.expr_str(me["c"][0]) if me.get("c") else "this"
                    borrows[x["var"]] = (x, owner)
        if not borrows:
            continue
        g = cfg.FnCFG(f)
        for x in facts.fn_nodes(f):
            if x["k"] != "CXXDeleteExpr":
                continue
            a = facts.strip_all(x["c"][0])
            if a["k"] != "DeclRefExpr" or a.get("var") not in borrows:
                continue
            decl, owner = borrows[a["var"]]
            n += 1
            key = "%s:delete(%s)" % (f["qual"].replace("Tins::", ""), decl.get("name"))
            rels = [g.pos(y) for y in facts.fn_nodes(f) if y["k"] == "CXXMemberCallExpr" and y.get("cname") == "release_inner_pdu"
                    and owner in facts.expr_str(y["c"][0])]
            rels += [g.pos(y) for y in facts.fn_nodes(f) if y["k"] in ("BinaryOperator",) and y.get("op") == "=" and
                     strip(y["c"][0]).get("var") == a["var"]]
            w = None
            if not rels:
                w = True
            else:
                # a path from the borrow to the delete that avoids every release?
                avoid = [p for p in rels if p]
                w = path_avoiding(g, g.pos(decl), g.pos(x), avoid)
            if w:
                rep.violation("R6-borrowed-delete", key, facts.loc(f, x),
                              "`%s` was obtained with %s->inner_pdu() (the parent keeps owning it) and is deleted on a path without "
                              "%s->release_inner_pdu(): the layer is freed twice" % (decl.get("name"), owner, owner))
            else:
                rep.ok("R6-borrowed-delete", key, facts.loc(f, x), "released from its parent on every path before the delete")
    rep.extra["borrowed_deletes"] = n
    if n == 0:
        # expected count on the pinned tree is zero: the fixture below is the positive control
        pass


def path_avoiding(g, a, b, avoid):
    """is there a CFG path from position a to position b touching no position in avoid?"""
    ab = {}
    for (blk, i) in avoid:
        ab.setdefault(blk, []).append(i)
    sb, si = a
    tb, ti = b
    if sb == tb and si < ti:
        return not any(si < i < ti for i in ab.get(sb, []))
    if any(i > si for i in ab.get(sb, [])):
        return False
    seen = set()
    stack = list(g.succs(sb))
    while stack:
        blk = stack.pop()
        if blk in seen:
            continue
        seen.add(blk)
        if blk == tb:
            if not any(i < ti for i in ab.get(blk, [])):
                return True
            continue
        if blk in ab:
            continue
        stack.extend(g.succs(blk))
    return False


def container_owners(db):
    """(record, container field, freeing helper id or None): the destructor deletes the container's elements, either in a loop
    of its own or by handing the member to a helper whose loop deletes elements reached from its parameter"""
    out = []

    def deleting_loop_over(f, pred):
        for lp in facts.fn_nodes(f):
            if lp["k"] not in ("ForStmt", "WhileStmt", "CXXForRangeStmt", "DoStmt"):
                continue
            if any(x["k"] == "CXXDeleteExpr" for x in facts.walk(lp)) and any(pred(x) for x in facts.walk(lp)):
                return True
        return False
    for f in db.functions.values():
        if f.get("kind") != "dtor" or not f.get("body") or not (f["file"].startswith("src/") or f["file"].startswith("include/tins") or db.config == "fixture"):
            continue
        r = db.records.get(f["rec"]) or {}
        fields = set(x["name"] for x in r.get("fields", []))
        for m in sorted(fields):
            if deleting_loop_over(f, lambda x, m=m: this_field(x, m)):
                out.append((f["rec"], m, None))
        for c in facts.fn_nodes(f):
            if c["k"] in ("CallExpr", "CXXMemberCallExpr") and c.get("callee"):
                g = db.fn(c["callee"])
                if g is None or not g.get("body"):
                    continue
                args = c["c"][1:]
                for i, a in enumerate(args):
                    m = this_field(a)
                    if m and i < len(g["params"]):
                        pv = g["params"][i]["var"]
                        if deleting_loop_over(g, lambda x, pv=pv: x["k"] == "DeclRefExpr" and x.get("var") == pv):
                            out.append((f["rec"], m, g["id"]))
    return sorted(set(out))


def r7(db, rep):
    owners_ = container_owners(db)
    n = 0
    for rec, field, helper in owners_:
        r = db.records.get(rec) or {}
        for m in r.get("methods", []):
            f = db.fn(m["id"])
            if f is None or not f.get("body") or f.get("kind") in ("ctor", "dtor"):
                continue
            stores = []
            for x in facts.fn_nodes(f):
                if x["k"] == "CXXOperatorCallExpr" and x.get("cname") == "operator=" and this_field(x["c"][1], field):
                    stores.append((x, "assigned"))
                if x["k"] == "CXXMemberCallExpr" and x.get("cname") in ("clear", "swap") and x["c"] and x["c"][0].get("c") and \
                        this_field(x["c"][0]["c"][0], field):
                    stores.append((x, x["cname"] + "()"))
            if not stores:
                continue
            g = cfg.FnCFG(f)
            frees = []
            for x in facts.fn_nodes(f):
                if x["k"] in ("CallExpr", "CXXMemberCallExpr") and helper and x.get("callee") == helper and \
                        any(this_field(a, field) for a in x["c"][1:]):
                    frees.append(x)
                if x["k"] in ("ForStmt", "WhileStmt", "CXXForRangeStmt") and any(y["k"] == "CXXDeleteExpr" for y in facts.walk(x)) and \
                        any(this_field(y, field) for y in facts.walk(x)):
                    frees += [y for y in facts.walk(x) if y["k"] == "CXXDeleteExpr"]
            fpos = [q for q in (g.pos(x) for x in frees) if q]
            for x, how in stores:
                n += 1
                key = "%s::%s:%s#%d" % (rec.replace("Tins::", ""), f["name"] if "name" in f else f["qual"].split("::")[-1], field, n)
                if fpos and g.reached_from_entry_avoiding(g.pos(x), fpos) is None:
                    rep.ok("R7-owning-container", key, facts.loc(f, x), "elements freed on every path before the container is %s" % how)
                else:
                    rep.violation("R7-owning-container", key, facts.loc(f, x),
                                  "%s is %s while it may still hold elements that only ~%s deletes: every buffered element of the target is leaked "
                                  "(also on self-assignment)" % (field, how, rec.split("::")[-1]))
    # element slots: `T*& slot = cont[key]; slot = v` must free what the slot held (or know it is null)
    from vlib import cond as _cond
    own_types = set()
    for rec, field, helper in owners_:
        r = db.records.get(rec) or {}
        for fl in r.get("fields", []):
            if fl["name"] == field:
                t = facts.tyi(r, fl.get("t")) if fl.get("t") is not None else None
                if t and t.get("name"):
                    own_types.add(t["name"])
    slots = 0
    for rec in sorted(set(o[0] for o in owners_)):
        for m in (db.records.get(rec) or {}).get("methods", []):
            f = db.fn(m["id"])
            if f is None or not f.get("body") or f.get("kind") == "dtor":
                continue
            for d in facts.fn_nodes(f):
                if d["k"] != "VarDecl" or not d.get("c"):
                    continue
                t = facts.tyi(f, d.get("t")) or {}
                if t.get("k") != "ref" or ((t.get("to") or {}).get("k") != "ptr"):
                    continue
                i0 = facts.strip_all(d["c"][0])
                if not (i0["k"] == "CXXOperatorCallExpr" and i0.get("cname") == "operator[]"):
                    continue
                ct = facts.ty(f, i0["c"][1]) or {}
                while ct.get("k") == "ref" and ct.get("to"):
                    ct = ct["to"]
                if ct.get("name") not in own_types:
                    continue
                g = cfg.FnCFG(f)
                dels = [x for x in facts.fn_nodes(f) if x["k"] == "CXXDeleteExpr" and facts.strip_all(x["c"][0]).get("var") == d["var"]]
                dpos = [q for q in (g.pos(x) for x in dels) if q]
                for x in facts.fn_nodes(f):
                    if x["k"] == "BinaryOperator" and x.get("op") == "=" and facts.strip_all(x["c"][0]).get("var") == d["var"]:
                        slots += 1
                        key = "%s::%s:slot %s#%d" % (rec.replace("Tins::", ""), f["qual"].split("::")[-1], d.get("name"), slots)
                        null_known = False
                        for op, l, r_ in _cond.guards_facts(g, g.pos(x)):
                            if op == "==" and r_ is not None:
                                for a, b in ((l, r_), (r_, l)):
                                    if facts.strip_all(a).get("var") == d["var"] and (facts.cval(b) == 0 or is_null(b)):
                                        null_known = True
                            if op == "false" and facts.strip_all(l).get("var") == d["var"]:
                                null_known = True
                        # paths that come through a branch on which the slot is known to be null need no delete: those edges
                        # are taken out before asking whether the store can be reached without passing a delete
                        null_edges = set()
                        for b_ in g.blocks.values():
                            cn_ = g.idx.get(b_.get("cond")) if b_.get("cond") is not None else None
                            if cn_ is None or len(b_["s"]) != 2:
                                continue
                            for pol_, k_ in ((True, 0), (False, 1)):
                                for op, l, r_ in _cond.facts_of(f, cn_, pol_):
                                    if op == "false" and facts.strip_all(l).get("var") == d["var"]:
                                        null_edges.add((b_["id"], k_))
                                    if op == "==" and r_ is not None:
                                        for a, b in ((l, r_), (r_, l)):
                                            if facts.strip_all(a).get("var") == d["var"] and (facts.cval(b) == 0 or is_null(b)):
                                                null_edges.add((b_["id"], k_))
                        freed = (bool(dpos) or bool(null_edges)) and \
                            g.reached_from_entry_avoiding(g.pos(x), dpos, skip_edges=null_edges) is None
                        if null_known or freed:
                            rep.ok("R7-owning-container", key, facts.loc(f, x), "slot is %s before it is overwritten" % ("null" if null_known else "deleted"))
                        else:
                            rep.violation("R7-owning-container", key, facts.loc(f, x),
                                          "the element slot `%s` of an owning container is overwritten on a path where it may hold a layer that "
                                          "was neither deleted nor known to be null: the replaced layer is leaked" % d.get("name"))
    rep.extra["owning_containers"] = ["%s::%s (freed by %s)" % (a, b, (c or "the destructor's own loop").split("(")[0]) for a, b, c in owners_]
    if not owners_:
        rep.analysis_broken("no owning container found (expected TCPStream's fragment maps)")


# ---------------------------------------------------------------------------
class _Tagged(object):
    """typestate of a small-buffer-optimised option: T in S (inline) / B (heap) / ? (copied, not yet tested), H in own / none"""

    def __init__(self, db, rec, small):
        self.db, self.rec, self.small = db, rec, small
        self.errors = []

    def this_path(self, n):
        n = facts.strip_all(n)
        path = []
        while n["k"] == "MemberExpr" and n.get("isfield") and n.get("c"):
            path.append(n["member"])
            n = facts.strip_all(n["c"][0])
        if n["k"] == "CXXThisExpr":
            return tuple(reversed(path))
        return None

    def tag_test(self, c):
        """'B' if cond is true exactly for heap-class sizes of THIS object, 'S' if true exactly for inline sizes, else None"""
        c0 = strip(c)
        if c0["k"] == "BinaryOperator" and c0.get("op") in (">", "<=", "<", ">="):
            l, r = c0["c"]
            lp, rp = self.this_path(l), self.this_path(r)
            lv, rv = facts.cval(l), facts.cval(r)
            if lp == ("real_size_",) and rv is not None:
                if c0["op"] == ">" and rv == self.small:
                    return "B"
                if c0["op"] == "<=" and rv == self.small:
                    return "S"
                if c0["op"] == ">=" and rv == self.small + 1:
                    return "B"
                if c0["op"] == "<" and rv == self.small + 1:
                    return "S"
            if rp == ("real_size_",) and lv is not None:
                if c0["op"] == "<" and lv == self.small:
                    return "B"
                if c0["op"] == ">=" and lv == self.small:
                    return "S"
        if c0["k"] == "UnaryOperator" and c0.get("op") == "!":
            t = self.tag_test(c0["c"][0])
            return {"B": "S", "S": "B"}.get(t)
        if c0["k"] == "CXXMemberCallExpr" and c0.get("callee") and not cfg.args(c0):
            # a named predicate of this object (`uses_big_buffer()`): it tests what it returns
            from vlib import cond as _cond
            r_ = cfg.receiver(c0)
            pe = _cond.predicate_return(self.db, c0["callee"])
            if pe is not None and pe[0].get("rec") == self.rec and (r_ is None or strip(r_)["k"] == "CXXThisExpr"):
                return self.tag_test(pe[1])
        return None

    def effects(self, f, e, st, depth):
        """apply the effects of expression e (post-order) to state st -> list of states"""
        states = [st]
        for x in self.post(e):
            nxt = []
            for s_ in states:
                nxt += self.effect(f, x, s_, depth)
            states = nxt
        return states

    def post(self, e):
        out = []
        for c in e.get("c", []) or []:
            if c is not None:
                out += self.post(c)
        out.append(e)
        return out

    def err(self, f, x, msg):
        self.errors.append((facts.loc(f, x), msg))

    def effect(self, f, x, st, depth):
        T, H = st
        k = x["k"]
        if k == "CXXDeleteExpr" and self.this_path(x["c"][0]) == ("payload_", "big_buffer_ptr"):
            if H != "own":
                self.err(f, x, "delete[] of payload_.big_buffer_ptr on a path where no heap block is owned (size class %s)" % T)
            return [(T, "none")]
        if k == "BinaryOperator" and x.get("op") == "=":
            lp = self.this_path(x["c"][0])
            if lp == ("real_size_",):
                v = facts.cval(x["c"][1])
                return [(("S" if v <= self.small else "B") if v is not None else "?", H)]
            if lp == ("payload_", "big_buffer_ptr"):
                if H == "own":
                    self.err(f, x, "payload_.big_buffer_ptr overwritten while it owns a heap block (leak)")
                r0 = facts.strip_all(x["c"][1])
                return [(T, "own" if r0["k"] == "CXXNewExpr" else "none")]
        if k == "CallExpr" and x.get("cname") == "swap" and len(x["c"]) == 3:
            if self.this_path(x["c"][1]) == ("payload_", "big_buffer_ptr") or self.this_path(x["c"][2]) == ("payload_", "big_buffer_ptr"):
                if H == "own":
                    self.err(f, x, "heap block swapped away while owned")
                return [(T, "own")]
        if k == "CallExpr" and x.get("cname") in ("memcpy", "memmove", "copy", "copy_n") and len(x["c"]) >= 3:
            dp = self.this_path(x["c"][1] if x["cname"].startswith("mem") else x["c"][-1])
            if dp == ("payload_", "small_buffer"):
                if H == "own":
                    self.err(f, x, "inline bytes are written over the pointer of an owned heap block (leak, and the tag/representation disagree)")
                return [(T, "none")]
            if dp == ("payload_", "big_buffer_ptr") and H != "own":
                self.err(f, x, "write through payload_.big_buffer_ptr on a path where no heap block is owned")
        if k == "CXXMemberCallExpr" and x.get("callee") and depth < 3 and x["c"] and x["c"][0].get("c") and \
                facts.strip_all(x["c"][0]["c"][0])["k"] == "CXXThisExpr":
            g = self.db.fn(x["callee"])
            if g is not None and g.get("body") and g.get("rec") == self.rec and not g["qual"].split("::")[-1] in ("data_ptr", "data_size", "option", "length_field"):
                cont, rets = self.run(g, g["body"], [st], depth + 1)
                return cont + rets
        if k == "CXXOperatorCallExpr" and x.get("cname") == "operator=" and x.get("callee") and depth < 3:
            l0 = facts.strip_all(x["c"][1])
            if l0["k"] == "UnaryOperator" and l0.get("op") == "*" and facts.strip_all(l0["c"][0])["k"] == "CXXThisExpr":
                g = self.db.fn(x["callee"])
                if g is not None and g.get("body"):
                    cont, rets = self.run(g, g["body"], [st], depth + 1)
                    return cont + rets
        return [st]

    def run(self, f, s_, states, depth=0):
        """-> (states that continue after s_, states that returned)"""
        if s_ is None or not states:
            return states, []
        k = s_["k"]
        if k == "CompoundStmt":
            rets = []
            for x in s_.get("c", []):
                states, r = self.run(f, x, states, depth)
                rets += r
            return states, rets
        if k == "IfStmt":
            real = [x for x in s_["c"] if x is not None]
            t = self.tag_test(facts.inline_locals(f, real[0]))
            out, rets = [], []
            for st in states:
                pre = self.effects(f, real[0], st, depth)
                for (T, H) in pre:
                    if t is None:
                        arms = [((T, H), True), ((T, H), False)]
                    elif T in ("S", "B"):
                        arms = [((T, H), T == t)]
                    else:
                        arms = [((t, H), True), (({"B": "S", "S": "B"}[t], H), False)]
                    for st2, taken in arms:
                        if taken:
                            c, r = self.run(f, real[1], [st2], depth)
                        elif len(real) > 2:
                            c, r = self.run(f, real[2], [st2], depth)
                        else:
                            c, r = [st2], []
                        out += c
                        rets += r
            return list(set(out)), list(set(rets))
        if k == "ReturnStmt":
            out = []
            for st in states:
                out += self.effects(f, s_, st, depth) if s_.get("c") else [st]
            return [], out
        if k == "CXXThrowExpr" or (k == "ExprWithCleanups" and s_["c"][0]["k"] == "CXXThrowExpr"):
            return [], []
        if k in ("WhileStmt", "ForStmt", "DoStmt", "CXXForRangeStmt"):
            body = [x for x in s_["c"] if x is not None][-1]
            c, r = self.run(f, body, states, depth)
            return list(set(states + c)), r
        if k in ("DeclStmt", "NullStmt"):
            out = []
            for st in states:
                out += self.effects(f, s_, st, depth)
            return list(set(out)), []
        if k == "CXXTryStmt":
            return self.run(f, s_["c"][0], states, depth)
        out = []
        for st in states:
            out += self.effects(f, s_, st, depth)
        return list(set(out)), []


def r8(db, rep):
    recs = sorted(r for r in db.records if r.startswith("Tins::PDUOption<") and "::(anonymous)" not in r)
    if not recs:
        rep.analysis_broken("no PDUOption instantiation found")
        return
    done = 0
    for rec in recs[:3]:
        r = db.records[rec]
        small = None
        for st_ in r.get("statics", []):
            if st_["name"] == "small_buffer_size" and "v" in st_:
                small = int(st_["v"])
        if small is None:
            rep.analysis_broken("%s: small_buffer_size not found" % rec)
            continue
        for m in r["methods"]:
            f = db.fn(m["id"])
            if f is None or not f.get("body"):
                continue
            kind = f.get("kind")
            sp = f.get("special")
            if not (kind in ("ctor", "dtor") or sp in ("copy_assign", "move_assign")):
                continue
            an = _Tagged(db, rec, small)
            if kind == "ctor":
                entry = [("?", "none")]
            else:
                entry = [("B", "own"), ("S", "none")]
            # constructor initialisers may set real_size_
            for i in f.get("inits", []):
                if i.get("member") == "real_size_" and i.get("written"):
                    v = facts.cval(i["e"])
                    entry = [(("S" if v <= small else "B") if v is not None else "?", "none")]
            cont, rets = an.run(f, f["body"], entry)
            finals = set(cont + rets)
            key = "%s::%s%s" % (rec.replace("Tins::", ""), f["qual"].split("::")[-1], ":" + sp if sp else "(%d)" % len(f["params"]))
            bad = None
            if an.errors:
                bad = "%s [%s]" % (an.errors[0][1], an.errors[0][0])
            for (T, H) in sorted(finals):
                if bad:
                    break
                if kind == "dtor":
                    if H == "own":
                        bad = "the destructor can return with the heap block still owned (size class %s)" % T
                elif T == "?":
                    bad = ("a path ends with real_size_ copied from the source but the storage never chosen by it (heap block %s): if the "
                           "source is in the other size class, data_ptr() reads the bytes of a pointer as payload / frees inline bytes"
                           % ("still owned" if H == "own" else "absent"))
                elif (T == "B") != (H == "own"):
                    bad = "a path ends with size class %s but heap ownership '%s'" % ({"B": "heap", "S": "inline"}[T], H)
            done += 1
            if bad:
                rep.violation("R8-tagged-storage", key, facts.loc(f), bad)
            else:
                rep.ok("R8-tagged-storage", key, facts.loc(f), "all %d end states consistent" % len(finals))
    if done < 12:
        rep.analysis_broken("only %d PDUOption special members analysed" % done)


def r9(db, rep):
    # (a) inner_pdu(const PDU&)
    fs = [f for fid, f in db.functions.items() if fid.startswith("Tins::PDU::inner_pdu(const Tins::PDU &)") and f.get("body")]
    if not fs:
        rep.analysis_broken("PDU::inner_pdu(const PDU&) vanished")
    else:
        f = fs[0]
        g = cfg.FnCFG(f)
        pv = f["params"][0]["var"]
        uses = [x for x in facts.fn_nodes(f) if x["k"] == "DeclRefExpr" and x.get("var") == pv]
        rel = [x for x in facts.fn_nodes(f) if x["k"] == "CXXDeleteExpr" and this_field(x["c"][0], "inner_pdu_")]
        rel += [x for x in facts.fn_nodes(f) if x["k"] == "BinaryOperator" and x.get("op") == "=" and this_field(x["c"][0], "inner_pdu_")]
        rel += [x for x in facts.fn_nodes(f) if x["k"] == "CXXMemberCallExpr" and x.get("cname") in ("inner_pdu", "release_inner_pdu") and
                x["c"][0].get("c") and strip(x["c"][0]["c"][0])["k"] == "CXXThisExpr"]
        key = "PDU::inner_pdu(const PDU&):order"
        bad = None
        for u in uses:
            for r in rel:
                pu, pr = g.pos(u), g.pos(r)
                # a use evaluated as an argument of the releasing call itself comes first
                if any(y is u for y in facts.walk(r)):
                    continue
                if pu and pr and path_avoiding(g, pr, pu, []):
                    bad = (u, r)
        if bad:
            rep.violation("R9-alias-safe", key, facts.loc(f, bad[0]),
                          "the argument is used after the receiver's current child chain was released (line %s): when the argument is a "
                          "descendant of the receiver (strip one encapsulation layer) it has been destroyed by then" % bad[1].get("l"))
        else:
            rep.ok("R9-alias-safe", key, facts.loc(f), "the argument is cloned before anything is released")
    # (b) copies are roots
    r = db.records.get(PDU) or {}
    n = 0
    for m in r.get("methods", []):
        f = db.fn(m["id"])
        if f is None or not f.get("body") or f.get("special") not in ("copy_ctor", "move_ctor", "copy_assign", "move_assign"):
            continue
        n += 1
        key = "PDU::%s:parent" % f["special"]
        pv = f["params"][0]["var"] if f["params"] else None
        bad = None
        for i in f.get("inits", []):
            if i.get("member") == "parent_pdu_" and any(y["k"] == "DeclRefExpr" and y.get("var") == pv for y in facts.walk(i["e"])):
                bad = i["e"]
        for x in facts.fn_nodes(f):
            if x["k"] == "BinaryOperator" and x.get("op") == "=" and this_field(x["c"][0], "parent_pdu_") and \
                    any(y["k"] == "DeclRefExpr" and y.get("var") == pv for y in facts.walk(x["c"][1])):
                bad = x
        if bad is not None:
            rep.violation("R9-alias-safe", key, facts.loc(f),
                          "the copy takes over the source's parent link: a copied or cloned inner layer is not a root - it reads the source "
                          "packet's lower layer (checksums), and the link dangles when the source is destroyed")
        else:
            rep.ok("R9-alias-safe", key, facts.loc(f), "parent_pdu_ is not taken from the source")
    if n < 2:
        rep.analysis_broken("PDU copy / move members not found (%d)" % n)


def r10(db, rep):
    from vlib import cond as _cond
    own = owners(db)
    n = 0
    for rec, field, dtor in own:
        r = db.records.get(rec) or {}
        for m in r.get("methods", []):
            f = db.fn(m["id"])
            if f is None or not f.get("body"):
                continue
            nm = f["qual"].split("::")[-1]
            g = None
            # (a) polarity of the self test
            if f.get("special") in ("copy_assign", "move_assign"):
                g = cfg.FnCFG(f)
                sts = stores_to(f, field)
                if not sts:
                    continue
                n += 1
                key = "%s::%s:%s:self-test" % (rec.replace("Tins::", ""), nm, f["special"])
                bad = None
                for node, val, how in sts:
                    pos = g.pos(node)
                    if pos is None:
                        continue
                    for c, pol, _ in g.guards_at(pos):
                        if is_self_test(c) and pol != (op_of(c) == "!="):
                            bad = node
                if bad is not None:
                    rep.violation("R10-self-and-release", key, facts.loc(f, bad),
                                  "`%s` is stored only when this == &rhs: assigning from another object does nothing, the target keeps its old "
                                  "layers" % field)
                else:
                    rep.ok("R10-self-and-release", key, facts.loc(f), "work is done on the not-self side (or unconditionally)")
            # (b) release functions
            if nm.startswith("release"):
                g = g or cfg.FnCFG(f)
                n += 1
                key = "%s::%s:%s" % (rec.replace("Tins::", ""), nm, field)
                nulls = []
                for node, val, how in stores_to(f, field):
                    if (val is not None and is_null(val)) or how == "swap":
                        nulls.append(g.pos(node))
                nulls = [q for q in nulls if q]
                for x in facts.fn_nodes(f):
                    if x["k"] == "CallExpr" and x.get("cname") == "swap" and any(this_field(a_, field) for a_ in x["c"][1:]):
                        q = g.pos(x)
                        if q:
                            nulls.append(q)
                if nulls and g.reaches_exit_avoiding((g.entry, -1), nulls, normal_only=True) is None:
                    rep.ok("R10-self-and-release", key, facts.loc(f), "%s is cleared on every path" % field)
                else:
                    rep.violation("R10-self-and-release", key, facts.loc(f),
                                  "%s() hands out %s but can return with the member still pointing at it: the object deletes it again later "
                                  "(double free)" % (nm, field))
    if n < 5:
        rep.analysis_broken("only %d assignment operators / release functions of owning classes found" % n)
