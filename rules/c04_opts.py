"""C04.R10 - typed option accessors through the option list, decided with E-BITS.

The bit-provenance interpreter (vlib/bitprov.py) cannot run std::vector, so the
option list itself is modelled by hooks: constructing a PDUOption records
(code, length, payload bits), the adders append it to the object's list,
search_option(code) returns the first stored option with that code, and
data_ptr() / data_size() / option() / length_field() read the record.  Everything
else - the byte-order swaps of the setters, the converter templates of
pdu_option.cpp, range checks - is the library's own code, interpreted as is.

For a setter s(v) and its getter g() of the same name:  g(s(o, v)) == v for every
v and every prior state with no option of that code  (R10-option-inverse)."""
from vlib import facts, bitprov as bp
from vlib.facts import strip

ADDERS = ("add_option", "add_tagged_option", "internal_add_option", "add_tag")
OPT = "Tins::PDUOption<"


class Hooks(object):
    def __init__(self, m):
        self.m = m
        self.meta = {}          # (region, off) -> dict(code, size, data region)
        self.added = []

    # -- option objects --------------------------------------------------------
    def meta_of(self, v):
        if isinstance(v, bp.Ptr):
            v = v.loc
        if isinstance(v, bp.Loc):
            return self.meta.get((v.region, v.off))
        return None

    def new_opt(self, loc, code, size, bits):
        d = self.m.new_region("OD")
        self.m.store_bits(d, 0, bits)
        self.meta[(loc.region, loc.off)] = dict(code=code, size=size, data=d)

    def construct(self, fr, n, loc):
        rec = n.get("crec") or ""
        if not rec.startswith(OPT):
            return False
        c = [x for x in n.get("c", [])]
        m = self.m
        if len(c) == 1:
            src = fr.ev(c[0])
            mo = self.meta_of(src)
            if mo is None:
                raise bp.Unsupported("copy of an option that was not built here")
            self.meta[(loc.region, loc.off)] = dict(mo)
            return True
        vals = []
        for a in c:
            if a["k"] == "CXXDefaultArgExpr":
                vals.append(None)
            else:
                vals.append(fr.rv(a))
        code = vals[0] if vals else None
        if len(vals) == 3 and (vals[1] is None or isinstance(vals[1], bp.BV)) and not isinstance(vals[1], bp.Ptr) and \
                not (isinstance(vals[1], bp.Ptr)):
            ln = 0 if vals[1] is None else vals[1].value()
            if ln is None:
                raise bp.Unsupported("option of non-constant length")
            p = vals[2]
            if p is None or (isinstance(p, bp.Ptr) and p.loc is None) or (isinstance(p, bp.BV) and p.value() == 0):
                bits = []
                ln_eff = 0
            elif isinstance(p, bp.Ptr):
                bits = m.load_bits(p.loc.region, p.loc.off, ln * 8)
                ln_eff = ln
            else:
                raise bp.Unsupported("option data argument")
            self.new_opt(loc, code, ln, bits)
            self.meta[(loc.region, loc.off)]["real"] = ln_eff
            return True
        if len(vals) == 3 and isinstance(vals[1], bp.Ptr) and isinstance(vals[2], bp.Ptr):
            a, b = vals[1].loc, vals[2].loc
            if a is None or b is None or a.region != b.region:
                raise bp.Unsupported("option from an iterator pair of different objects")
            nb = b.off - a.off
            self.new_opt(loc, code, nb // 8, m.load_bits(a.region, a.off, nb))
            return True
        if len(vals) == 4 and isinstance(vals[2], bp.Ptr) and isinstance(vals[3], bp.Ptr):
            a, b = vals[2].loc, vals[3].loc
            ln = vals[1].value() if isinstance(vals[1], bp.BV) else None
            if a is None or b is None or a.region != b.region or ln is None:
                raise bp.Unsupported("option(code, length, first, last) with unsupported arguments")
            self.new_opt(loc, code, ln, m.load_bits(a.region, a.off, b.off - a.off))
            return True
        raise bp.Unsupported("PDUOption constructor form with %d arguments" % len(vals))

    # -- calls -----------------------------------------------------------------
    def call(self, fr, n, callee, cname, objinfo, argn):
        m = self.m
        if cname == "add_tagged_option" and len(argn) == 3:
            code, ln, p = fr.rv(argn[0]), fr.rv(argn[1]), fr.rv(argn[2])
            lv = ln.value() if isinstance(ln, bp.BV) else None
            if lv is None or not isinstance(p, bp.Ptr):
                raise bp.Unsupported("add_tagged_option with a non-constant length")
            r = m.new_region("OT")
            bits = m.load_bits(p.loc.region, p.loc.off, lv * 8) if p.loc is not None else []
            self.new_opt(bp.Loc(r, 0, None), code, lv, bits)
            self.added.append(self.meta[(r, 0)])
            return (None,)
        if cname in ADDERS and argn:
            v = fr.ev(argn[0])
            mo = self.meta_of(v)
            if mo is None:
                raise bp.Unsupported("%s of an option that was not built here" % cname)
            self.added.append(mo)
            return (None,)
        if cname == "search_option" and len(argn) == 1 and n["k"] == "CXXMemberCallExpr":
            code = fr.rv(argn[0])
            cv = code.value() if isinstance(code, bp.BV) else None
            if cv is None:
                raise bp.Unsupported("search_option with a non-constant code")
            for mo in self.added:
                oc = mo["code"].value() if isinstance(mo["code"], bp.BV) else None
                if oc is None:
                    raise bp.Unsupported("stored option with a non-constant code")
                if oc == cv:
                    r = m.new_region("OP")
                    self.meta[(r, 0)] = mo
                    return (bp.Ptr(bp.Loc(r, 0, {"k": "rec", "name": "option"})),)
            return (bp.Ptr(None),)
        if n["k"] == "CXXMemberCallExpr" and cname in ("data_ptr", "data_size", "option", "length_field") and objinfo and objinfo[0] is not None:
            try:
                ov = fr.ev(objinfo[0])
            except bp.Unsupported:
                return None
            if objinfo[1] and isinstance(ov, bp.Loc):
                ov = m.load(ov)
            mo = self.meta_of(ov)
            if mo is None:
                return None
            if cname == "data_ptr":
                return (bp.Ptr(bp.Loc(mo["data"], 0, {"k": "int", "w": 8, "sg": False, "s": "unsigned char"})),)
            if cname == "data_size":
                return (bp.BV.const(mo.get("real", mo["size"]), 64),)
            if cname == "length_field":
                return (bp.BV.const(mo["size"], 64),)
            return (mo["code"],)
        return None


def run(db, rep):
    from rules import c15
    import collections
    rep.rule("R10-option-inverse", "typed option accessors: the getter returns, bit for bit, the value its setter stored through the option list "
                                   "(byte-order swaps, lengths and the converter templates interpreted exactly), for every value", 15)
    pairs = c15.discover(db)
    stats = collections.Counter()
    for rec, nm, s, g in pairs:
        if not any(n.get("cname") in ADDERS for n in facts.fn_nodes(s) if n["k"] in ("CallExpr", "CXXMemberCallExpr")):
            continue
        key = "%s::%s" % (rec.replace("Tins::", ""), nm)
        site = facts.loc(s)
        m = bp.Machine(db)
        h = Hooks(m)
        m.hooks = h
        this = m.new_region("this", "m")
        a, w, decl, kind = c15.param_setup(db, m, s)
        flat = None
        if a is None:
            pt = facts.tyi(s, s["params"][0].get("t")) or {}
            while pt.get("k") == "ref" and pt.get("to"):
                pt = pt["to"]
            zeros = []
            flat = flat_bits(db, pt, zeros=zeros) if pt.get("k") == "rec" else None
            if flat is None:
                stats["non-scalar parameter (container / string / record with containers)"] += 1
                continue
            r_ = m.new_region("P", "p")
            for z in zeros:
                m.store_bits(r_, z, [0])            # bits a small_uint<n> member can never hold
            a = bp.Loc(r_, 0, pt)
            w = len(flat)
            kind = "record"
        thisloc = bp.Loc(this, 0, {"k": "rec", "name": rec, "size": db.records[rec]["size"]})
        try:
            m.call(s, thisloc, [a])
            if not h.added:
                rep.violation("R10-option-inverse", key, site, "the setter stores no option at all: the value is lost")
                continue
            r = m.call(g, thisloc, [])
            bits = c15.result_bits(m, r)
            if flat is not None:
                bits = [bits[i] if i < len(bits) else 0 for i in flat]
                exp_flat = [("p", i) for i in flat]
        except bp.Unsupported as e:
            stats["outside the interpreter: %s" % str(e)[:60]] += 1
            continue
        except bp.Throw:
            rep.violation("R10-option-inverse", key, site, "the getter throws for the option its own setter just stored (length or code disagree)")
            continue
        n = max(w, len(bits))
        got = [bits[i] if i < len(bits) else 0 for i in range(n)]
        exp = [("p", i) if i < w else 0 for i in range(n)]
        if flat is not None:
            exp = exp_flat
            got = bits
        stats["decided"] += 1
        if got == exp:
            o = h.added[-1]
            rep.ok("R10-option-inverse", key, site, "identity on all %d value bits through option %s (%d bytes)" % (w, o["code"].value(), o["size"]))
        elif any(bp.has_x(b) for b in got):
            stats["decided"] -= 1
            stats["composition leaves the exact domain"] += 1
        else:
            i = next(j for j in range(n) if got[j] != exp[j])
            rep.violation("R10-option-inverse", key, site, "bit %d of the value read back is %s, expected %s: encoder and decoder of this option "
                          "disagree (byte order, width or position)" % (i, bp.bit_str(got[i]), bp.bit_str(exp[i])))
    rep.extra["option_pairs"] = dict(stats)


def flat_bits(db, t, base=0, depth=0, zeros=None):
    """bit offsets of the value bits (padding excluded) of a record made only of integers, enums, addresses and such
    records; None when it holds anything else.  small_uint<n> members contribute their n low bits (the others are
    appended to `zeros`: the class invariant keeps them 0); members named reserved* are not value bits."""
    name = t.get("name")
    if (name or "").startswith("Tins::small_uint<"):
        n = int(name.split("<")[1].rstrip(">").rstrip("UL"))
        size = (t.get("size") or db.records[name]["size"]) * 8
        if zeros is not None:
            zeros.extend(base + i for i in range(n, size))
        return [base + i for i in range(n)]
    r = db.records.get(name)
    if r is None or depth > 4:
        return None
    for b_ in r.get("bases", []):
        rb = db.records.get(b_)
        if rb is None or rb.get("fields") or rb.get("bases"):
            return None
    if name in ("Tins::IPv4Address", "Tins::IPv6Address") or (name or "").startswith("Tins::HWAddress<"):
        return [base + i for i in range((t.get("size") or r["size"]) * 8)]
    out = []
    if not r.get("fields"):
        return None
    for fl in r["fields"]:
        ft = facts.tyi(r, fl["t"]) or {}
        k = ft.get("k")
        if fl["name"].startswith("reserved"):
            continue
        if k in ("int", "bool", "enum"):
            wbits = fl.get("bitw") or fl["bits"]
            out += [base + fl["off"] + i for i in range(wbits)]
        elif k == "rec":
            sub = flat_bits(db, ft, base + fl["off"], depth + 1, zeros)
            if sub is None:
                return None
            out += sub
        elif k == "arr" and (ft.get("to") or {}).get("k") == "int":
            out += [base + fl["off"] + i for i in range(fl["bits"])]
        else:
            return None
    return out
