"""C05 - derived fields are correct on the wire (DESIGN.md C05; ordering / protocol part, not the arithmetic).

 R1 checksum-protocol  in the six checksum producers (IP, TCP, UDP, ICMP, ICMPv6 ::write_serialization and
                  ICMPExtensionsStructure::serialize): the field is zero when its header goes through the cursor; the sum
                  is taken after the last byte it covers was written, over a range that starts at the buffer; 32-bit
                  accumulators are folded by an end-around-carry *loop* before they are narrowed (also in sum_range itself);
                  the result is complemented, kept in the object and patched into the buffer; pseudo-header sums use the
                  parent's addresses, size() and the protocol number of this very class.
 R2 derive-before-write  no header field is assigned after the header went through the cursor unless the same bytes are
                  patched in the buffer afterwards.
 R3 tags          the next-protocol tag is looked up for the *immediate* inner layer; in the IPv6 extension chain header
                  i-1 receives the type of header i for every i >= 1 (guard evaluated over the index); tables: C03.R2.
 R4 padding       the Ethernet / 802.1Q minimum-frame padding is zero-filled after skipping exactly the inner layer.
"""
from vlib import facts, cfg, cond, ieval, streamfx as sx
from vlib.facts import strip

PID = "C05"

PRODUCERS = [
    ("Tins::IP::write_serialization", None),
    ("Tins::TCP::write_serialization", "Tins::Constants::IP::PROTO_TCP"),
    ("Tins::UDP::write_serialization", "Tins::Constants::IP::PROTO_UDP"),
    ("Tins::ICMP::write_serialization", None),
    ("Tins::ICMPv6::write_serialization", "Tins::Constants::IP::PROTO_ICMPV6"),
    ("Tins::ICMPExtensionsStructure::serialize", None),
]
SUM_FNS = ("sum_range", "do_checksum")
CK_NAMES = ("check", "cksum", "checksum", "checksum_")


def run(db, rep, tier):
    rep.rule("R1-checksum-protocol", "zero while written, summed after the last covered byte, folded in a loop, complemented, stored and patched", 24)   # 6 producers x (sum, zero, fold, complement): each is demanded by name below; the count of sum sites is free
    rep.rule("R2-derive-before-write", "header fields are final when the header goes through the cursor (or are patched back)", 28)
    rep.rule("R3-tags", "the tag of the immediate inner layer is stored; IPv6 extension chain links every header to its successor", 8)
    rep.rule("R4-padding", "minimum-frame padding is zero-filled after the inner layer", 2)
    r1(db, rep)
    r2(db, rep)
    r3(db, rep)
    r3_mirrors(db, rep)
    r4(db, rep)
    r4_min_frame(db, rep)
    rep.rule("R5-zero-substitution", "UDP: whatever the parent layer, a computed checksum of 0 leaves the serialiser as 0xffff", 1)
    r5_zero(db, rep)
    rep.rule("R6-fresh-derived", "a field the serialiser derives is stored unconditionally with respect to its own old value: no store is guarded "
                                 "by an ordering comparison that reads the field being stored (grow-only / shrink-only updates go stale)", 40)
    r6_fresh(db, rep)
    rep.rule("R2-parent", "(C12.R2, re-run here: transport checksums and the MPLS bottom-of-stack bit are derived only when the layer can see "
                          "its parent, so every store of a child must set the child's parent link)", 4)
    from rules import c12
    c12.r2(db, rep)
    rep.rule("R7-immediate-child", "next-protocol tags are derived from the IMMEDIATE inner layer: a serialiser that stores a tag does not "
                                   "search the chain (find_pdu / rfind_pdu) to decide it", 8)
    r7_immediate(db, rep)
    rep.rule("R8-pseudo-inputs-final", "what an inner layer's pseudo-header reads from its parent (source / destination address of IP and "
                                       "IPv6) is final BEFORE the inner layers are serialised: the parent's write_serialization - which runs "
                                       "after its children's - neither assigns those members nor calls their setters", 2)
    r8_inputs(db, rep)
    rep.rule("R9-rfc4884-length", "ICMP / ICMPv6 with extensions: the RFC 4884 length field that write_serialization stores (in 32-bit / 64-bit "
                                  "words) announces exactly the offset at which trailer_size() makes the extension structure start (the quoted "
                                  "datagram padded to at least 128 octets); both functions EXECUTED for sample sizes", 2)
    r9_len(db, rep)
    rep.rule("R10-mpls-bottom", "MPLS marker: a label that has a parent gets its bottom-of-stack bit exactly when no label follows it (no "
                                "inner layer, or an inner layer of any class other than MPLS); the serialiser is EXECUTED for every layer class", 1)
    r10_mpls(db, rep)
    rep.explanation = ("Ordering / protocol part of C05: for each checksum producer the zero-write-sum-fold-complement-store-patch sequence "
                       "and the pseudo-header arguments (R1); header fields are final when written (R2); tags come from the immediate "
                       "child and the IPv6 extension chain is linked for every index (R3); padding is zero after the payload (R4). "
                       "NOT decided: one's-complement arithmetic itself, CRC32, the values of length expressions, agreement with libpcap filters.")


def fn(db, q):
    fs = [f for f in db.fns_named(q) if f.get("body") and len(f["params"]) == 2]
    return fs[0] if fs else None


def member_store(f, n):
    """(member name, value node) if n stores to a member of this (directly or through a one-argument setter), else None"""
    if n["k"] in ("BinaryOperator",) and n.get("op") == "=":
        lhs = strip(n["c"][0])
        if lhs["k"] == "MemberExpr" and lhs.get("isfield"):
            base = lhs
            while base["k"] == "MemberExpr" and base.get("c"):
                base = strip(base["c"][0])
            if base["k"] == "CXXThisExpr":
                return lhs.get("member"), n["c"][1], lhs
    return None


def r1(db, rep):
    for q, proto in PRODUCERS:
        f = fn(db, q)
        short = q.replace("Tins::", "")
        if f is None:
            rep.analysis_broken("%s vanished" % q)
            continue
        f = facts.expanded(db, f)       # `check = helper(a, b)` reads as the expression the file-local helper returns
        g = cfg.FnCFG(f)
        idx, par = facts.index_fn(f)
        pb = f["params"][0]["var"]
        aliases = {pb}
        for n in facts.fn_nodes(f):
            if n["k"] == "VarDecl" and n.get("c"):
                i0 = facts.strip_all(n["c"][0])
                if i0["k"] == "DeclRefExpr" and i0.get("var") == pb:
                    aliases.add(n["var"])
        # pointers into the buffer (`uint8_t* const p = buffer + offsetof(hdr, check)`) reach it too: only for the patch test
        into = set(aliases)
        cursors = set(n["var"] for n in facts.fn_nodes(f) if n["k"] == "VarDecl" and n.get("c") and
                      "OutputMemoryStream" in ((facts.tyi(f, n.get("t")) or {}).get("s") or "") and
                      any(x["k"] == "DeclRefExpr" and x.get("var") in aliases for x in facts.walk(n["c"][0])))
        for n in facts.fn_nodes(f):
            if n["k"] == "VarDecl" and n.get("c") and (facts.tyi(f, n.get("t")) or {}).get("k") == "ptr" and \
                    any(x["k"] == "DeclRefExpr" and (x.get("var") in aliases or x.get("var") in cursors) for x in facts.walk(n["c"][0])):
                into.add(n["var"])          # buffer + K, or cursor.pointer() of the cursor laid over the buffer
        # ... and so do further cursors laid over such a pointer (`OutputMemoryStream patch(stream.pointer(), 2)`)
        for _ in range(3):
            for n in facts.fn_nodes(f):
                if n["k"] == "VarDecl" and n.get("c") and "OutputMemoryStream" in ((facts.tyi(f, n.get("t")) or {}).get("s") or "") and \
                        any(x["k"] == "DeclRefExpr" and (x.get("var") in into or x.get("var") in cursors) for x in facts.walk(n["c"][0])):
                    cursors.add(n["var"])
        sums = [n for n in facts.fn_nodes(f) if n["k"] == "CallExpr" and n.get("cname") in SUM_FNS]
        writes = [n for n in facts.fn_nodes(f) if n["k"] == "CXXMemberCallExpr" and n.get("crec") == "Tins::Memory::OutputMemoryStream"
                  and n.get("cname") in ("write", "write_be", "write_le", "fill")]
        hdr_writes = [w for w in writes if len(w["c"]) == 2 and "header_" in facts.expr_str(w["c"][1])] or writes[:1]

        def receiver(w):
            r_ = w["c"][0]
            while r_.get("c") and r_["k"] != "DeclRefExpr":
                r_ = r_["c"][0]
            return r_.get("var") if r_["k"] == "DeclRefExpr" else None
        main_cursor = receiver(hdr_writes[0]) if hdr_writes else None
        # the checksum written through a SECOND cursor laid over an earlier position of the buffer is the patch, not a
        # further byte of the layer: the value is the complemented sum (a local initialised from `~...`, or the expression)
        comp_vars = set(n["var"] for n in facts.fn_nodes(f) if n["k"] == "VarDecl" and n.get("c") and
                        any(x["k"] == "UnaryOperator" and x.get("op") == "~" for x in facts.walk(n["c"][0])))
        patch_writes = [w for w in writes if len(w["c"]) == 2 and receiver(w) in cursors and receiver(w) != main_cursor and
                        any((x["k"] == "DeclRefExpr" and x.get("var") in comp_vars) or (x["k"] == "UnaryOperator" and x.get("op") == "~")
                            for x in facts.walk(w["c"][1]))]
        writes = [w for w in writes if w not in patch_writes]
        if not sums:
            rep.violation("R1-checksum-protocol", "%s:sum" % short, facts.loc(f), "no checksum is computed any more")
            continue
        # ---- O2/O3: range and position of the sum
        for i, s in enumerate(sums):
            key = "%s:sum#%d" % (short, i + 1)
            a0, a1 = strip(s["c"][1]), s["c"][2]
            t1 = facts.expr_str(a1)
            start_ok = a0["k"] == "DeclRefExpr" and a0.get("var") in aliases
            pname = f["params"][0]["name"]
            tot = f["params"][1]["name"]
            end_ok = False
            e1 = facts.strip_all(a1)
            # a named local for the end of the range is the expression it was initialised with, provided no byte is written
            # between its initialisation and the sum (it would point before the last byte otherwise)
            if e1["k"] == "DeclRefExpr" and e1.get("var") in facts.single_assign(f) and not e1.get("parm"):
                vd = [x for x in facts.fn_nodes(f) if x["k"] == "VarDecl" and x.get("var") == e1["var"]]
                between = [w for w in writes if vd and g.reachable(g.pos(vd[0]), g.pos(w)) and g.reachable(g.pos(w), g.pos(s))]
                if not between:
                    e1 = facts.strip_all(facts.single_assign(f)[e1["var"]])
            if e1["k"] == "BinaryOperator" and e1.get("op") == "+":
                b0 = facts.strip_all(e1["c"][0])
                rhs = facts.expr_str(e1["c"][1])
                end_ok = b0["k"] == "DeclRefExpr" and b0.get("var") in aliases and (rhs == tot or rhs.replace("this->", "") in ("size()",))
            if e1["k"] == "CXXMemberCallExpr" and e1.get("cname") == "pointer":
                end_ok = True       # everything the cursor has accepted so far (header + options of this layer)
            later = [w for w in writes if g.reachable(g.pos(s), g.pos(w))]
            if not start_ok or not end_ok:
                rep.violation("R1-checksum-protocol", key, facts.loc(f, s),
                              "the sum covers [%s, %s): it must start at the layer's buffer and end at buffer + total size (or at the cursor)"
                              % (facts.expr_str(a0)[:30], t1[:40]))
            elif later:
                rep.violation("R1-checksum-protocol", key, facts.loc(f, s), "bytes are still written through the cursor (line %s) after the checksum was computed over them"
                              % later[0].get("l"))
            else:
                rep.ok("R1-checksum-protocol", key, facts.loc(f, s), "over [%s, %s) after the last write" % (facts.expr_str(a0)[:20], t1[:30]))
        # ---- O5: complement, store, patch
        stores = []
        for n in facts.fn_nodes(f):
            ms = member_store(f, n)
            if ms and any(x["k"] == "UnaryOperator" and x.get("op") == "~" for x in facts.walk(ms[1])):
                stores.append((n, ms[0]))
            if n["k"] == "CXXMemberCallExpr" and len(n["c"]) == 2 and n.get("cname") in CK_NAMES and \
                    any(x["k"] == "UnaryOperator" and x.get("op") == "~" for x in facts.walk(n["c"][1])):
                stores.append((n, n.get("cname")))
            if n["k"] == "VarDecl" and n.get("c") and n.get("name") in CK_NAMES and \
                    any(x["k"] == "UnaryOperator" and x.get("op") == "~" for x in facts.walk(n["c"][0])):
                stores.append((n, n.get("name")))
        key = "%s:complement-store-patch" % short
        patches = list(patch_writes)
        for n in facts.fn_nodes(f):
            if n["k"] == "CallExpr" and n.get("cname") == "memcpy":
                d = facts.strip_all(n["c"][1])
                if any(x["k"] == "DeclRefExpr" and x.get("var") in into for x in facts.walk(n["c"][1])):
                    patches.append(n)
            if n["k"] == "BinaryOperator" and n.get("op") == "=":
                lhs = strip(n["c"][0])
                if lhs["k"] == "MemberExpr" and lhs.get("arrow") and any(x["k"] == "DeclRefExpr" and x.get("var") in aliases for x in facts.walk(lhs["c"][0])):
                    patches.append(n)
        if not stores:
            rep.violation("R1-checksum-protocol", key, facts.loc(f), "the one's-complement (~) of the sum is never stored")
        elif not patches or not any(g.reachable(g.pos(stores[0][0]), g.pos(p)) for p in patches):
            rep.violation("R1-checksum-protocol", key, facts.loc(f, stores[0][0]), "the checksum is stored in the object but not patched into the already written buffer")
        else:
            # the object keeps it too
            kept = any(member_store(f, n) and member_store(f, n)[0] in CK_NAMES for n, _ in stores) or \
                any(n["k"] == "CXXMemberCallExpr" for n, _ in stores) or \
                any(member_store(f, n) and member_store(f, n)[0] in CK_NAMES for n in facts.fn_nodes(f))
            if kept:
                rep.ok("R1-checksum-protocol", key, facts.loc(f, stores[0][0]), "~sum stored in `%s` and patched into the buffer" % stores[0][1])
            else:
                rep.violation("R1-checksum-protocol", key, facts.loc(f, stores[0][0]), "the checksum is patched into the buffer but not kept in the object")
        # ---- O7: the patch lands on the checksum field (the field's offset in the header struct that was written first,
        #          or the position at which the literal 0 stood in for it)
        key = "%s:patch-position" % short
        if patches and stores:
            verdict = patch_position(db, f, g, patches, aliases, cursors, writes, hdr_writes, main_cursor)
            if verdict[0] == "ok":
                rep.ok("R1-checksum-protocol", key, facts.loc(f, patches[0]), verdict[1])
            elif verdict[0] == "bad":
                rep.violation("R1-checksum-protocol", key, facts.loc(f, verdict[2]), verdict[1])
            else:
                rep.undecided("R1-checksum-protocol", key, facts.loc(f, patches[0]), verdict[1])
        # ---- O1: zero when written
        key = "%s:zero-when-written" % short
        zero = []
        for n in facts.fn_nodes(f):
            ms = member_store(f, n)
            if ms and ms[0] in CK_NAMES and facts.cval(ms[1]) == 0:
                zero.append(n)
            if n["k"] == "CXXMemberCallExpr" and len(n["c"]) == 2 and n.get("cname") in CK_NAMES and facts.cval(n["c"][1]) == 0 and strip_this(n):
                zero.append(n)
            if n["k"] == "CXXMemberCallExpr" and n.get("crec") == "Tins::Memory::OutputMemoryStream" and n.get("cname") == "write" and \
                    len(n["c"]) == 2 and facts.cval(n["c"][1]) == 0 and "unsigned short" in (n.get("callee") or ""):
                zero.append(n)      # a literal zero written in place of the field
        if not hdr_writes:
            rep.analysis_broken("%s: header write not found" % short)
        elif zero and any(z in hdr_writes or g.before_on_all_paths(g.pos(z), g.pos(hdr_writes[0])) for z in zero):
            rep.ok("R1-checksum-protocol", key, facts.loc(f, zero[0]), "checksum field is 0 when the header is written")
        elif zero and any(z.get("cname") == "write" for z in zero):
            rep.ok("R1-checksum-protocol", key, facts.loc(f, zero[0]), "a literal 0 is written at the field's position")
        else:
            rep.violation("R1-checksum-protocol", key, facts.loc(f, hdr_writes[0]),
                          "the checksum field is not reset to 0 before the header is written: the previous checksum is summed into the new one")
        # ---- O4: fold loops for 32-bit accumulators in this function
        fold_rule(db, rep, f, short)
        # ---- O6: pseudo-header arguments
        ph = [(n, f, None, None) for n in facts.fn_nodes(f) if n["k"] == "CallExpr" and n.get("cname") == "pseudoheader_checksum"]
        # ... or inside a file-local helper that hands the pseudo-header sum back through a reference parameter
        for cs in facts.fn_nodes(f):
            if cs["k"] != "CallExpr" or not cs.get("callee"):
                continue
            h0 = db.functions.get(cs["callee"])
            hs = [h0] if h0 and h0.get("body") and h0.get("kind") == "function" and not h0.get("rec") and \
                cs.get("cname") != "pseudoheader_checksum" else []
            for h_ in hs:
                if facts._named_in_headers(db, h_["name"].split("::")[-1]):
                    continue
                bind = dict((pr["var"], cs["c"][1 + k]) for k, pr in enumerate(h_["params"]) if 1 + k < len(cs["c"]))
                for n in facts.fn_nodes(h_):
                    if n["k"] == "CallExpr" and n.get("cname") == "pseudoheader_checksum":
                        ph.append((n, h_, bind, cs))
        if proto is not None and not ph:
            rep.violation("R1-checksum-protocol", "%s:pseudo-header" % short, facts.loc(f), "no pseudo-header sum any more")
        for i, (n, hf, bind, cs) in enumerate(ph):
            key = "%s:pseudo-header#%d" % (short, i + 1)
            a = n["c"][1:]

            def through(e):
                """the helper's parameter stands for the argument it was called with"""
                e0 = facts.strip_all(e)
                if bind is not None and e0["k"] == "DeclRefExpr" and e0.get("var") in bind:
                    return bind[e0["var"]]
                return e
            t0, t1_, t2, t3 = [facts.expr_str(through(x)) for x in a[:4]]
            recv0 = t0.split("->")[0]
            okaddr = t0.endswith("src_addr()") and t1_.endswith("dst_addr()") and t1_.split("->")[0] == recv0
            oksize = t2.replace("this->", "") in ("size()", f["params"][1]["name"])   # the driver passes total_sz == size()
            pc = None
            for x in facts.walk(through(a[3])):
                if x["k"] == "DeclRefExpr" and x.get("enumc"):
                    pc = x["enumc"]
            okproto = pc == proto
            # the receiver is the (cast of the) parent
            okparent = False
            for v in facts.fn_nodes(hf):
                if v["k"] == "VarDecl" and v.get("name") == recv0.strip("() ") and v.get("c"):
                    okparent = "parent" in facts.expr_str(facts.inline_locals(hf, v["c"][0]))
                    if bind is not None:
                        okparent = any(x["k"] == "DeclRefExpr" and x.get("var") in bind and "parent" in facts.expr_str(bind[x["var"]])
                                       for x in facts.walk(v["c"][0]))
            # added to the sum over the whole layer
            hidx, hpar = (idx, par) if hf is f else facts.index_fn(hf)
            p = hpar.get(n["id"])
            if hf is not f:
                # the helper stores it into a reference parameter: from the call on, the argument variable holds it
                q_ = p
                while q_ is not None and q_["k"] in ("ImplicitCastExpr", "ParenExpr", "CStyleCastExpr", "CXXStaticCastExpr", "ExprWithCleanups", "MaterializeTemporaryExpr", "CXXBindTemporaryExpr"):
                    q_ = hpar.get(q_["id"])
                acc_h = None
                if q_ is not None and q_["k"] == "BinaryOperator" and q_.get("op") == "=" and strip(q_["c"][0])["k"] == "DeclRefExpr":
                    acc_h = strip(q_["c"][0]).get("var")
                okadd = False
                if acc_h in bind and facts.strip_all(bind[acc_h])["k"] == "DeclRefExpr":
                    okadd = accumulated(f, g, cs, facts.strip_all(bind[acc_h]).get("var"), None, stores, patches)
                finish_ph(rep, f, cs, key, okaddr, oksize, okproto, okparent, okadd, pc, proto, t0, t1_, t2, t3)
                continue
            while p is not None and p["k"] in ("ImplicitCastExpr", "ParenExpr"):
                p = par.get(p["id"])
            okadd = p is not None and p["k"] == "BinaryOperator" and p.get("op") == "+" and any(x["k"] == "CallExpr" and x.get("cname") in SUM_FNS for x in facts.walk(p))
            if not okadd:
                # the same sum built in two statements: acc = pseudo(...); ... acc += sum_range(...) on every path onwards
                q_ = p
                while q_ is not None and q_["k"] in ("ImplicitCastExpr", "ParenExpr", "CStyleCastExpr", "CXXStaticCastExpr", "ExprWithCleanups", "MaterializeTemporaryExpr", "CXXBindTemporaryExpr") or \
                        (q_ is not None and q_["k"] == "BinaryOperator" and q_.get("op") == "+"):
                    q_ = par.get(q_["id"])
                acc = None
                if q_ is not None and q_["k"] == "VarDecl":
                    acc = q_.get("var")
                elif q_ is not None and q_["k"] in ("BinaryOperator", "CompoundAssignOperator") and q_.get("op") in ("=", "+=") and \
                        strip(q_["c"][0])["k"] == "DeclRefExpr":
                    acc = strip(q_["c"][0]).get("var")
                if acc is not None:
                    okadd = accumulated(f, g, n, acc, q_, stores, patches)
            finish_ph(rep, f, n, key, okaddr, oksize, okproto, okparent, okadd, pc, proto, t0, t1_, t2, t3)
    # the summing helper itself
    for q in ("Tins::Utils::sum_range",):
        fs = db.fns_named(q)
        if not fs:
            rep.analysis_broken("%s vanished" % q)
            continue
        fold_rule(db, rep, fs[0], q.replace("Tins::", ""), returns=True)


def accumulated(f, g, n, acc, q_, stores, patches):
    """from position n on, `acc` holds the pseudo-header sum: the sum over the layer's bytes is added to it before the value
    is complemented / stored / patched, and it is not overwritten in between"""
    adds = [x for x in facts.fn_nodes(f) if x["k"] == "CompoundAssignOperator" and x.get("op") == "+=" and
            strip(x["c"][0]).get("var") == acc and
            any(y["k"] == "CallExpr" and y.get("cname") in SUM_FNS for y in facts.walk(x["c"][1]))]
    resets = [x for x in facts.fn_nodes(f) if x["k"] == "BinaryOperator" and x.get("op") == "=" and
              strip(x["c"][0]).get("var") == acc and x is not q_ and g.reachable(g.pos(n), g.pos(x)) and
              not any(y["k"] == "DeclRefExpr" and y.get("var") == acc for y in facts.walk(x["c"][1]))]
    # ... or `total = acc + sum_range(...)`: a later sum that reads the accumulator and adds the layer's bytes
    for x in facts.fn_nodes(f):
        val_ = None
        if x["k"] == "VarDecl" and x.get("c"):
            val_ = x["c"][0]
        elif x["k"] == "BinaryOperator" and x.get("op") == "=" and x is not q_:
            val_ = x["c"][1]
        if val_ is None:
            continue
        for y in facts.walk(val_):
            if y["k"] == "BinaryOperator" and y.get("op") == "+" and \
                    any(z["k"] == "DeclRefExpr" and z.get("var") == acc for z in facts.walk(y)) and \
                    any(z["k"] == "CallExpr" and z.get("cname") in SUM_FNS for z in facts.walk(facts.inline_locals(f, y))):
                adds.append(x)      # (the layer's sum may sit in a named local of its own)
                break
    uses = [g.pos(x) for x, _ in stores] + [g.pos(x) for x in patches]
    return bool(adds) and not resets and bool(uses) and g.first_hit(g.pos(n), uses, [g.pos(x) for x in adds]) is None


def finish_ph(rep, f, n, key, okaddr, oksize, okproto, okparent, okadd, pc, proto, t0, t1_, t2, t3):
    if okaddr and oksize and okproto and okparent and okadd:
        rep.ok("R1-checksum-protocol", key, facts.loc(f, n), "parent's src/dst, size(), %s, added to the sum of the layer" % (pc or "").split("::")[-1])
    else:
        what = []
        if not okaddr or not okparent:
            what.append("addresses are not the parent's src_addr()/dst_addr() (%s, %s)" % (t0[:30], t1_[:30]))
        if not oksize:
            what.append("length is `%s`, not size()" % t2[:30])
        if not okproto:
            what.append("protocol is %s, this class is %s" % ((pc or t3).split("::")[-1], proto.split("::")[-1]))
        if not okadd:
            what.append("not added to the sum over the layer's bytes")
        rep.violation("R1-checksum-protocol", key, facts.loc(f, n), "pseudo-header: " + "; ".join(what))


def literal_zero_write(n):
    return n["k"] == "CXXMemberCallExpr" and n.get("crec") == "Tins::Memory::OutputMemoryStream" and n.get("cname") == "write" and \
        len(n["c"]) == 2 and facts.cval(n["c"][1]) == 0 and "unsigned short" in (n.get("callee") or "")


def written_size(f, w):
    """bytes one cursor write of a fixed-size value puts on the wire (None: not fixed)"""
    if len(w["c"]) != 2 or w.get("cname") not in ("write", "write_be", "write_le"):
        return None
    t = facts.tyi(f, w["c"][1].get("t")) or {}
    while t.get("k") == "ref":
        t = facts.tyi(f, t.get("to")) or {}
    if t.get("k") in ("int", "bool", "enum") and t.get("w"):
        return t["w"] // 8
    if t.get("k") == "rec" and t.get("size"):
        return t["size"]
    return None


def patch_position(db, f, g, patches, aliases, cursors, writes, hdr_writes, main_cursor):
    """where does the field live?  (a) the first write through the cursor is a header struct with a checksum-named field: at
    that field's offset; (b) a literal 16-bit 0 is written in its place: at the number of bytes written before it"""
    want = None
    how = None
    main = [w for w in writes if main_cursor is None or _recv(w) == main_cursor]
    if hdr_writes:
        t = facts.tyi(f, hdr_writes[0]["c"][1].get("t")) or {}
        rec = db.records.get(t.get("name")) if t.get("k") == "rec" else None
        if rec and main and hdr_writes[0] is main[0]:
            for fld in rec.get("fields", []):
                if fld.get("name") in CK_NAMES:
                    want, how = fld["off"] // 8, "offset of `%s` in %s" % (fld["name"], t["name"].split("::")[-1])
    zero_w = [w for w in main if literal_zero_write(w)]
    if want is None and zero_w:
        k = 0
        for w in main:
            if w is zero_w[0]:
                want, how = k, "position of the literal 0 written for the field"
                break
            sz = written_size(f, w)
            if sz is None:
                break
            k += sz
    single = facts.single_assign(f)

    def offset_of(e, depth=0):
        """('const', K) | ('capture', VarDecl) | None"""
        e = facts.strip_all(e)
        if e["k"] == "DeclRefExpr":
            if e.get("var") in aliases:
                return ("const", 0)
            if e.get("var") in single and depth < 4:
                r = offset_of(single[e["var"]], depth + 1)
                if r and r[0] == "capture" and r[1] is None:
                    vd = [x for x in facts.fn_nodes(f) if x["k"] == "VarDecl" and x.get("var") == e["var"]]
                    return ("capture", vd[0]) if vd else None
                return r
            return None
        if e["k"] == "BinaryOperator" and e.get("op") == "+":
            a, b = offset_of(e["c"][0], depth), facts.cval(e["c"][1])
            if a and a[0] == "const" and b is not None:
                return ("const", a[1] + b)
            return None
        if e["k"] == "CXXMemberCallExpr" and e.get("cname") == "pointer" and _recv(e) == main_cursor:
            return ("capture", None)
        if e["k"] in ("CXXConstructExpr", "ExprWithCleanups", "CXXFunctionalCastExpr", "MaterializeTemporaryExpr") and e.get("c"):
            return offset_of(e["c"][0], depth)
        return None
    n_ok = 0
    for p in patches:
        if p["k"] == "BinaryOperator":      # ((hdr*)buffer)->check = ...
            lhs = strip(p["c"][0])
            base = offset_of(lhs["c"][0])
            if lhs.get("member") not in CK_NAMES and (lhs.get("name") not in CK_NAMES):
                return ("bad", "the patch assigns `%s`, not the checksum field" % (lhs.get("member") or lhs.get("name")), p)
            if base != ("const", 0):
                return ("bad" if base else "undecided", "the header struct is laid over `%s`, not over the start of the layer's buffer"
                        % facts.expr_str(lhs["c"][0])[:40], p)
            n_ok += 1
            continue
        if p["k"] == "CallExpr":            # memcpy(dest, &value, 2)
            dest = p["c"][1]
            site = p
        else:                               # second_cursor.write(value)
            rv = _recv(p)
            vd = [x for x in facts.fn_nodes(f) if x["k"] == "VarDecl" and x.get("var") == rv]
            if not vd or not vd[0].get("c"):
                return ("undecided", "the patch cursor's construction was not found", p)
            ce = facts.strip_all(vd[0]["c"][0])
            args = ce.get("c") or []
            if not args:
                return ("undecided", "the patch cursor's construction was not found", p)
            dest = args[0]
            site = vd[0]
            if ce["k"] != "CXXConstructExpr":
                dest = ce
            # nothing else goes through the patch cursor before the checksum
            if any(_recv(w) == rv and w is not p and g.reachable(g.pos(w), g.pos(p)) for w in
                   [x for x in facts.fn_nodes(f) if x["k"] == "CXXMemberCallExpr" and x.get("cname") in ("write", "write_be", "write_le", "fill", "skip")]):
                return ("bad", "the patch cursor has moved before the checksum goes through it", p)
        off = offset_of(dest)
        if off is None:
            return ("undecided", "patch destination `%s` is not an offset into the layer's buffer that can be read" % facts.expr_str(dest)[:40], site)
        if off[0] == "const":
            if want is None:
                return ("undecided", "the checksum field's offset could not be read from what is written", site)
            if off[1] != want:
                return ("bad", "the checksum is patched at offset %d of the layer, the field lives at offset %d (%s)" % (off[1], want, how), site)
        else:
            cap = off[1] if off[1] is not None else site
            # the captured position is the field's: the next thing through the cursor after the capture is the literal 0
            nxt = [w for w in main if g.reachable(g.pos(cap), g.pos(w)) and not g.reachable(g.pos(w), g.pos(cap))]
            prev = [w for w in main if g.reachable(g.pos(w), g.pos(cap)) and not g.reachable(g.pos(cap), g.pos(w))]
            if not nxt or not literal_zero_write(nxt[0]) or any(literal_zero_write(w) for w in prev):
                return ("bad", "the cursor position kept for the patch is not the one at which the 0 standing in for the checksum is written", site)
        n_ok += 1
    return ("ok", "%d patch(es) land on the checksum field (%s)" % (n_ok, how or "position captured right before the literal 0"))


def _recv(w):
    r_ = w["c"][0]
    while r_.get("c") and r_["k"] != "DeclRefExpr":
        r_ = r_["c"][0]
    return r_.get("var") if r_["k"] == "DeclRefExpr" else None


def strip_this(n):
    me = n["c"][0]
    while me["k"] in ("ParenExpr", "ImplicitCastExpr"):
        me = me["c"][0]
    return not me.get("c") or strip(me["c"][0])["k"] == "CXXThisExpr"


def fold_rule(db, rep, f, short, returns=False):
    """every 32-bit accumulator that is narrowed to 16 bits (complemented / returned as uint16_t) is folded by a loop
    `while (v >> 16) v = (v & 0xffff) + (v >> 16)` on every path before the narrowing"""
    g = cfg.FnCFG(f)
    accs = {}
    for n in facts.fn_nodes(f):
        if n["k"] == "VarDecl":
            t = facts.tyi(f, n.get("t")) or {}
            if t.get("k") == "int" and t.get("w") == 32 and not t.get("sg"):
                accs[n["var"]] = n
    # accumulators: assigned / += with a sum
    real = {}
    for n in facts.fn_nodes(f):
        tgt = val = None
        if n["k"] in ("BinaryOperator", "CompoundAssignOperator") and n.get("op") in ("=", "+="):
            t = strip(n["c"][0])
            if t["k"] == "DeclRefExpr" and t.get("var") in accs:
                tgt, val = t["var"], n["c"][1]
        if n["k"] == "VarDecl" and n.get("c") and n["var"] in accs:
            tgt, val = n["var"], n["c"][0]
        if tgt is None:
            continue
        if n.get("op") == "+=" or any(x["k"] == "CallExpr" and x.get("cname") in SUM_FNS + ("pseudoheader_checksum",) for x in facts.walk(val)):
            real[tgt] = accs[tgt]
    for var, decl in sorted(real.items()):
        key = "%s:fold(%s)" % (short, decl.get("name"))
        # narrowing uses
        uses = []
        for n in facts.fn_nodes(f):
            if n["k"] == "UnaryOperator" and n.get("op") == "~" and strip(n["c"][0]).get("var") == var:
                uses.append(n)
            if returns and n["k"] == "ReturnStmt" and n.get("c") and strip(facts.strip_all(n["c"][0])).get("var") == var:
                uses.append(n)
        if not uses:
            continue
        loops = []
        for n in facts.fn_nodes(f):
            if n["k"] == "WhileStmt":
                real_c = [x for x in n["c"] if x is not None]
                cnd, body = real_c[0], real_c[-1]
                c0 = facts.strip_all(cnd)
                if c0["k"] == "BinaryOperator" and c0.get("op") == ">>" and strip(c0["c"][0]).get("var") == var and facts.cval(c0["c"][1]) == 16:
                    good = False
                    for x in facts.walk(body):
                        if x["k"] == "BinaryOperator" and x.get("op") == "=" and strip(x["c"][0]).get("var") == var:
                            txt = facts.expr_str(x["c"][1]).replace(" ", "")
                            nm = decl.get("name")
                            good = txt in ("((%s&65535)+(%s>>16))" % (nm, nm), "((%s>>16)+(%s&65535))" % (nm, nm))
                    if good:
                        loops.append(n)
        okall = bool(loops)
        for u in uses:
            if not any(g.before_on_all_paths(g.pos(l), g.pos(u)) for l in loops):
                okall = False
        if okall:
            rep.ok("R1-checksum-protocol", key, facts.loc(f, loops[0]), "end-around-carry loop dominates the narrowing of `%s`" % decl.get("name"))
        else:
            rep.violation("R1-checksum-protocol", key, facts.loc(f, uses[0]),
                          "the 32-bit sum `%s` is narrowed to 16 bits without a `while (%s >> 16) %s = (%s & 0xffff) + (%s >> 16)` loop before it on every path: "
                          "a carry produced by the fold itself is lost" % ((decl.get("name"),) * 5))


# ---------------------------------------------------------------------------
def r2(db, rep):
    n_fn = 0
    for fid, f in sorted(db.functions.items()):
        if not f["qual"].endswith("::write_serialization") or not f.get("body") or len(f["params"]) < 2:
            continue
        g = cfg.FnCFG(f)
        short = f["qual"].replace("Tins::", "")
        hw = [n for n in facts.fn_nodes(f) if n["k"] == "CXXMemberCallExpr" and n.get("crec") == "Tins::Memory::OutputMemoryStream"
              and n.get("cname") == "write" and len(n["c"]) == 2 and strip(n["c"][1])["k"] == "MemberExpr" and strip(n["c"][1]).get("isfield")
              and (facts.ty(f, strip(n["c"][1])) or {}).get("k") == "rec"]
        if not hw:
            continue
        n_fn += 1
        for w in hw:
            hm = strip(w["c"][1]).get("member")
            late = []
            for n in facts.fn_nodes(f):
                ms = member_store(f, n)
                field = None
                if ms:
                    lhs = ms[2]
                    path = facts.expr_str(lhs).replace("this->", "")
                    if path.startswith(hm + "."):
                        field = path
                if n["k"] == "CXXMemberCallExpr" and len(n["c"]) == 2 and strip_this(n):
                    fs = db.functions.get(n.get("callee"))
                    if fs is not None and fs.get("body") and len(fs["params"]) == 1:
                        for x in facts.fn_nodes(fs):
                            m2 = member_store(fs, x)
                            if m2 and facts.expr_str(m2[2]).replace("this->", "").startswith(hm + "."):
                                field = facts.expr_str(m2[2]).replace("this->", "")
                if field and g.reachable(g.pos(w), g.pos(n)):
                    late.append((n, field))
            key = "%s:%s" % (short, hm)
            bad = None
            for n, field in late:
                leaf = field.split(".")[-1]
                # restored to a saved value?  (x = original_x)
                ms = member_store(f, n)
                if ms and strip(ms[1])["k"] == "DeclRefExpr" and "original" in (strip(ms[1]).get("name") or ""):
                    continue
                # patched into the buffer afterwards?
                patched = False
                for p in facts.fn_nodes(f):
                    if p["k"] == "CallExpr" and p.get("cname") == "memcpy" and leaf in facts.expr_str(p["c"][2]) and g.reachable(g.pos(n), g.pos(p)):
                        patched = True
                    if p["k"] == "BinaryOperator" and p.get("op") == "=" and strip(p["c"][0])["k"] == "MemberExpr" and strip(p["c"][0]).get("arrow") \
                            and strip(p["c"][0]).get("member") == leaf and g.reachable(g.pos(n), g.pos(p)) and p is not n:
                        patched = True
                if not patched:
                    bad = (n, field)
                    break
            if bad:
                rep.violation("R2-derive-before-write", key, facts.loc(f, bad[0]),
                              "`%s` is assigned after `%s` went through the cursor and is not patched into the buffer: the serialised header carries the old value" % (bad[1], hm))
            else:
                rep.ok("R2-derive-before-write", key, facts.loc(f, w), "%d later assignment(s), all patched back or restores" % len(late))
    if n_fn < 25:
        rep.analysis_broken("only %d serialisers with a header struct found" % n_fn)


# ---------------------------------------------------------------------------
def r3(db, rep):
    from rules import _tags
    is_lookup = _tags.make_is_lookup(db)
    n = 0
    for fid, f in sorted(db.functions.items()):
        if not f["qual"].endswith("::write_serialization") or not f.get("body"):
            continue
        short = f["qual"].replace("Tins::", "")
        for c in [x for x in facts.fn_nodes(f) if is_lookup(x)]:
            n += 1
            key = "%s:lookup#%d" % (short, n)
            # the class the tag is looked up for, read through named locals and through a helper that wraps the lookup
            txts = _tags.looked_up_for(db, f, c)
            bad = [t for t in txts if t not in ("inner_pdu()->pdu_type()", "inner_pdu_->pdu_type()")]
            if txts and not bad:
                rep.ok("R3-tags", key, facts.loc(f, c), "tag of inner_pdu()->pdu_type()")
            else:
                rep.violation("R3-tags", key, facts.loc(f, c), "the tag is looked up for `%s`, not for the immediate inner layer"
                              % (bad[0][:60] if bad else "?"))
    if n < 7:
        rep.analysis_broken("only %d tag lookups in serialisers" % n)
    # IPv6 extension chain
    fs = db.fns_named("Tins::IPv6::write_serialization")
    if not fs:
        rep.analysis_broken("IPv6::write_serialization vanished")
        return
    f = fs[0]
    key = "IPv6:extension-chain"
    link = None
    for x in facts.fn_nodes(f):
        if x["k"] == "CXXMemberCallExpr" and x.get("cname") == "option" and len(x["c"]) == 2:
            t = facts.expr_str(x["c"][0]).replace(" ", "")
            if "ext_headers_" in t and ("(i-1)" in t or "i-1" in t):
                link = x
    if link is None:
        rep.analysis_broken("IPv6::write_serialization: the statement linking extension header i-1 to header i is not in the recognised form")
        return
    idx, par = facts.index_fn(f)
    # find the guarding if and the loop variable
    p = par.get(link["id"])
    guard = None
    while p is not None:
        if p["k"] == "IfStmt":
            guard = p
            break
        if p["k"] == "ForStmt":
            break
        p = par.get(p["id"])
    loop = p
    while loop is not None and loop["k"] != "ForStmt":
        loop = par.get(loop["id"])
    ivar = None
    if loop is not None:
        for x in facts.walk(loop["c"][0]):
            if x["k"] == "VarDecl":
                ivar = x["var"]
    valsrc = facts.expr_str(link["c"][1])
    src_ok = False
    for v in facts.fn_nodes(f):
        if v["k"] == "VarDecl" and v.get("name") == valsrc and v.get("c"):
            t = facts.expr_str(v["c"][0])
            src_ok = t.replace(" ", "") in ("(ext_headers_[]i).option()", "ext_headers_[i].option()")
    if ivar is None:
        rep.analysis_broken("IPv6::write_serialization: chain loop not recognised")
        return
    bad = None
    if not src_ok:
        rep.analysis_broken("IPv6::write_serialization: the value linked into header i-1 (`%s`) is not recognisably the type of header i" % valsrc)
        return
    elif guard is not None:
        cnd = [x for x in guard["c"] if x is not None][0]
        try:
            for i in range(0, 6):
                v = bool(ieval.ev(f, cnd, {ivar: i}))
                if v != (i >= 1):
                    bad = "for i = %d the link is %s (guard `%s`): header %d %s the type of header %d" % (
                        i, "made" if v else "skipped", facts.expr_str(cnd), i - 1, "would receive" if v else "keeps its own type instead of", i)
                    break
        except ieval.Unknown as e:
            rep.undecided("R3-tags", key, facts.loc(f, guard), "guard outside the evaluator: %s" % e)
            return
    else:
        # unguarded: the loop must start at 1
        pass
    if bad:
        rep.violation("R3-tags", key, facts.loc(f, link), bad)
    else:
        rep.ok("R3-tags", key, facts.loc(f, link), "ext_headers_[i-1] receives the type of ext_headers_[i] for every i >= 1 (guard evaluated for i = 0..5)")
    # first header type goes to the fixed header; last header gets the upper-layer tag through set_last_next_header
    key = "IPv6:chain-ends"
    first = any(member_store(f, x) and member_store(f, x)[0] == "next_header" and facts.expr_str(member_store(f, x)[1]).replace(" ", "") in ("(header_types[]0)", "header_types[0]")
                for x in facts.fn_nodes(f))
    last = db.fns_named("Tins::IPv6::set_last_next_header")
    last_ok = False
    if last:
        t = " ".join(facts.expr_str(x) for x in facts.fn_nodes(last[0]) if x["k"] in ("CXXMemberCallExpr", "BinaryOperator"))
        last_ok = "ext_headers_.back().option(value)" in t.replace("this->", "") and "header_.next_header = value" in t
    any_first = any(member_store(f, x) and member_store(f, x)[0] == "next_header" for x in facts.fn_nodes(f))
    # with no inner layer the chain must END: the tag stored then is not the type of an extension header that is not there
    # (0 = hop-by-hop makes every parser read whatever follows - e.g. Ethernet padding - as an extension header)
    from vlib import ieval as _ie
    ieh = [h for h in db.fns_named("Tins::IPv6::is_extension_header") if h.get("body")]
    en6 = db.enums.get("Tins::IPv6::ExtensionHeader") or {}
    nonext = [e_["v"] for e_ in en6.get("enumerators", []) if e_["name"] == "NO_NEXT_HEADER"]
    g6 = cfg.FnCFG(f)
    for x in facts.fn_nodes(f):
        if x["k"] == "CXXMemberCallExpr" and x.get("cname") == "set_last_next_header" and len(x["c"]) == 2 and facts.cval(x["c"][1]) is not None:
            gfs = cond.guards_facts(g6, g6.pos(x)) if g6.pos(x) else []
            if any(op == "false" and "inner_pdu" in facts.expr_str(l) for op, l, r_ in gfs):
                k_ = int(facts.cval(x["c"][1]))
                is_ext = None
                if ieh:
                    try:
                        is_ext = bool(_ie.run_body(ieh[0], ieh[0]["body"], {ieh[0]["params"][0]["var"]: k_, "__db__": db}))
                    except _ie.Unknown:
                        is_ext = None
                key2 = "IPv6:no-payload-tag"
                if is_ext and (not nonext or k_ != nonext[0]):
                    rep.violation("R3-tags", key2, facts.loc(f, x),
                                  "with no inner layer the serialiser stores next header %d, the type of an EXTENSION header, although nothing "
                                  "follows: a parser reads the bytes behind the IPv6 header (the zero padding of a short Ethernet frame) as "
                                  "that extension header and rejects the frame - libtins' own parser included; `No Next Header` is %s"
                                  % (k_, nonext[0] if nonext else 59))
                elif is_ext is not None:
                    rep.ok("R3-tags", key2, facts.loc(f, x), "no inner layer -> next header %d (the chain ends)" % k_)
    wrong_end = False
    if last and not last_ok:
        # the upper-layer tag written into another element than the LAST header (front(), begin(), [0])
        for x in facts.fn_nodes(last[0]):
            if x["k"] == "CXXMemberCallExpr" and x.get("cname") == "option" and len(x["c"]) == 2:
                recv = facts.expr_str(x["c"][0]).replace("this->", "")
                if "ext_headers_" in recv and "back()" not in recv and "rbegin" not in recv and "size() - 1" not in recv:
                    wrong_end = True
    if first and last_ok:
        rep.ok("R3-tags", key, facts.loc(f), "fixed header <- type of header 0; last header (or fixed header) <- upper-layer tag")
    elif wrong_end:
        rep.violation("R3-tags", key, facts.loc(last[0]),
                      "set_last_next_header() writes the upper-layer tag into an extension header other than the LAST one: with two or more "
                      "extension headers the first one announces the payload and the rest of the chain is skipped by every parser")
    elif not any_first and not last:
        rep.violation("R3-tags", key, facts.loc(f), "the ends of the next-header chain are not linked (fixed header / last header)")
    else:
        rep.analysis_broken("IPv6: the code linking the ends of the next-header chain is not in the recognised form")


# ---------------------------------------------------------------------------
def r4(db, rep):
    for q in ("Tins::EthernetII::write_serialization", "Tins::Dot1Q::write_serialization"):
        fs = db.fns_named(q)
        if not fs:
            rep.analysis_broken("%s vanished" % q)
            continue
        f = fs[0]
        g = cfg.FnCFG(f)
        short = q.replace("Tins::", "")
        fills = [n for n in facts.fn_nodes(f) if n["k"] == "CXXMemberCallExpr" and n.get("cname") == "fill"]
        skips = [n for n in facts.fn_nodes(f) if n["k"] == "CXXMemberCallExpr" and n.get("cname") == "skip"]
        key = "%s:padding" % short
        if not fills:
            rep.violation("R4-padding", key, facts.loc(f), "the minimum-frame padding is not written")
            continue
        fl = fills[0]
        zero = facts.cval(fl["c"][2]) == 0
        # named locals (`payload = inner_pdu()`, `padding = trailer_size()`) are read through
        amt = facts.expr_str(facts.inline_locals(f, fl["c"][1])).replace("this->", "")
        amt_ok = amt == "trailer_size()"
        sk_ok = any(facts.expr_str(facts.inline_locals(f, s["c"][1])).replace("this->", "") in ("inner_pdu()->size()", "inner_pdu_->size()") and
                    g.reachable(g.pos(s), g.pos(fl)) for s in skips)
        if zero and amt_ok and sk_ok:
            rep.ok("R4-padding", key, facts.loc(f, fl), "skip(inner_pdu()->size()) then fill(trailer_size(), 0)")
        else:
            what = []
            if not zero:
                what.append("padding byte is not 0")
            if not amt_ok:
                what.append("amount `%s` is not trailer_size()" % amt)
            if not sk_ok:
                what.append("the inner layer is not skipped first")
            rep.violation("R4-padding", key, facts.loc(f, fl), "; ".join(what))


# ---------------------------------------------------------------------------
def r3_mirrors(db, rep):
    """a class that keeps a private mirror `f_` of a header field `header_.f` for the serialiser (IPv6::next_header_ is the
    tag written in front of an unrecognised payload) must update the mirror wherever the API sets the field"""
    n = 0
    for rn, r in sorted(db.records.items()):
        if not rn.startswith("Tins::") or "Tins::PDU" not in db.all_bases(rn):
            continue
        hdr = None
        for fl in r.get("fields", []):
            t = facts.tyi(r, fl["t"]) or {}
            if fl["name"] in ("header_",) and t.get("k") == "rec":
                hdr = db.records.get(t.get("name"))
        if hdr is None:
            continue
        hfields = set(fl["name"] for fl in hdr.get("fields", []))
        for fl in r.get("fields", []):
            nm = fl["name"]
            if not nm.endswith("_") or nm[:-1] not in hfields:
                continue
            mirror, field = nm, nm[:-1]
            # is the mirror read by the serialiser?
            ws = [f for f in db.functions.values() if f.get("rec") == rn and f["qual"].endswith("::write_serialization") and f.get("body")]
            if not ws or not any(x["k"] == "MemberExpr" and x.get("member") == mirror for x in facts.fn_nodes(ws[0])):
                continue
            n += 1
            key = "%s:%s~%s" % (rn.split("::")[-1], field, mirror)
            bad = None
            n_set = 0
            for f in db.functions.values():
                if f.get("rec") != rn or not f.get("body") or f["id"].endswith(" const"):
                    continue
                q = f["qual"].split("::")[-1]
                if q in ("write_serialization", "set_last_next_header"):
                    continue        # the serialiser's own, derived stores
                sets_field = sets_mirror = False
                for x in facts.fn_nodes(f):
                    ms = member_store(f, x)
                    if ms:
                        path = facts.expr_str(ms[2]).replace("this->", "")
                        if path == "header_." + field:
                            sets_field = True
                        if path == mirror:
                            sets_mirror = True
                if sets_field:
                    n_set += 1
                    if not sets_mirror:
                        bad = f
            if bad is not None:
                rep.violation("R3-tags", key, facts.loc(bad),
                              "%s sets header_.%s but not its mirror %s, which write_serialization stores back in front of a payload whose "
                              "type it does not know: the value set through the API is replaced by a stale one on the wire" % (bad["qual"].split("::")[-1], field, mirror))
            elif n_set == 0:
                rep.analysis_broken("%s: no setter of header_.%s found" % (rn, field))
            else:
                rep.ok("R3-tags", key, "%s:%s" % (r["file"], r["line"]), "%d function(s) set header_.%s together with %s" % (n_set, field, mirror))
    if n < 1:
        rep.analysis_broken("no mirrored header field found (IPv6::next_header_ expected)")


def r4_min_frame(db, rep):
    """EthernetII: header + payload + trailer_size() >= 60 whatever the payload is (E-STREAMFX form of trailer_size
    evaluated on the partition of its conditions)"""
    from rules import c02
    K = "Tins::EthernetII"
    t = c02.final(db, K, "trailer_size", "() const")
    h = c02.final(db, K, "header_size", "() const")
    if t is None or h is None:
        rep.analysis_broken("EthernetII::trailer_size / header_size vanished")
        return
    fx = sx.Fx(db, K)
    key = "EthernetII:min-frame"
    try:
        T = fx.exec_fn(sx.Ctx(fx, t, cls=K)).get("§ret")
        H = fx.exec_fn(sx.Ctx(fx, h, cls=K)).get("§ret")
        cells = sx.Cells(fx)
        cells.collect(T)
        cells.terms.setdefault("inner_pdu_.size()", set()).update([0, 1, 45, 46, 47, 100])
        bad = None
        n = 0
        for cell in cells.assignments(20000):
            s = cell.get("inner_pdu_.size()", 0) if cell.get("inner_pdu_", 1) else 0
            tv = sx.flat_value(fx, T, cell)
            hv = sx.flat_value(fx, H, cell)
            if tv is None or hv is None:
                continue
            n += 1
            if hv + s + tv < 60:
                bad = "with a payload of %d byte(s) (%s) the frame is %d + %d + %d = %d bytes, below the 60-byte minimum" % (
                    s, ", ".join("%s=%s" % kv for kv in sorted(cell.items()) if kv[0] != "inner_pdu_.size()"), hv, s, tv, hv + s + tv)
                break
    except (sx.Opaque, ieval.Unknown) as e:
        rep.undecided("R4-padding", key, facts.loc(t), "trailer_size outside the evaluator: %s" % e)
        return
    if bad:
        rep.violation("R4-padding", key, facts.loc(t), bad)
    elif n == 0:
        rep.analysis_broken("EthernetII::trailer_size: no cell could be evaluated")
    else:
        rep.ok("R4-padding", key, facts.loc(t), "14 + payload + trailer_size() >= 60 in all %d cells" % n)


# ---------------------------------------------------------------------------
def r5_zero(db, rep):
    """abstract interpretation of UDP::write_serialization over {ZERO, NZ, ?} for header_.check from the complement store to
    the patch of the buffer"""
    f = fn(db, "Tins::UDP::write_serialization")
    if f is None:
        rep.analysis_broken("UDP::write_serialization vanished")
        return
    key = "UDP::write_serialization:zero-substitution"

    def is_ck(n):
        n = strip(n)
        if n["k"] == "MemberExpr" and n.get("isfield") and n.get("member") in CK_NAMES and n.get("c"):
            b = strip(n["c"][0])
            return b["k"] == "MemberExpr" and strip(b["c"][0])["k"] == "CXXThisExpr"
        return False

    def join(a, b):
        return a if a == b else "?"

    def refine(c, st):
        c0 = strip(c)
        if c0["k"] == "BinaryOperator" and c0.get("op") in ("==", "!="):
            for a, b in ((c0["c"][0], c0["c"][1]), (c0["c"][1], c0["c"][0])):
                if is_ck(a) and facts.cval(b) == 0:
                    return ("ZERO", "NZ") if c0["op"] == "==" else ("NZ", "ZERO")
        if c0["k"] == "UnaryOperator" and c0.get("op") == "!":
            t, e = refine(c0["c"][0], st)
            return e, t
        if is_ck(c0):
            return "NZ", "ZERO"
        if c0["k"] == "BinaryOperator" and c0.get("op") == "&&":
            ta, fa = refine(c0["c"][0], st)
            tb, fb = refine(c0["c"][1], ta)
            return tb, join(fa, fb)
        if c0["k"] == "BinaryOperator" and c0.get("op") == "||":
            ta, fa = refine(c0["c"][0], st)
            tb, fb = refine(c0["c"][1], fa)
            return join(ta, tb), fb
        return st, st

    def val(e, st):
        v = facts.cval(e)
        if v is not None:
            return "ZERO" if int(v) & 0xffff == 0 else "NZ"
        e0 = strip(e)
        if is_ck(e0):
            return st
        if e0["k"] == "ConditionalOperator":
            t, fl = refine(e0["c"][0], st)
            return join(val(e0["c"][1], t), val(e0["c"][2], fl))
        return "?"
    res = {"patched": []}

    def run(s_, st):
        if s_ is None:
            return st
        k = s_["k"]
        if k == "CompoundStmt":
            for x in s_.get("c", []):
                st = run(x, st)
            return st
        if k == "IfStmt":
            real = [x for x in s_["c"] if x is not None]
            if real[0]["k"] == "DeclStmt":
                real = real[1:]
            t, fl = refine(real[0], st)
            a = run(real[1], t)
            b = run(real[2], fl) if len(real) > 2 else fl
            return join(a, b)
        if k in ("WhileStmt", "ForStmt", "DoStmt"):
            if any(x["k"] == "BinaryOperator" and x.get("op") == "=" and is_ck(x["c"][0]) for x in facts.walk(s_)):
                return "?"
            return st
        for x in facts.walk(s_):
            if x["k"] == "BinaryOperator" and x.get("op") == "=":
                l = strip(x["c"][0])
                if is_ck(l):
                    st = val(x["c"][1], st)
                elif l["k"] == "MemberExpr" and l.get("member") in CK_NAMES and l.get("arrow"):
                    res["patched"].append((x, val(x["c"][1], st)))
            if x["k"] == "CallExpr" and x.get("cname") == "memcpy" and any(is_ck(y) for y in facts.walk(x["c"][2])):
                res["patched"].append((x, st))
        return st
    run(f["body"], "?")
    if not res["patched"]:
        rep.analysis_broken("UDP::write_serialization: the patch of the checksum into the buffer was not found")
        return
    bad = [(x, v) for x, v in res["patched"] if v != "NZ"]
    if bad:
        rep.violation("R5-zero-substitution", key, facts.loc(f, bad[0][0]),
                      "the checksum patched into the datagram can still be 0 on some path (the 0 -> 0xffff substitution is missing or "
                      "conditional on something else than the value): over IPv6 a zero UDP checksum is illegal and the datagram is dropped; "
                      "over IPv4 it means 'not computed'")
    else:
        rep.ok("R5-zero-substitution", key, facts.loc(f, res["patched"][0][0]), "header_.check is non-zero on every path to the patch")


def r6_fresh(db, rep):
    from vlib import cond
    n = 0
    seen_k = {}
    for fid, f in sorted(db.functions.items()):
        if not (f["qual"].endswith("::write_serialization") or f["qual"].endswith("::prepare_for_serialize")) or not f.get("body"):
            continue
        if not f["file"].startswith("src/") and not f["file"].startswith("include/tins"):
            continue
        g = None
        short = f["qual"].replace("Tins::", "")
        for x in facts.fn_nodes(f):
            field = None
            if x["k"] == "CXXMemberCallExpr" and len(x["c"]) == 2 and strip_this(x):
                cal = db.functions.get(x.get("callee"))
                if cal is not None and cal.get("body") and len(cal["params"]) == 1 and \
                        any(member_store(cal, y) for y in facts.fn_nodes(cal)):
                    field = x.get("cname")
            else:
                ms = member_store(f, x)
                if ms and x["k"] == "BinaryOperator":
                    field = facts.expr_str(ms[2]).replace("this->", "").split(".")[-1]
            if not field:
                continue
            n += 1
            g = g or cfg.FnCFG(f)
            pos = g.pos(x)
            if pos is None:
                continue
            bad = None
            for op, l, r in cond.guards_facts(g, pos):
                if op not in ("<", ">", "<=", ">=") or r is None:
                    continue
                for side, other in ((l, r), (r, l)):
                    reads = [y for y in facts.walk(side) if
                             (y["k"] == "CXXMemberCallExpr" and y.get("cname") == field and len(y["c"]) == 1 and strip_this(y)) or
                             (y["k"] == "MemberExpr" and y.get("isfield") and y.get("member") == field)]
                    if reads and facts.cval(other) is None:
                        bad = (op, l, r)
            seen_k[(short, field)] = seen_k.get((short, field), 0) + 1
            key = "%s:%s#%d" % (short, field, seen_k[(short, field)])
            if bad:
                rep.violation("R6-fresh-derived", key, facts.loc(f, x),
                              "`%s` is only stored when `%s %s %s`: the serialised value depends on what the field held before (it can "
                              "only grow or only shrink), so after the packet is edited the derived field goes stale"
                              % (field, facts.expr_str(bad[1]), bad[0], facts.expr_str(bad[2])))
            else:
                rep.ok("R6-fresh-derived", key, facts.loc(f, x), "not guarded by an ordering test on its own old value")
    if n < 40:
        rep.analysis_broken("only %d derived-field stores found in serialisers" % n)


def r10_mpls(db, rep):
    from vlib import ieval
    f = fn(db, "Tins::MPLS::write_serialization")
    en = db.enums.get("Tins::PDU::PDUType")
    if f is None or not en:
        rep.analysis_broken("MPLS::write_serialization / PDU::PDUType vanished")
        return
    mpls = [e["v"] for e in en["enumerators"] if e["name"] == "MPLS"]
    if not mpls:
        rep.analysis_broken("PDU::MPLS not found")
        return
    key = "MPLS::write_serialization:bottom-of-stack"
    bad = None
    n = 0
    try:
        for has_child in (0, 1):
            for t in (sorted(set(e["v"] for e in en["enumerators"])) if has_child else [0]):
                def tf(e, env, has_child=has_child, t=t):
                    k = e["k"]
                    if k == "ImplicitCastExpr" and e.get("ck") == "PointerToBoolean":
                        return 1 if "parent_pdu" in facts.expr_str(facts.inline_locals(f, e, all_types=True)) else has_child
                    if k == "CXXMemberCallExpr" and e.get("cname") == "pdu_type":
                        return t
                    if k == "CXXMemberCallExpr" and e.get("cname") in ("inner_pdu", "parent_pdu") and len(e["c"]) == 1:
                        return 1 if e["cname"] == "parent_pdu" else has_child
                    if k == "BinaryOperator" and e.get("op") in ("==", "!=") and any(
                            y["k"] in ("CXXNullPtrLiteralExpr", "GNUNullExpr") or facts.cval(y) == 0 for y in e["c"]) and \
                            any((facts.ty(f, y) or {}).get("k") == "ptr" for y in e["c"]):
                        other = [y for y in e["c"] if not (y["k"] in ("CXXNullPtrLiteralExpr", "GNUNullExpr") or facts.cval(y) == 0)]
                        nn = 1 if other and "parent_pdu" in facts.expr_str(facts.inline_locals(f, other[0], all_types=True)) else has_child
                        return int(nn != 0) if e["op"] == "!=" else int(nn == 0)
                    return None
                eff = ieval.trace(f, f["body"], {"__termfn2__": tf, "__db__": db})
                setb = any(k_ in ("call", "assign", "other") and any(
                    y["k"] == "CXXMemberCallExpr" and y.get("cname") == "bottom_of_stack" and len(y["c"]) == 2 and
                    any(facts.cval(z) == 1 for z in facts.walk(y["c"][1]))
                    for y in facts.walk(n_)) for k_, n_ in eff)
                want = (not has_child) or t != mpls[0]
                n += 1
                if setb != want and bad is None:
                    nm = [e_["name"] for e_ in en["enumerators"] if e_["v"] == t]
                    bad = ("with a parent and %s the bottom-of-stack bit is %s: %s" %
                           ("an inner layer of type %s" % (nm[0] if nm else t) if has_child else "no inner layer",
                            "set" if setb else "NOT set",
                            "the last label of the stack goes out with S = 0 and decoders keep reading the payload as further labels"
                            if want else "a label that is followed by another label claims to be the last one"))
    except ieval.Unknown as e:
        rep.undecided("R10-mpls-bottom", key, facts.loc(f), "outside the finite evaluator: %s" % e)
        return
    if bad:
        rep.violation("R10-mpls-bottom", key, facts.loc(f), bad)
    else:
        rep.ok("R10-mpls-bottom", key, facts.loc(f), "S set iff no label follows, for all %d cases" % n)


def r9_len(db, rep):
    from vlib import ieval
    for K, unit in (("Tins::ICMP", 4), ("Tins::ICMPv6", 8)):
        short = K.split("::")[-1]
        w = fn(db, K + "::write_serialization")
        ts = [h for h in db.fns_named(K + "::trailer_size") if h.get("body")]
        if w is None or not ts:
            rep.analysis_broken("%s::write_serialization / trailer_size vanished" % short)
            continue
        t = ts[0]
        stores = [x for x in facts.fn_nodes(w) if x["k"] == "BinaryOperator" and x.get("op") == "=" and
                  facts.expr_str(x["c"][0]).replace("this->", "").endswith("rfc4884.length")]
        key = "%s:length-field" % short
        if not stores:
            rep.violation("R9-rfc4884-length", key, facts.loc(w), "write_serialization no longer stores the RFC 4884 length field")
            continue
        st = stores[-1]
        region = None
        for top in [x for x in w["body"].get("c", []) if x is not None]:
            if any(y is st for y in facts.walk(top)):
                region = top
        if region is None:
            rep.analysis_broken("%s: the statement that derives the length field was not found at the top level of write_serialization" % short)
            continue

        def mk(A, S, E):
            def tf(e, env):
                if e["k"] == "CXXMemberCallExpr":
                    cn = e.get("cname")
                    if cn in ("has_extensions", "are_extensions_allowed"):
                        return 1
                    if cn == "length" and len(e["c"]) == 1:
                        return 1
                    if cn == "get_adjusted_inner_pdu_size":
                        return A
                    if cn == "size" and len(e["c"]) == 1:
                        inner = any(y["k"] == "CXXMemberCallExpr" and y.get("cname") == "inner_pdu" for y in facts.walk(e["c"][0]))
                        return S if inner else E
                    if cn == "inner_pdu" and len(e["c"]) == 1:
                        return 1
                if e["k"] == "ImplicitCastExpr" and e.get("ck") == "PointerToBoolean":
                    return 1
                return None
            return tf
        bad = None
        try:
            for A in (4, 8, 64, 120, 128, 136, 280):
                S, E = A, 12
                fin = {}
                ieval.trace(w, region, {"__termfn2__": mk(A, S, E), "__db__": db}, final=fin)
                fin["__termfn2__"] = mk(A, S, E)
                L = ieval.ev(w, st["c"][1], fin) & 0xff
                out = ieval.run_body(t, t["body"], {"__termfn2__": mk(A, S, E), "__db__": db})
                if out is None:
                    raise ieval.Unknown("trailer_size returns nothing")
                start = out - E + S
                if L * unit != start:
                    bad = ("with a quoted datagram of %d octets and extensions present, trailer_size() places the extension structure %d octets "
                           "into the body but the length field says %d x %d = %d: a dissector, which finds the structure only through that "
                           "field, looks at padding instead of the extension header" % (A, start, L, unit, L * unit))
                    break
        except ieval.Unknown as e:
            rep.undecided("R9-rfc4884-length", key, facts.loc(w, st), "outside the finite evaluator: %s" % e)
            continue
        if bad:
            rep.violation("R9-rfc4884-length", key, facts.loc(w, st), bad)
        else:
            rep.ok("R9-rfc4884-length", key, facts.loc(w, st), "length x %d == start of the extension structure for 7 sample sizes" % unit)


def r8_inputs(db, rep):
    # the getters the pseudo-header calls read, by resolved callee: (class, getter name)
    getters = {}
    for q, proto in PRODUCERS:
        f = fn(db, q)
        if f is None:
            continue
        fns_ = [f] + [h for h in (db.functions.get(c.get("callee")) for c in facts.fn_nodes(f) if c["k"] == "CallExpr" and c.get("callee"))
                      if h is not None and h.get("body") and not h.get("rec")]
        for h in fns_:
            for n in facts.fn_nodes(h):
                if n["k"] == "CallExpr" and n.get("cname") == "pseudoheader_checksum":
                    for a in n["c"][1:3]:
                        for x in facts.walk(a):
                            if x["k"] == "CXXMemberCallExpr" and x.get("callee"):
                                g_ = db.fn(x["callee"])
                                if g_ is not None and g_.get("rec") and g_.get("body"):
                                    getters.setdefault(g_["rec"], {})[g_["qual"].split("::")[-1]] = g_
    n_cls = 0
    for K, gs in sorted(getters.items()):
        w = [h for h in db.functions.values() if h.get("rec") == K and h.get("body") and h["qual"].endswith("::write_serialization")]
        if not w:
            continue
        w = w[0]
        n_cls += 1
        fields = set()
        for g_ in gs.values():
            for x in facts.fn_nodes(g_):
                if x["k"] == "MemberExpr" and x.get("isfield") and x.get("member") and x["member"] != "header_":
                    fields.add(x["member"])
        bad = None
        for x in facts.fn_nodes(w):
            if x["k"] in ("BinaryOperator", "CompoundAssignOperator") and (x["k"] == "CompoundAssignOperator" or x.get("op") == "="):
                l = facts.strip_all(x["c"][0])
                if l["k"] == "MemberExpr" and l.get("member") in fields:
                    bad = (x, "assigns `%s`" % facts.expr_str(l))
            if x["k"] == "CXXOperatorCallExpr" and x.get("op") == "=" and len(x["c"]) == 3:
                l = facts.strip_all(x["c"][1])
                if l["k"] == "MemberExpr" and l.get("member") in fields:
                    bad = (x, "assigns `%s`" % facts.expr_str(l))
            if x["k"] == "CXXMemberCallExpr" and x.get("cname") in gs and len(x["c"]) == 2:
                me = facts.strip_all(x["c"][0])
                obj = facts.strip_all(me["c"][0]) if me.get("c") else None
                if obj is None or obj["k"] == "CXXThisExpr":
                    bad = (x, "calls the setter %s(...)" % x["cname"])
        key = "%s::write_serialization" % K.split("::")[-1]
        if bad:
            rep.violation("R8-pseudo-inputs-final", key, facts.loc(w, bad[0]),
                          "%s %s, which the inner layer's pseudo-header (%s) has already read: PDU::serialize runs a layer's "
                          "write_serialization AFTER its inner layers', so the transport checksum was computed with the old value and does "
                          "not verify against the header that is written (derive it in prepare_for_serialize, which runs before)"
                          % (key, bad[1], ", ".join(sorted(gs))))
        else:
            rep.ok("R8-pseudo-inputs-final", key, facts.loc(w), "does not touch %s (read by the children's pseudo-header)" % sorted(fields))
    if n_cls < 2:
        rep.analysis_broken("pseudo-header parents not found (%d): IP and IPv6 expected" % n_cls)


def r7_immediate(db, rep):
    from rules import c15
    tags = set(k for k, v in c15.DERIVED_FIELDS.items() if "tag" in v)
    n = 0
    done = set()
    for (rec, fld) in sorted(tags):
        if rec in done:
            continue
        done.add(rec)
        from rules import c02
        w = c02.final(db, rec, "write_serialization", "(unsigned char *, unsigned int)")
        if w is None:
            continue
        n += 1
        key = "%s::write_serialization" % rec.split("::")[-1]
        bad = None
        for x in facts.fn_nodes(w):
            if x["k"] == "CXXMemberCallExpr" and x.get("cname") in ("find_pdu", "rfind_pdu") and strip_this(x):
                bad = x
        if bad is not None:
            rep.violation("R7-immediate-child", key, facts.loc(w, bad),
                          "`%s` searches the whole chain below this layer: with a tunnel (e.g. IPv6 over IPv4 inside) the tag describes a "
                          "deeper layer, not the one that follows the header" % facts.expr_str(bad)[:60])
        else:
            rep.ok("R7-immediate-child", key, facts.loc(w), "no chain search in the serialiser: tags come from inner_pdu()")
    if n < 8:
        rep.analysis_broken("only %d tag-deriving serialisers found" % n)
