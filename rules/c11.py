"""C11 - RadioTap fields (DESIGN.md C11; structural part).

The behaviour of the in-place editor over setter orders is value-level and NOT decided.  Decided:

 R1 field-table   for every RadioTap field setter: the present flag it writes, the number of bytes it encodes and
                  RADIOTAP_METADATA[bit(flag)].size agree, and the table's alignment is the natural alignment of the
                  encoded representation; for every getter: same flag as the setter of the same field, decode width equal
                  to the table size.
 R2 shared-table  the writer takes sizes and alignments only from RADIOTAP_METADATA and aligns relative to the start of
                  the RadioTap header (offset + sizeof(uint32_t)) on the insertion and the re-padding path; the parser
                  aligns relative to the same origin.
 R3 derived       it_len is stored from header_size() before the header is written; header_size() = fixed header +
                  options payload; the FCS trailer is decided by the same flag test in trailer_size() and the parser
                  constructor.
 R5 repad-step    in update_paddings, for every (existing, needed) padding pair the erase/insert chosen by the
                  comparison chain leaves exactly `needed` bytes of padding (finite evaluation of the chain over 0..15 x 0..7).
 R6 repad-cursor  update_paddings walks a per-byte alignment vector (index i) and the buffer (offset) in parallel: with the
                  ghost displacement D = bytes inserted - erased so far, `offset == offset0 + i + D` is an inductive loop
                  invariant and every use of offset (alignment origin, erase/insert position) denotes index `start`.
                  Checked by affine symbolic tracking of one iteration (vlib/affine.py).
 R4 present       on every path of RadioTapWriter::write_option that inserts a field, the field's bit is OR-ed into the
                  present word afterwards; the overwrite path is taken only for a field already present.
"""
from vlib import facts, cfg
from vlib.facts import strip

PID = "C11"

GETTER_OF = {          # setter name -> getter names (field views)
    "channel": ["channel_freq", "channel_type"],
}


def flag_consts(f):
    return [n for n in facts.fn_nodes(f) if n["k"] == "DeclRefExpr" and (n.get("enumc") or "").startswith("Tins::RadioTap::")
            and (facts.ty(f, n) or {}).get("name") == "Tins::RadioTap::PresentFlags"]


def scalar_natural(db, f, t):
    """natural alignment (largest scalar) of type t"""
    if t is None:
        return None
    k = t.get("k")
    if k in ("int", "bool", "enum"):
        return (t.get("w") or 8) // 8
    if k == "arr":
        return scalar_natural(db, f, t.get("to"))
    if k == "rec":
        r = db.records.get(t.get("name"))
        if not r:
            return None
        best = 1
        for fl in r.get("fields", []):
            a = scalar_natural(db, r, facts.tyi(r, fl["t"]))
            if a is None:
                return None
            best = max(best, a)
        return best
    return None


def metadata(db):
    g = db.globals.get("g:Tins::Utils::RadioTapParser::RADIOTAP_METADATA")
    if g is None or not g.get("init"):
        return None, None
    rows = []
    for row in g["init"].get("c", []):
        vals = []
        for x in row.get("c", []):
            v = facts.cval(x)
            vals.append(v)
        if len(vals) != 2 or None in vals:
            return None, g
        rows.append(tuple(vals))
    return rows, g


def run(db, rep, tier):
    rep.rule("R1-field-table", "setter flag/length, getter flag/width and RADIOTAP_METADATA agree; alignment is natural", 40)
    rep.rule("R2-shared-table", "writer and parser take size/alignment from the table and align from the header start", 6)
    rep.rule("R3-derived", "it_len and the FCS trailer are derived at serialisation", 4)
    rep.rule("R4-present", "an inserted field's bit is recorded in the present word", 2)
    rep.rule("R6-repad-cursor", "in update_paddings the running offset is the buffer position of the padding run being fixed", 3)
    rep.rule("R5-repad-step", "one re-padding step leaves exactly the needed padding in front of the field", 1)
    rows, g = metadata(db)
    if rows is None:
        rep.analysis_broken("RADIOTAP_METADATA initialiser not readable")
        return
    en = db.enums.get("Tins::RadioTap::PresentFlags")
    flagval = dict((x["qual"], x["v"]) for x in en["enumerators"])
    r1(db, rep, rows, g)
    r2(db, rep)
    r3(db, rep)
    r3_flag_rejections(db, rep)
    r4(db, rep)
    r5(db, rep)
    r6(db, rep)
    rep.rule("R7-insert-position", "a new field is inserted at the position the field walk stopped at (right behind the last lower-numbered "
                                   "field), or at 0 in an empty buffer - never at the end of the buffer, which may hold trailing pad bytes", 1)
    r7(db, rep)
    rep.extra["table_rows"] = len(rows)
    rep.explanation = ("Structural part of C11: per-field agreement of setter, getter and the shared size/alignment table (incl. natural "
                       "alignment of each settable field), the writer's and parser's use of that table with the RadioTap header start as "
                       "alignment origin, derivation of it_len/FCS at serialisation, and recording of the present bit on every inserting "
                       "path. NOT decided: the in-place editor's behaviour over setter orders (re-padding arithmetic in update_paddings), "
                       "last-write-wins over sequences, canonical layout of the payload - these quantify over histories/values.")


def setter_facts(db, f):
    """(flag name, flag value, encoded length, natural alignment, how) or None"""
    for n in facts.fn_nodes(f):
        if n["k"] == "CallExpr" and n.get("cname") == "add_integral_option":
            args = n["c"][1:]
            fl = strip(args[1])
            if fl["k"] != "DeclRefExpr" or "enumc" not in fl:
                return None
            t = facts.ty(f, args[2])
            if not t or t.get("k") not in ("int", "bool", "enum"):
                return None
            sz = t["w"] // 8
            return fl["enumc"], fl["v"], sz, sz, "add_integral_option<%s>" % t.get("s")
    # the option built in the setter itself, or in a free helper (template instance) the setter hands flag and value to:
    # the helper's parameters stand for the setter's arguments
    where = [(f, {})]
    for _ in range(2):
        for (h0, b0) in list(where):
            for c in facts.fn_nodes(h0):
                if c["k"] == "CallExpr" and c.get("callee") and not c.get("ext"):
                    h1 = db.fn(c["callee"])
                    if h1 is not None and h1.get("body") and not h1.get("rec") and not any(h1 is w_[0] for w_ in where):
                        b1 = {}
                        for p_, a_ in zip(h1.get("params", ()), c["c"][1:]):
                            a0 = strip(a_)
                            b1[p_["var"]] = b0.get(a0.get("var"), a0) if a0["k"] == "DeclRefExpr" else a0
                        where.append((h1, b1))
    for (f, bind) in where:
      for n in facts.fn_nodes(f):
        if n["k"] in ("CXXTemporaryObjectExpr", "CXXConstructExpr") and (n.get("crec") or "").startswith("Tins::PDUOption<Tins::RadioTap::PresentFlags"):
            a = n.get("c", [])
            if len(a) >= 3:
                fl = strip(a[0])
                if fl["k"] == "DeclRefExpr" and fl.get("var") in bind:
                    fl = bind[fl["var"]]
                ln = facts.cval(a[1])
                if fl["k"] == "DeclRefExpr" and "enumc" in fl and ln is not None:
                    nat = 1
                    for mc in facts.fn_nodes(f):
                        if mc["k"] == "CallExpr" and mc.get("cname") == "memcpy":
                            src = facts.strip_all(mc["c"][2])
                            if src["k"] == "UnaryOperator" and src.get("op") == "&":
                                st_ = facts.ty(f, src["c"][0])
                                while st_ and st_.get("k") == "ref" and st_.get("to"):
                                    st_ = st_["to"] if isinstance(st_["to"], dict) else facts.tyi(f, st_["to"])
                                a_ = scalar_natural(db, f, st_)
                                if a_ is None:
                                    return None
                                nat = max(nat, a_)
                        # the same bytes produced through the cursor: stream.write / write_le / write_be of a scalar
                        if mc["k"] == "CXXMemberCallExpr" and mc.get("crec") == "Tins::Memory::OutputMemoryStream" and \
                                mc.get("cname") in ("write", "write_le", "write_be") and len(mc["c"]) == 2:
                            tt = facts.ty(f, facts.strip(mc["c"][1]))
                            while tt and tt.get("k") == "ref" and tt.get("to"):
                                tt = tt["to"]
                            a_ = scalar_natural(db, f, tt)
                            if a_ is None:
                                return None
                            nat = max(nat, a_)
                    return fl["enumc"], fl["v"], ln, nat, "option(flag, %d, buffer)" % ln
    return None


def setter_slots(db, f):
    """[(offset, width)] of the scalars a buffer-building setter lays out (memcpy(buffer + off, &x, n) or consecutive
    cursor writes), or None when the setter is not of that form / not readable"""
    slots = []
    soff = 0
    for n in sorted(facts.fn_nodes(f), key=lambda x: (x.get("l") or 0, x["id"])):
        if n["k"] == "CallExpr" and n.get("cname") == "memcpy":
            src = facts.strip_all(n["c"][2])
            if not (src["k"] == "UnaryOperator" and src.get("op") == "&"):
                continue
            ln = facts.cval(n["c"][3])
            dst = facts.strip_all(n["c"][1])
            off = 0
            if dst["k"] == "BinaryOperator" and dst.get("op") == "+":
                off = facts.cval(dst["c"][1])
            if ln is None or off is None:
                return None
            slots.append((off, ln))
        elif n["k"] == "CXXMemberCallExpr" and n.get("crec") == "Tins::Memory::OutputMemoryStream" and \
                n.get("cname") in ("write", "write_le", "write_be") and len(n["c"]) == 2:
            tt = facts.ty(f, facts.strip(n["c"][1]))
            while tt and tt.get("k") == "ref" and tt.get("to"):
                tt = tt["to"]
            if not tt or tt.get("k") not in ("int", "bool", "enum"):
                return None
            slots.append((soff, tt["w"] // 8))
            soff += tt["w"] // 8
    return slots or None


def getter_facts(db, f):
    """(flag name, flag value, [(offset, width)]) or None"""
    fl = None
    for n in facts.fn_nodes(f):
        if n["k"] == "CXXMemberCallExpr" and n.get("cname") == "do_find_option":
            a = strip(n["c"][1])
            if a["k"] == "DeclRefExpr" and "enumc" in a:
                fl = (a["enumc"], a["v"])
    if fl is None:
        return None
    reads = []
    # (a free helper the option is handed to - `read_raw_option<T>(opt)` - reads on the getter's behalf)
    helpers = [h for h in (db.fn(c.get("callee")) for c in facts.fn_nodes(f) if c["k"] == "CallExpr" and c.get("callee") and not c.get("ext"))
               if h is not None and h.get("body") and not h.get("rec") and
               any("PDUOption<Tins::RadioTap::PresentFlags" in ((facts.tyi(h, p_.get("t")) or {}).get("s") or "") for p_ in h.get("params", ()))]
    for own_, n in [(h, x) for h in helpers for x in facts.fn_nodes(h)] + [(f, x) for x in facts.fn_nodes(f)]:
        if n["k"] == "CXXMemberCallExpr" and n.get("cname") == "to":
            t = facts.ty(own_, n)
            if t and t.get("k") in ("int", "bool", "enum"):
                reads.append((0, t["w"] // 8, "to<%s>" % t.get("s")))
        if n["k"] == "CallExpr" and n.get("cname") == "memcpy":
            ln = facts.cval(n["c"][3])
            src = facts.strip_all(n["c"][2])
            off = 0
            if src["k"] == "BinaryOperator" and src.get("op") == "+":
                off = facts.cval(src["c"][1])
            if ln is None or off is None:
                return None
            reads.append((off, ln, "memcpy(%d@%d)" % (ln, off)))
    # the same reads through the cursor: skip(k) moves on, read<T>() / read_le<T>() / read_be<T>() reads sizeof(T) there
    soff = 0
    for n in sorted([x for x in facts.fn_nodes(f) if x["k"] == "CXXMemberCallExpr" and x.get("crec") == "Tins::Memory::InputMemoryStream"],
                    key=lambda x: (x.get("l") or 0, x["id"])):
        if n.get("cname") == "skip" and len(n["c"]) == 2:
            k_ = facts.cval(n["c"][1])
            if k_ is None:
                return None
            soff += k_
        elif n.get("cname") in ("read", "read_le", "read_be") and len(n["c"]) == 1:
            t = facts.ty(f, n)
            if not t or t.get("k") not in ("int", "bool", "enum"):
                return None
            reads.append((soff, t["w"] // 8, "%s<%s>@%d" % (n["cname"], t.get("s"), soff)))
            soff += t["w"] // 8
    if not reads:
        return None
    return fl[0], fl[1], reads


def r1(db, rep, rows, g):
    methods = {}
    for fid, f in db.functions.items():
        if f.get("rec") == "Tins::RadioTap" and f["kind"] == "method":
            methods.setdefault(f["qual"].split("::")[-1], []).append(f)
    site_t = "%s:%s" % (g["file"], g["line"])
    setters = {}
    for nm, fs in sorted(methods.items()):
        for f in fs:
            if f["id"].endswith(" const") or not f["params"]:
                continue
            sf = setter_facts(db, f)
            if sf is None:
                continue
            setters[nm] = (f, sf)
    if len(setters) < 14:
        rep.analysis_broken("only %d RadioTap field setters recognised (14 expected): %s" % (len(setters), sorted(setters)))
    for nm, (f, (flag, fv, ln, nat, how)) in sorted(setters.items()):
        bit = fv.bit_length() - 1
        short = flag.split("::")[-1]
        key = "set:%s" % nm
        if fv & (fv - 1) or bit >= len(rows):
            rep.violation("R1-field-table", key, facts.loc(f), "flag %s (0x%x) has no row in RADIOTAP_METADATA" % (short, fv))
            continue
        size, align = rows[bit]
        if ln != size:
            rep.violation("R1-field-table", key, facts.loc(f),
                          "%s() encodes %d byte(s) for %s (%s) but RADIOTAP_METADATA[%d].size is %d: the writer inserts %d bytes where parser and re-padding assume %d"
                          % (nm, ln, short, how, bit, size, ln, size))
        else:
            rep.ok("R1-field-table", key, facts.loc(f), "%s: %d bytes via %s == table size" % (short, ln, how))
        keya = "align:%s" % short
        if align != nat:
            rep.violation("R1-field-table", keya, site_t,
                          "RADIOTAP_METADATA[%d] (%s) has alignment %d; the field's encoded representation (%s) is naturally aligned to %d"
                          % (bit, short, align, how, nat))
        else:
            rep.ok("R1-field-table", keya, site_t, "%s: alignment %d is the natural alignment of %s" % (short, align, how))
        # getters of the same field
        for gn in GETTER_OF.get(nm, [nm]):
            gs = [x for x in methods.get(gn, []) if x["id"].endswith(" const") and not x["params"]]
            keyg = "get:%s" % gn
            if not gs:
                rep.violation("R1-field-table", keyg, facts.loc(f), "no getter %s() for the field set by %s()" % (gn, nm))
                continue
            gf = getter_facts(db, gs[0])
            if gf is None:
                rep.violation("R1-field-table", keyg, facts.loc(gs[0]), "%s() does not read its field through do_find_option(<flag>)" % gn)
                continue
            gflag, gv, reads = gf
            if gv != fv:
                rep.violation("R1-field-table", keyg, facts.loc(gs[0]),
                              "%s() reads %s but %s() writes %s" % (gn, gflag.split("::")[-1], nm, short))
                continue
            bad = [r for r in reads if r[0] + r[1] > size or (len(reads) == 1 and gn == nm and r[1] != size)]
            slots = setter_slots(db, f) if how.startswith("option(") else None
            if not bad and slots and len(slots) > 1:
                # a field made of several scalars: each getter decodes one of the scalars the setter laid out
                bad = [r for r in reads if (r[0], r[1]) not in slots]
                if bad:
                    rep.violation("R1-field-table", keyg, facts.loc(gs[0]),
                                  "%s() decodes %s of %s, but %s() lays the field out as %s: the getter straddles / misses the value"
                                  % (gn, bad[0][2], short, nm, slots))
                    continue
            if bad:
                rep.violation("R1-field-table", keyg, facts.loc(gs[0]),
                              "%s() decodes %s of %s, whose table size is %d" % (gn, bad[0][2], short, size))
            else:
                rep.ok("R1-field-table", keyg, facts.loc(gs[0]), "%s via %s within %d bytes" % (short, ",".join(r[2] for r in reads), size))
    # generic sanity of every row
    for i, (size, align) in enumerate(rows):
        key = "row:%d" % i
        if align <= 0 or align & (align - 1) or size <= 0 or align > size:
            rep.violation("R1-field-table", key, site_t, "row %d {%d, %d}: alignment must be a power of two not larger than the size" % (i, size, align))
        else:
            rep.ok("R1-field-table", key, site_t, "{%d, %d}" % (size, align))


def mentions(f, n, names, depth=0):
    """does the expression (with single-assignment locals expanded) read one of the named members?"""
    for x in facts.walk(n):
        if x["k"] == "MemberExpr" and x.get("member") in names:
            return True
        if x["k"] == "DeclRefExpr" and x.get("var") and depth < 4:
            for v in facts.fn_nodes(f):
                if v["k"] == "VarDecl" and v.get("var") == x["var"] and v.get("c") and mentions(f, v["c"][0], names, depth + 1):
                    return True
    return False


def r2(db, rep):
    wfile = "src/utils/radiotap_writer.cpp"
    fns = [f for f in db.functions.values() if f["file"] == wfile]
    if not fns:
        rep.analysis_broken("no functions from %s" % wfile)
        return
    n_calls = 0
    for f in fns:
        locals_init = {}
        for n in facts.fn_nodes(f):
            if n["k"] == "VarDecl" and n.get("c"):
                locals_init[n["var"]] = n["c"][0]
        for n in facts.fn_nodes(f):
            if n["k"] == "CallExpr" and n.get("cname") == "calculate_padding":
                n_calls += 1
                a0, a1 = n["c"][1], n["c"][2]
                key = "%s:calculate_padding#%d" % (f["qual"].split("::")[-1], n_calls)
                # alignment operand: meta.alignment or an element of the padding vector
                okal = mentions(f, a0, ("alignment",)) or any(x["k"] == "CXXOperatorCallExpr" and x.get("op") == "[]" and
                                                              "paddings" in facts.expr_str(x) for x in facts.walk(a0))
                a1s = strip(a1)
                okorg = a1s["k"] == "BinaryOperator" and a1s.get("op") == "+" and \
                    (facts.cval(a1s["c"][1]) == 4 or facts.cval(a1s["c"][0]) == 4)
                if not okal:
                    rep.violation("R2-shared-table", key, facts.loc(f, n), "alignment `%s` does not come from RADIOTAP_METADATA" % facts.expr_str(a0)[:60])
                elif not okorg:
                    rep.violation("R2-shared-table", key, facts.loc(f, n),
                                  "padding is computed for offset `%s`, not relative to the RadioTap header start (offset + sizeof(uint32_t))" % facts.expr_str(a1)[:60])
                else:
                    rep.ok("R2-shared-table", key, facts.loc(f, n), "alignment from the table, origin = payload offset + 4")
        # padding vector is built from the table only
        if f["qual"].endswith("build_padding_vector"):
            pushes = [n for n in facts.fn_nodes(f) if n["k"] == "CXXMemberCallExpr" and n.get("cname") == "push_back"]
            key = "build_padding_vector:entries"
            good = any(mentions(f, p, ("alignment",)) for p in pushes)
            sizes = [n for n in facts.fn_nodes(f) if n["k"] == "MemberExpr" and n.get("member") == "size" and n.get("isfield")]
            if good and len(sizes) >= 2:
                rep.ok("R2-shared-table", key, facts.loc(f), "alignment entries and field extents come from meta.alignment / meta.size")
            else:
                rep.violation("R2-shared-table", key, facts.loc(f), "the padding vector is not built from RADIOTAP_METADATA's size and alignment")
        if f["qual"].endswith("write_option"):
            key = "write_option:skip-by-table"
            # (the scan may live in a helper that receives the insertion pointer by reference)
            hits = facts.lifted_sites(db, f, lambda h_, n, txt: n["k"] == "BinaryOperator" and n.get("op") == "=" and
                                      txt(n["c"][0]) == "candidate_ptr", must=False)
            adv = [m for (_, m, h_) in hits]
            if adv and all(mentions(h_, m["c"][1], ("size",)) for (_, m, h_) in hits):
                rep.ok("R2-shared-table", key, facts.loc(f, hits[0][0]), "lower fields are skipped by meta.size")
            else:
                rep.violation("R2-shared-table", key, facts.loc(f), "the insertion point is not advanced by RADIOTAP_METADATA[bit].size")
    if n_calls < 1:
        rep.analysis_broken("expected calculate_padding on the insertion path (and the re-padding path), found %d call(s)" % n_calls)
    # parser: align relative to start_ - 4, alignment from table
    fs = db.fns_named("Tins::Utils::RadioTapParser::advance_to_next_field")
    if not fs:
        rep.analysis_broken("RadioTapParser::advance_to_next_field vanished")
        return
    f = fs[0]
    calls = [n for n in facts.fn_nodes(f) if n["k"] == "CallExpr" and n.get("cname") == "align_buffer"]
    key = "parser:align"
    if not calls:
        rep.violation("R2-shared-table", key, facts.loc(f), "fields are no longer aligned while parsing")
    else:
        n = calls[0]
        a_start, a_n = n["c"][1], n["c"][3]
        init = None
        s0 = facts.strip_all(a_start)
        if s0["k"] == "DeclRefExpr":
            for v in facts.fn_nodes(f):
                if v["k"] == "VarDecl" and v.get("var") == s0.get("var") and v.get("c"):
                    init = facts.strip_all(v["c"][0])
        else:
            init = s0
        okorg = init is not None and init["k"] == "BinaryOperator" and init.get("op") == "-" and facts.cval(init["c"][1]) == 4 \
            and "start_" in facts.expr_str(init["c"][0])
        okal = mentions(f, a_n, ("alignment",))
        if okorg and okal:
            rep.ok("R2-shared-table", key, facts.loc(f, n), "align_buffer(start_ - 4, ..., RADIOTAP_METADATA[bit].alignment)")
        else:
            rep.violation("R2-shared-table", key, facts.loc(f, n), "parser alignment origin/amount is not (start_ - sizeof(uint32_t), table alignment)")
    # wherever the parser moves its cursor past a field (in whichever method that code lives), it moves by the table's size
    advs = []
    for f in db.functions.values():
        if f.get("rec") == "Tins::Utils::RadioTapParser" and f.get("body"):
            for n in facts.fn_nodes(f):
                if n["k"] == "CompoundAssignOperator" and n.get("op") == "+=" and facts.expr_str(n["c"][0]).replace("this->", "") == "current_ptr_":
                    advs.append((f, n))
    if not advs:
        rep.analysis_broken("RadioTapParser: no `current_ptr_ += ...` found (the parser's step over a field)")
    else:
        badv = [(f, n) for f, n in advs if not mentions(f, n["c"][1], ("size",))]
        if badv:
            rep.violation("R2-shared-table", "parser:skip", facts.loc(badv[0][0], badv[0][1]), "the parser does not skip a field by its table size")
        else:
            rep.ok("R2-shared-table", "parser:skip", facts.loc(advs[0][0], advs[0][1]), "current_ptr_ += RADIOTAP_METADATA[bit].size (%d site(s))" % len(advs))


def r3(db, rep):
    fs = db.fns_named("Tins::RadioTap::write_serialization")
    if not fs:
        rep.analysis_broken("RadioTap::write_serialization vanished")
        return
    f = fs[0]
    g = cfg.FnCFG(f)
    store = [n for n in facts.fn_nodes(f) if n["k"] == "BinaryOperator" and n.get("op") == "=" and
             facts.expr_str(n["c"][0]).endswith("it_len")]
    writes = [n for n in facts.fn_nodes(f) if n["k"] == "CXXMemberCallExpr" and n.get("cname") == "write" and
              "header_" in facts.expr_str(n)]
    key = "it_len"
    # ... or through the class's own setter (`length(header_size())`): the setter's body is the store, its argument the value
    via_setter = None
    if not store:
        for c in facts.fn_nodes(f):
            if c["k"] == "CXXMemberCallExpr" and c.get("callee") and len(c["c"]) == 2:
                h = db.fn(c["callee"])
                if h is not None and h.get("body") and h.get("rec") == f.get("rec") and len(h.get("params", ())) == 1:
                    hs = [n for n in facts.fn_nodes(h) if n["k"] == "BinaryOperator" and n.get("op") == "=" and
                          facts.expr_str(n["c"][0]).endswith("it_len")]
                    if hs and any(x["k"] == "DeclRefExpr" and x.get("var") == h["params"][0]["var"] for x in facts.walk(hs[0]["c"][1])):
                        via_setter = (c, h, hs[0])
                        store = [c]
    if not store or not writes:
        rep.violation("R3-derived", key, facts.loc(f), "write_serialization does not store it_len and write the header")
    else:
        s = store[0]
        if via_setter:
            value = facts.inline_locals(f, via_setter[0]["c"][1])
            derived = any(x["k"] == "CXXMemberCallExpr" and x.get("cname") == "header_size" for x in facts.walk(value))
            le = any(x["k"] == "CallExpr" and x.get("cname") == "host_to_le" for x in facts.walk(via_setter[2]["c"][1]))
        else:
            value = facts.inline_locals(f, s["c"][1])
            derived = any(x["k"] == "CXXMemberCallExpr" and x.get("cname") == "header_size" for x in facts.walk(value))
            le = any(x["k"] == "CallExpr" and x.get("cname") == "host_to_le" for x in facts.walk(value))
        before = g.before_on_all_paths(g.pos(s), g.pos(writes[0]))
        if derived and le and before:
            rep.ok("R3-derived", key, facts.loc(f, s), "it_len = host_to_le(header_size()) dominates stream.write(header_)")
        else:
            rep.violation("R3-derived", key, facts.loc(f, s), "it_len is not stored from header_size() (little-endian) before the header is written")
    fs = db.fns_named("Tins::RadioTap::header_size")
    if fs:
        f = fs[0]
        from rules import c13
        e = c13.ret_expr(f)
        txt = facts.expr_str(e) if e is not None else ""
        e0 = strip(e) if e is not None else None
        ok = e0 is not None and e0["k"] == "BinaryOperator" and e0.get("op") == "+" and "options_payload_" in txt and \
            any(facts.cval(x) == 4 for x in e0["c"])
        (rep.ok if ok else rep.violation)("R3-derived", "header_size", facts.loc(f),
                                          "sizeof(header_) + options_payload_.size()" if ok else "header_size() is not fixed header + options payload: %s" % txt[:80])
    else:
        rep.analysis_broken("RadioTap::header_size vanished")
    # FCS flag test: trailer_size and the parsing constructor
    for nm, key in (("Tins::RadioTap::trailer_size", "fcs:trailer_size"), ("Tins::RadioTap::RadioTap", "fcs:constructor")):
        cands = [f for f in db.fns_named(nm) if any(n["k"] == "CXXMemberCallExpr" and n.get("cname") == "skip_to_field" for n in facts.fn_nodes(f))]
        if not cands:
            rep.violation("R3-derived", key, "src/radiotap.cpp", "%s no longer looks up the FLAGS field" % nm.split("::")[-1])
            continue
        f = cands[0]
        call = [n for n in facts.fn_nodes(f) if n["k"] == "CXXMemberCallExpr" and n.get("cname") == "skip_to_field"][0]
        a = strip(call["c"][1])
        masks = [n for n in facts.fn_nodes(f) if n["k"] == "BinaryOperator" and n.get("op") == "&" and
                 any(x["k"] == "DeclRefExpr" and x.get("enumc") == "Tins::RadioTap::FCS" for x in facts.walk(n))]
        if a.get("enumc") == "Tins::RadioTap::FLAGS" and masks:
            rep.ok("R3-derived", key, facts.loc(f, call), "tests FLAGS & FCS")
        else:
            rep.violation("R3-derived", key, facts.loc(f, call), "the FCS trailer is not decided by FLAGS & FCS")


def r3_flag_rejections(db, rep):
    """the parsing constructor may reject a header because of a FLAGS bit only when the bit's premise holds: a failed
    frame check sequence is only meaningful when an FCS is present (every value of flags() can be set and must be readable)"""
    from vlib import cond
    cands = [f for f in db.fns_named("Tins::RadioTap::RadioTap") if any(n["k"] == "CXXMemberCallExpr" and n.get("cname") == "skip_to_field" for n in facts.fn_nodes(f))]
    if not cands:
        return
    f = cands[0]
    g = cfg.FnCFG(f)
    for t in [n for n in facts.fn_nodes(f) if n["k"] == "CXXThrowExpr"]:
        gf = cond.guards_facts(g, g.pos(t))
        flagbits = set()
        for op, l, r in gf:
            for x in facts.walk(l):
                if x["k"] == "DeclRefExpr" and (x.get("enumc") or "").startswith("Tins::RadioTap::") and \
                        (facts.ty(f, x) or {}).get("name") == "Tins::RadioTap::FrameFlags":
                    flagbits.add(x["enumc"].split("::")[-1])
        if not flagbits:
            continue
        key = "constructor:reject(%s)" % "+".join(sorted(flagbits))
        if "FAILED_FCS" in flagbits and "FCS" not in flagbits:
            rep.violation("R3-derived", key, facts.loc(f, t),
                          "the parsing constructor rejects every header whose FLAGS has FAILED_FCS set, even without an FCS: flags() values with "
                          "bit 0x40 and without bit 0x10 can be set and serialised but the bytes cannot be parsed back")
        else:
            rep.ok("R3-derived", key, facts.loc(f, t), "rejection tests %s" % sorted(flagbits))


def r4(db, rep):
    fs = db.fns_named("Tins::Utils::RadioTapWriter::write_option")
    if not fs:
        rep.analysis_broken("RadioTapWriter::write_option vanished")
        return
    f = fs[0]
    g = cfg.FnCFG(f)
    inserts = [n for n in facts.fn_nodes(f) if n["k"] == "CXXMemberCallExpr" and n.get("cname") == "insert" and
               "data_ptr" in facts.expr_str(n)]
    # the two effects, written here or in a helper that always performs them (facts.lifted_sites):
    #   flags |= host_to_le(<the option's identifier>)      and      memcpy(<start of buffer_>, &flags, ...)
    def is_or(fn, n, txt):
        return n["k"] == "CompoundAssignOperator" and n.get("op") == "|=" and "option()" in txt(n["c"][1]).replace("option.option", "option") \
            and any(x["k"] == "CallExpr" and x.get("cname") == "host_to_le" for x in facts.walk(n["c"][1]))

    def is_or_any(fn, n, txt):
        return n["k"] == "CompoundAssignOperator" and n.get("op") == "|=" and "option()" in txt(n["c"][1]).replace("option.option", "option")

    def is_store(fn, n, txt):
        return n["k"] == "CallExpr" and n.get("cname") == "memcpy" and "&flags" in txt(n["c"][2]).replace(" ", "") and "buffer_" in txt(n["c"][1])
    ors = facts.lifted_sites(db, f, is_or)
    ors_any = facts.lifted_sites(db, f, is_or_any)
    stores = facts.lifted_sites(db, f, is_store)
    key = "write_option:insert-records-bit"
    if not inserts:
        rep.analysis_broken("write_option: insertion of the option data not found")
        return
    if not ors_any or not stores:
        rep.violation("R4-present", key, facts.loc(f), "write_option does not OR the option's bit into the present word and store it back")
    else:
        ins = inserts[0]
        # every path from the insertion to the exit passes the |= and the store (for a helper: the call that performs both)
        p_ins = g.pos(ins)
        p_or = [g.pos(x[0]) for x in ors_any]
        p_st = [g.pos(x[0]) for x in stores]
        ok1 = g.reaches_exit_avoiding(p_ins, p_or) is None
        ok2 = all(g.reaches_exit_avoiding(p_, p_st, inclusive=(p_ in p_st and False)) is None or p_ in p_st for p_ in p_or)
        if ok2:
            # inside one helper the order OR -> store is the helper's own: checked on its CFG
            for (c_, m_, h_) in ors_any:
                if h_ is not f:
                    gh = cfg.FnCFG(h_)
                    st_in = [y[1] for y in stores if y[2] is h_ and y[0] is c_]
                    if not st_in or gh.reaches_exit_avoiding(gh.pos(m_), [gh.pos(y) for y in st_in]) is not None:
                        ok2 = False
        le = bool(ors)
        if ok1 and ok2 and le:
            rep.ok("R4-present", key, facts.loc(f, ors[0][0]), "insert -> flags |= host_to_le(option.option()) -> store, on every path")
        else:
            rep.violation("R4-present", key, facts.loc(f, ins), "a path inserts the field without recording its bit in the present word")
    # overwrite path only when the parser's current field equals the option
    key = "write_option:overwrite-guard"
    # memcpy(dst, ...) / std::copy(first, last, dst) with dst = the parser's current option (named locals read through)
    def is_ow(h_, n, txt):
        return n["k"] == "CallExpr" and (
            (n.get("cname") in ("memcpy", "memmove") and "current_option_ptr" in facts.expr_str(facts.inline_locals(h_, n["c"][1]))) or
            (n.get("cname") in ("copy", "copy_n") and len(n["c"]) >= 4 and "current_option_ptr" in facts.expr_str(facts.inline_locals(h_, n["c"][3]))))
    ows = facts.lifted_sites(db, f, is_ow, must=False)
    if not ows:
        rep.violation("R4-present", key, facts.loc(f), "no in-place overwrite of a field that is already present: a repeated setter would insert a second copy")
        return
    from vlib import cond
    ow = [ows[0][1]]
    f = ows[0][2]          # the function the overwrite is written in (write_option or the scanning helper)
    g = g if f is fs[0] else cfg.FnCFG(f)
    gf = cond.guards_facts(g, g.pos(ow[0]))
    okg = any(op == "==" and r is not None and "current_field" in facts.expr_str(l) + facts.expr_str(r) and
              "option" in facts.expr_str(l) + facts.expr_str(r) for op, l, r in gf)
    if okg:
        rep.ok("R4-present", key, facts.loc(f, ow[0]), "overwrite happens under current_field() == option.option()")
    else:
        rep.violation("R4-present", key, facts.loc(f, ow[0]), "the in-place overwrite is not guarded by current_field() == option.option()")


def iter_offset(f, n, env):
    """integer distance of a `begin() + a + b` iterator expression from begin()"""
    from vlib import ieval
    k = n["k"]
    if k in ("CXXConstructExpr", "MaterializeTemporaryExpr", "ImplicitCastExpr", "ExprWithCleanups", "CXXBindTemporaryExpr", "ParenExpr"):
        return iter_offset(f, n["c"][0], env)
    if k == "CXXOperatorCallExpr" and n.get("op") in ("+", "-"):
        a = iter_offset(f, n["c"][1], env)
        b = ieval.ev(f, n["c"][2], env)
        return a + b if n["op"] == "+" else a - b
    if k == "CXXMemberCallExpr" and n.get("cname") == "begin":
        return 0
    raise ieval.Unknown("iterator expression %s" % k)


def r5_call(db, rep):
    """write_option re-pads what FOLLOWS the field it has just inserted: the offset it hands to update_paddings is the
    insertion offset plus the new field's own leading padding plus its size"""
    fs = db.fns_named("Tins::Utils::RadioTapWriter::write_option")
    if not fs:
        return
    f = fs[0]
    calls = [x for x in facts.fn_nodes(f) if x["k"] == "CXXMemberCallExpr" and x.get("cname") == "update_paddings" and len(x["c"]) == 3]
    if not calls:
        return
    pads = set(n["var"] for n in facts.fn_nodes(f) if n["k"] == "VarDecl" and n.get("c") and
               any(x["k"] == "CallExpr" and x.get("cname") == "calculate_padding" for x in facts.walk(n["c"][0])))
    a = facts.inline_locals(f, calls[0]["c"][2], kinds=())
    has_pad = any(x["k"] == "DeclRefExpr" and x.get("var") in pads for x in facts.walk(calls[0]["c"][2])) or \
        any(x["k"] == "CallExpr" and x.get("cname") == "calculate_padding" for x in facts.walk(facts.inline_locals(f, calls[0]["c"][2])))
    has_size = "data_size" in facts.expr_str(facts.inline_locals(f, calls[0]["c"][2]))
    key = "write_option:repad-from"
    if has_pad and has_size:
        rep.ok("R5-repad-step", key, facts.loc(f, calls[0]), "update_paddings starts after offset + own padding + size of the new field")
    else:
        rep.violation("R5-repad-step", key, facts.loc(f, calls[0]),
                      "the offset handed to update_paddings leaves out %s: the re-padding pass believes every following field sits that many "
                      "octets earlier than it does and inserts / erases padding at the wrong place" %
                      ("the new field's own leading padding" if not has_pad else "the new field's size"))


def r5(db, rep):
    r5_call(db, rep)
    from vlib import ieval
    fs = db.fns_named("Tins::Utils::RadioTapWriter::update_paddings")
    if not fs:
        rep.analysis_broken("RadioTapWriter::update_paddings vanished")
        return
    f = fs[0]
    needed = existing = None
    for n in facts.fn_nodes(f):
        if n["k"] == "VarDecl" and n.get("c"):
            if any(x["k"] == "CallExpr" and x.get("cname") == "calculate_padding" for x in facts.walk(n["c"][0])):
                needed = n
    if needed is None:
        # not through calculate_padding: the variable computed from the field's alignment (an element of the padding vector)
        # and the running offset is the needed padding - its formula is judged below by evaluation
        for n in facts.fn_nodes(f):
            if n["k"] == "VarDecl" and n.get("c") and (facts.tyi(f, n.get("t")) or {}).get("k") == "int" and \
                    any(x["k"] == "CXXOperatorCallExpr" and x.get("op") == "[]" and "paddings" in facts.expr_str(x) for x in facts.walk(n["c"][0])) and \
                    any(x["k"] in ("BinaryOperator",) and x.get("op") in ("%", "&", "-") for x in facts.walk(n["c"][0])):
                needed = n
    if needed is None:
        rep.analysis_broken("update_paddings: the needed padding is not computed with calculate_padding")
        return
    # the formula: for alignment a and a field that would start at header offset o + 4, (a - (o + 4) % a) % a
    okf = None
    try:
        for a_ in (1, 2, 4, 8):
            for o_ in range(0, 17):
                def tf(x, env, a_=a_):
                    if x["k"] == "CXXOperatorCallExpr" and x.get("op") == "[]" and "paddings" in facts.expr_str(x):
                        return a_
                    return None
                ovars = dict((x["var"], o_) for x in facts.walk(needed["c"][0]) if x["k"] == "DeclRefExpr" and x.get("var") and
                             (x.get("parm") or x.get("name") == "offset") and (facts.ty(f, x) or {}).get("k") == "int")
                v = ieval.ev(f, needed["c"][0], dict(ovars, __termfn2__=tf, __db__=db)) & 0xff
                if v != (a_ - (o_ + 4) % a_) % a_ and okf is None:
                    okf = "for alignment %d at payload offset %d the needed padding is computed as %d, it is %d" % (a_, o_, v, (a_ - (o_ + 4) % a_) % a_)
    except ieval.Unknown as e:
        okf = None
        rep.undecided("R5-repad-step", "update_paddings:needed-formula", facts.loc(f, needed), "outside the finite evaluator: %s" % e)
    else:
        if okf:
            rep.violation("R5-repad-step", "update_paddings:needed-formula", facts.loc(f, needed),
                          okf + ": a 4-byte aligned field that ends up 1 or 3 octets past a boundary after an insertion is re-padded wrongly")
            return
        rep.ok("R5-repad-step", "update_paddings:needed-formula", facts.loc(f, needed), "(a - (o + 4) % a) % a for a in {1,2,4,8}, o in 0..16")
    # the comparison chain: first IfStmt whose condition mentions the needed-padding variable
    chain = None
    for n in facts.fn_nodes(f):
        if n["k"] == "IfStmt":
            real = [x for x in n["c"] if x is not None]
            if any(x["k"] == "DeclRefExpr" and x.get("var") == needed["var"] for x in facts.walk(real[0])):
                chain = n
                break
    key = "update_paddings:step"
    if chain is None:
        rep.violation("R5-repad-step", key, facts.loc(f), "the padding in front of a following field is never compared with the needed padding")
        return
    others = set(x.get("var") for x in facts.walk([x for x in chain["c"] if x is not None][0])
                 if x["k"] == "DeclRefExpr" and x.get("var") and x.get("var") != needed["var"])
    if len(others) != 1:
        rep.analysis_broken("update_paddings: cannot identify the existing-padding variable (%s)" % sorted(others))
        return
    ex_var = others.pop()
    off_var = f["params"][1]["var"]

    def effects(stmt, env):
        """(erased, inserted) by the statements of one branch"""
        er = ins = 0
        for x in facts.walk(stmt):
            if x["k"] == "CXXMemberCallExpr" and x.get("cname") == "erase":
                a = x["c"][1:]
                if len(a) == 2:
                    er += iter_offset(f, a[1], env) - iter_offset(f, a[0], env)
                else:
                    er += 1
            if x["k"] == "CXXMemberCallExpr" and x.get("cname") == "insert":
                a = x["c"][1:]
                if len(a) == 3:
                    ins += ieval.ev(f, a[1], env)
                else:
                    raise ieval.Unknown("insert form")
        return er, ins

    bad = None
    try:
        for e in range(16):
            for nd in range(8):
                env = {ex_var: e, needed["var"]: nd, off_var: 1000}
                cur = chain
                er = ins = 0
                while cur is not None and cur["k"] == "IfStmt":
                    real = [x for x in cur["c"] if x is not None]
                    if ieval.ev(f, real[0], env):
                        er, ins = effects(real[1], env)
                        cur = None
                    else:
                        cur = real[2] if len(real) > 2 else None
                        if cur is not None and cur["k"] != "IfStmt":
                            er, ins = effects(cur, env)
                            cur = None
                if e - er + ins != nd:
                    bad = "with %d byte(s) of padding present and %d needed the step erases %d and inserts %d, leaving %d" % (e, nd, er, ins, e - er + ins)
                    break
            if bad:
                break
    except ieval.Unknown as ex:
        rep.undecided("R5-repad-step", key, facts.loc(f, chain), "comparison chain outside the evaluator: %s" % ex)
        return
    if bad:
        rep.violation("R5-repad-step", key, facts.loc(f, chain), bad)
    else:
        rep.ok("R5-repad-step", key, facts.loc(f, chain), "for all 16x8 (existing, needed) pairs the step leaves exactly the needed padding")


def r6(db, rep):
    from vlib import affine
    from vlib.lin import atom, const
    fs = db.fns_named("Tins::Utils::RadioTapWriter::update_paddings")
    if not fs:
        rep.analysis_broken("RadioTapWriter::update_paddings vanished")
        return
    f = fs[0]
    off_var = f["params"][1]["var"]
    loops = [n for n in f["body"].get("c", []) if n["k"] == "WhileStmt"]
    if not loops:
        rep.analysis_broken("update_paddings: outer loop not found")
        return
    loop = loops[0]
    body = [x for x in loop["c"] if x is not None][-1]
    # the index: the variable the outer loop compares with paddings.size(); the run start: the variable S in the
    # measurement `existing = index - S` (however index and S got their values: inline scans or a scanning helper)
    idx = None
    lc = [x for x in loop["c"][:-1] if x is not None]
    for x in facts.walk(lc[-1]) if lc else []:
        if x["k"] == "DeclRefExpr" and x.get("var") and (facts.ty(f, x) or {}).get("k") == "int" and not x.get("parm"):
            idx = x["var"]
    start = None
    for n in facts.walk(body):
        if n["k"] == "VarDecl" and n.get("c"):
            i0 = facts.strip_all(n["c"][0])
            if i0["k"] == "BinaryOperator" and i0.get("op") == "-" and facts.strip_all(i0["c"][0]).get("var") == idx and \
                    facts.strip_all(i0["c"][1])["k"] == "DeclRefExpr":
                start = facts.strip_all(i0["c"][1])["var"]
    if idx is None or start is None:
        rep.analysis_broken("update_paddings: index / run-start variables not recognised")
        return
    O0, I0, D0 = atom(("o0",)), atom(("i0",)), atom(("d0",))
    results = []

    def expect(st, what, got, want, node):
        results.append((got == want, what, got, want, node))

    def on_call(x, st):
        cn = x.get("cname")
        if cn == "calculate_padding":
            org = affine.lin_of(f, x["c"][2], st) - 4
            expect(st, "alignment origin", org, O0 + st.vals[start] + st.delta, x)
        elif cn == "erase" and x["k"] == "CXXMemberCallExpr":
            a = x["c"][1:]
            pa = affine.iter_off(f, a[0], st)
            pb = affine.iter_off(f, a[1], st) if len(a) > 1 else pa + 1
            expect(st, "erase position", pa, O0 + st.vals[start] + st.delta, x)
            st.delta = st.delta - (pb - pa)
        elif cn == "insert" and x["k"] == "CXXMemberCallExpr":
            a = x["c"][1:]
            pa = affine.iter_off(f, a[0], st)
            expect(st, "insert position", pa, O0 + st.vals[start] + st.delta, x)
            st.delta = st.delta + affine.lin_of(f, a[1], st)

    st = affine.State({idx: I0, off_var: O0 + I0 + D0}, D0)
    w = affine.Walker(f, idx, on_call)
    try:
        ends = w.run(body.get("c", []), st)
    except affine.Unknown as e:
        rep.undecided("R6-repad-cursor", "update_paddings:cursor", facts.loc(f, loop), "loop body outside the affine language: %s" % e)
        return
    seen = set()
    for okv, what, got, want, node in results:
        key = "update_paddings:%s" % what.replace(" ", "-")
        if (key, okv) in seen:
            continue
        seen.add((key, okv))
        if okv:
            rep.ok("R6-repad-cursor", key, facts.loc(f, node), "%s == offset0 + start + D on this path" % what)
        else:
            rep.violation("R6-repad-cursor", key, facts.loc(f, node),
                          "%s is [%s] but the padding run `start` sits at [%s] (o0 = offset on entry, i0 = index at the loop head, d0 = bytes inserted-erased so far): from the second re-aligned field on the wrong bytes are measured and edited"
                          % (what, got, want))
    bad_end = None
    for e in ends:
        if e.vals[off_var] != O0 + e.vals[idx] + e.delta:
            bad_end = (e.vals[off_var], O0 + e.vals[idx] + e.delta)
    key = "update_paddings:invariant"
    if not ends:
        rep.analysis_broken("update_paddings: no path reaches the end of the loop body")
    elif bad_end:
        rep.violation("R6-repad-cursor", key, facts.loc(f, loop),
                      "offset == offset0 + i + D is not re-established at the end of an iteration: offset is [%s], index position is [%s]" % bad_end)
    else:
        rep.ok("R6-repad-cursor", key, facts.loc(f, loop), "offset == offset0 + i + D holds again after each of the %d paths through the body" % len(ends))


def r7(db, rep):
    fs = [f for f in db.fns_named("Tins::Utils::RadioTapWriter::write_option") if f.get("body")]
    if not fs:
        rep.analysis_broken("RadioTapWriter::write_option vanished")
        return
    f = fs[0]
    key = "write_option:offset"
    decl = [x for x in facts.fn_nodes(f) if x["k"] == "VarDecl" and x.get("name") == "offset" and x.get("c")]
    if not decl:
        rep.analysis_broken("write_option: the insertion offset was not found")
        return

    def arms(e):
        e0 = facts.strip_all(e)
        if e0["k"] == "ConditionalOperator":
            return arms(e0["c"][1]) + arms(e0["c"][2])
        return [e0]
    bad = None
    for a in arms(decl[0]["c"][0]):
        t = facts.expr_str(a)
        if facts.cval(a) == 0:
            continue
        if a["k"] == "BinaryOperator" and a.get("op") == "-" and "candidate_ptr" in facts.expr_str(a["c"][0]) and "begin" in facts.expr_str(a["c"][1]):
            continue
        bad = t
    if bad:
        rep.violation("R7-insert-position", key, facts.loc(f, decl[0]),
                      "the insertion offset can be `%s`: in a parsed header whose length is rounded up the buffer ends with pad bytes, the "
                      "parser looks for the new field right behind the last field, the writer puts it behind the padding" % bad[:80])
    else:
        rep.ok("R7-insert-position", key, facts.loc(f, decl[0]), "0 in an empty buffer, otherwise the position where the field walk stopped")
