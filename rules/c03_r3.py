"""C03.R3 - read/write symmetry with E-STREAMFX (vlib/streamfx.py).

 R3-chain-skip   a from-buffer constructor that first delegates to its base class's from-buffer constructor re-opens a
                 cursor on the same bytes and must skip exactly what the base constructors consumed (as forms over the same
                 conditions; cached option sizes are 0 while constructing).
 R3-sequence     the members a class's constructor chain reads from the cursor (up to the first variable-length tail) are,
                 in order and width, the members its write_serialization writes.
"""
from vlib import facts, streamfx as sx
from vlib.facts import strip
from rules import c02

COUNTER_ATOMS = set(a for d in c02.COUNTERS.values() for a in d)


def from_buffer_ctors(db, K):
    out = []
    for fid, f in db.functions.items():
        if f.get("rec") == K and f.get("kind") == "ctor" and len(f["params"]) >= 2 and f.get("body") is not None:
            t0 = facts.tyi(f, f["params"][0]["t"]) or {}
            t1 = facts.tyi(f, f["params"][1]["t"]) or {}
            if t0.get("s") == "const unsigned char *" and t1.get("s") == "unsigned int":
                out.append(f)
    return out


def base_ctor(db, f, with_args=False):
    for i in f.get("inits", []):
        if i.get("base") and i.get("e") is not None:
            for x in facts.walk(i["e"]):
                if x["k"] == "CXXConstructExpr" and x.get("callee") in db.functions:
                    b = db.functions[x["callee"]]
                    if len(b["params"]) >= 2 and (facts.tyi(b, b["params"][0]["t"]) or {}).get("s") == "const unsigned char *":
                        if with_args:
                            binds = {}
                            for p, a in zip(b["params"], x.get("c", [])):
                                v = facts.cval(a)
                                if v is not None:
                                    binds[p["var"]] = int(v)
                            return b, binds
                        return b
                    return (None, {}) if with_args else None
    return (None, {}) if with_args else None


def walk(db, K, f, binds=None):
    fx = sx.Fx(db, K)
    ctx = sx.Ctx(fx, f, cls=K)
    env0 = {"§ret": None}
    for var, v in (binds or {}).items():
        ctx.forms[var] = sx.const(v)
        env0["v:" + var] = sx.const(v)
    env = fx.exec_list(ctx, f["body"].get("c", []), env0)
    return fx, env


def zero_counters(form):
    f = sx.Form(form.k, None, [(c, zero_counters(x)) for c, x in form.whens], list(form.sums))
    for a, c in form.atoms.items():
        if a not in COUNTER_ATOMS:
            f.atoms[a] = c
    return f


def consumed(db, f, memo, binds=None):
    """form of the bytes the constructor chain of f has consumed from the start of the buffer when f's own cursor stops"""
    key = (f["id"], tuple(sorted((binds or {}).items())))
    if key in memo:
        return memo[key]
    memo[key] = None
    fx, env = walk(db, f["rec"], f, binds)
    own = env.get("s:out")
    ops = [o for o in fx.oplog if o[0] == "out"]
    if own is None or not ops:
        b, bb = base_ctor(db, f, True)
        r = consumed(db, b, memo, bb) if b is not None else None
    else:
        r = (fx, zero_counters(own))
    memo[key] = r
    return r


def run(db, rep):
    rep.rule("R3-chain-skip", "a derived from-buffer constructor skips exactly what its base constructors consumed", 18)
    rep.rule("R3-sequence", "members are read and written in the same order and width", 45)
    memo = {}
    classes = sorted(set(c02.concrete_classes(db)) | set(k for k in db.records if k.startswith("Tins::Dot11") or k in ("Tins::EAPOL", "Tins::BootP")))
    for K in classes:
        short = K.split("::")[-1]
        for f in from_buffer_ctors(db, K):
            b, bbinds = base_ctor(db, f, True)
            if b is None:
                continue
            tag = "" if len(f["params"]) == 2 else "/%d" % len(f["params"])
            key = "%s%s" % (short, tag)
            try:
                fx, env = walk(db, K, f)
                ops = [o for o in fx.oplog if o[0] == "out"]
                if not ops:
                    continue        # no cursor of its own
                cb = consumed(db, b, memo, bbinds)
            except sx.Opaque as e:
                rep.analysis_broken("%s: constructor outside the E-STREAMFX language: %s" % (key, e))
                continue
            if cb is None:
                continue
            first = ops[0]
            want = cb[1]
            if first[1] != "skip":
                rep.violation("R3-chain-skip", key, facts.loc(f),
                              "%s(buffer, size) re-opens the buffer after %s consumed `%s` bytes but starts with a %s, not with a skip"
                              % (short, b["rec"].split("::")[-1], want, first[1]))
                continue
            got = zero_counters(first[3])
            res = sx.compare(fx, got, want)
            bad = [x for x in res if x[0] not in ("ok",)]
            if bad and any(x[0] == "undecided" for x in bad):
                rep.analysis_broken("%s: %s" % (key, bad[0][1]))
            elif bad:
                rep.violation("R3-chain-skip", key, "%s:%s" % (f["file"], first[4]),
                              "%s(buffer, size) skips `%s` but its base constructor %s consumed `%s`: %s - the fields that follow are read from the wrong offset"
                              % (short, got, b["rec"].split("::")[-1], want, bad[0][1][:160]))
            else:
                rep.ok("R3-chain-skip", key, "%s:%s" % (f["file"], first[4]), "skip `%s` == bytes consumed by %s" % (got, b["rec"].split("::")[-1]))
    # sequences
    for K in c02.concrete_classes(db):
        short = K.split("::")[-1]
        fs = [f for f in from_buffer_ctors(db, K) if len(f["params"]) == 2]
        w = c02.final(db, K, "write_serialization", "(unsigned char *, unsigned int)")
        if not fs or w is None:
            continue
        try:
            rt = chain_tokens(db, K, fs[0])
            fxw = sx.Fx(db, K)
            cw = sx.Ctx(fxw, w, cls=K)
            fxw.exec_list(cw, w["body"].get("c", []), {"§ret": None})
        except sx.Opaque as e:
            rep.analysis_broken("%s: %s" % (K, e))
            continue
        wt = [o for o in fxw.oplog if o[0] == "out" and o[1] in ("write", "fill")]
        if not wt:
            continue        # not serialisable (PPI, PKTAP)
        bad = None
        n_cmp = 0

        def guarded(t):
            return len(t) > 8 and bool(t[8])

        def pair(r, wv, pos):
            rn, wn = member_name(r[2]), member_name(wv[2])
            if rn and wn and rn != wn:
                return "position %d: the constructor reads `%s`, write_serialization writes `%s`" % (pos, rn, wn)
            if r[3].is_const() and wv[3].is_const() and r[3].k != wv[3].k:
                return "position %d: %d byte(s) are read into `%s` but %d byte(s) are written for `%s`" % (pos, r[3].k, r[2], wv[3].k, wv[2])
            gb = guard_gap(fxw, r, wv) if rn and wn else None
            if gb:
                return "`%s` is read when %s but written only when %s: %s" % (rn, gb[0], gb[1], gb[2])
            return None
        i = j = 0
        while i < len(rt):
            r = rt[i]
            if r[1] == "rest" or has_atoms(r[3]):
                break
            if j < len(wt) and has_atoms(wt[j][3]):
                break       # a variable-length item of the writer holds whatever follows (e.g. BootP::vend_ for DHCP)
            if j >= len(wt):
                if j > 0 and has_atoms(wt[-1][3]):
                    break
                bad = "the constructor reads `%s` (%s bytes) but write_serialization writes nothing at that position" % (r[2], r[3])
                break
            if guarded(r) and guarded(wt[j]) and member_name(r[2]) and member_name(r[2]) != member_name(wt[j][2]):
                # alternatives (members handled under conditions): the order in which the branches are WRITTEN DOWN is free.
                # The run of guarded reads is matched by name against the run of guarded writes at the same place.
                i2 = i
                while i2 < len(rt) and guarded(rt[i2]) and rt[i2][1] != "rest" and not has_atoms(rt[i2][3]):
                    i2 += 1
                j2 = j
                while j2 < len(wt) and guarded(wt[j2]) and not has_atoms(wt[j2][3]):
                    j2 += 1
                def sig(t):
                    return tuple((c_.key, p_) for c_, p_ in t[8])

                def branches(toks):
                    """consecutive tokens under the same guards form one branch: inside a branch the order counts"""
                    out = []
                    for t in toks:
                        if out and sig(out[-1][-1]) == sig(t):
                            out[-1].append(t)
                        else:
                            out.append([t])
                    return out
                wbr = branches(wt[j:j2])
                for rb in branches(rt[i:i2]):
                    names = [member_name(x[2]) for x in rb]
                    hit = [wb for wb in wbr if [member_name(x[2]) for x in wb][:len(names)] == names]
                    if not hit:
                        # same members but in another order inside one branch, or no branch writing them at all
                        cand = [wb for wb in wbr if sorted(member_name(x[2]) or "?" for x in wb) == sorted(n_ or "?" for n_ in names)]
                        if cand:
                            wn_ = [member_name(x[2]) for x in cand[0]]
                            k_ = next(q for q in range(len(names)) if names[q] != wn_[q])
                            bad = "position %d: the constructor reads `%s`, write_serialization writes `%s`" % (i + 1 + k_, names[k_], wn_[k_])
                        else:
                            bad = "position %d: the constructor reads %s (in one of its branches), write_serialization writes %s there" % (
                                i + 1, names, sorted(set(member_name(x[2]) or "?" for x in wt[j:j2])))
                        break
                    wbr.remove(hit[0])
                    for r_, w_ in zip(rb, hit[0]):
                        bad = pair(r_, w_, i + 1)
                        n_cmp += 1
                        if bad:
                            break
                    if bad:
                        break
                if bad:
                    break
                i, j = i2, j2
                continue
            n_cmp += 1
            bad = pair(r, wt[j], i + 1)
            if bad:
                break
            i += 1
            j += 1
        # members that both sides handle after a variable-length part: compared by name
        if not bad:
            rnames = {}
            for r in rt:
                nmr = member_name(r[2]) if r[1] == "read" else None
                if nmr and nmr not in rnames:
                    rnames[nmr] = r
            for wv in wt:
                nmw = member_name(wv[2]) if wv[1] == "write" else None
                if nmw and nmw in rnames:
                    r = rnames.pop(nmw)
                    if r[3].is_const() and wv[3].is_const() and r[3].k != wv[3].k:
                        bad = "%d byte(s) are read into `%s` but %d byte(s) are written for it" % (r[3].k, nmw, wv[3].k)
                        break
                    gb = guard_gap(fxw, r, wv)
                    if gb:
                        bad = "`%s` is read when %s but written only when %s: %s" % (nmw, gb[0], gb[1], gb[2])
                        break
                    fl = flag_link(db, fs[0], r, wv)
                    if fl:
                        bad = fl
                        break
        # coverage by name: whatever the constructor chain reads into a named member the serialiser writes from a member of
        # that name at least as often, and the other way round (tabled exceptions: members filled by other means)
        if not bad:
            import collections
            rc_ = together([r for r in rt if r[1] == "read" and member_name(r[2])])
            wc_ = together([x for x in wt if x[1] == "write" and member_name(x[2])])
            for nm_, cnt in sorted(rc_.items()):
                if wc_.get(nm_, 0) < cnt:
                    bad = ("`%s` is read %d time(s) by the constructor chain but written %d time(s) by write_serialization: what was parsed "
                           "into it does not reach the wire again" % (nm_, cnt, wc_.get(nm_, 0)))
                    break
            if not bad:
                # a fixed-size member the constructor reads in EVERY run is written in every run (a write that sits in one
                # branch only leaves the other runs without it)
                rmin = together([r for r in rt if r[1] == "read" and member_name(r[2]) and not has_atoms(r[3])], least=True)
                wmin = together([x for x in wt if x[1] == "write" and member_name(x[2])], least=True)
                for nm_, cnt in sorted(rmin.items()):
                    if cnt >= 1 and nm_ in wmin and wmin[nm_] == 0:
                        bad = ("`%s` is read by the constructor chain in every run but write_serialization writes it only under a "
                               "condition: when the condition fails what was parsed does not reach the wire" % nm_)
                        break
            if not bad:
                for nm_, cnt in sorted(wc_.items()):
                    if rc_.get(nm_, 0) < cnt and (short, nm_) not in WRITE_ONLY_OK:
                        bad = ("`%s` is written %d time(s) by write_serialization but read %d time(s) by the constructor chain: parsing the "
                               "serialization does not restore it" % (nm_, cnt, rc_.get(nm_, 0)))
                        break
        key = short
        if bad:
            rep.violation("R3-sequence", key, facts.loc(fs[0]), "%s: %s" % (short, bad))
        else:
            rep.ok("R3-sequence", key, facts.loc(fs[0]), "%d leading item(s) agree: %s" % (n_cmp, [member_name(r[2]) or "?" for r in rt[:n_cmp]]))


def together(toks, least=False):
    """per member name: how many of its tokens can be executed in ONE run - tokens in branches that exclude each other (the
    same condition with opposite polarity) are alternatives, not repetitions.  `least`: the fewest executed in any run."""
    import itertools
    by = {}
    for t in toks:
        by.setdefault(member_name(t[2]), []).append(t[8] if len(t) > 8 and t[8] else [])
    out = {}
    for nm, gs in by.items():
        keys = sorted(set(c.key for g in gs for c, _ in g))
        if not keys or len(keys) > 8:
            out[nm] = len(gs) if not least else sum(1 for g in gs if not g)
            continue
        best = None
        for vals in itertools.product((True, False), repeat=len(keys)):
            a = dict(zip(keys, vals))
            k = sum(1 for g in gs if all(a[c.key] == bool(p) for c, p in g))
            best = k if best is None else (min(best, k) if least else max(best, k))
        out[nm] = best
    return out


WRITE_ONLY_OK = {
    # (class, member): why the constructor fills it without a cursor read of that name
    ("ICMPv6", "target_address_"): "read inside a switch over the message type through a local cursor",
    ("ICMPv6", "dest_address_"): "as above",
    ("ICMPv6", "reach_time_"): "as above",
    ("ICMPv6", "retrans_timer_"): "as above",
    ("IP", "length"): "option length octet: derived from the option's data size",
    ("IPv6", "length"): "extension header length octet: derived",
    ("TCP", "length"): "option length octet: derived",
    ("LLC", "control_field.super"): "read through the union arm selected by the frame format",
    ("Loopback", "family_"): "read as a plain integer local first",
    ("RadioTap", "options_payload_"): "assigned from the cursor's pointer range",
    ("RawPDU", "payload_"): "assigned from the buffer range",
}


def flag_link(db, ctor, r, w):
    """the serialiser writes the member under a boolean FLAG member (`use_mldv2_`) and the constructor reads it under a test
    of the input: the flag must be assigned from that very test - else there are inputs for which the member is read (and
    counted by the getters) but not written back"""
    gr = list(r[8]) if len(r) > 8 else []
    gw = list(w[8]) if len(w) > 8 else []
    # guards both sides share (the message-type tests around the whole branch) say nothing about the flag
    common = set((c.key, p) for c, p in gr) & set((c.key, p) for c, p in gw)
    gr = [(c, p) for c, p in gr if (c.key, p) not in common]
    gw = [(c, p) for c, p in gw if (c.key, p) not in common]
    if len(gr) != 1 or len(gw) != 1 or not gw[0][1] or not gr[0][1]:
        return None
    wn = facts.strip_all(gw[0][0].node)
    if wn["k"] != "MemberExpr" or not wn.get("isfield") or (facts.ty(gw[0][0].ctx.f, wn) or {}).get("k") != "bool":
        return None
    flag = wn["member"]
    rtxt = facts.expr_str(facts.strip_all(gr[0][0].node)).replace("this->", "")
    fr = gr[0][0].ctx.f
    sets = [x for x in facts.fn_nodes(fr) if x["k"] == "BinaryOperator" and x.get("op") == "=" and
            facts.strip_all(x["c"][0]).get("member") == flag]
    if len(sets) != 1:
        return None
    e = facts.inline_locals(fr, sets[0]["c"][1], kinds=("bool",))
    etxt = facts.expr_str(facts.strip_all(e)).replace("this->", "")
    if etxt == rtxt or facts.cval(e) is not None:
        return None
    return ("`%s` is read when `%s` but the flag `%s`, under which write_serialization writes it, is set from `%s` (line %s): for an input "
            "on which the two differ the member is parsed and then left out of the serialization"
            % (member_name(r[2]), rtxt[:50], flag, etxt[:60], sets[0].get("l")))


def guard_form(guards):
    f = sx.const(1)
    for c, pol in reversed(guards):
        if pol:
            f = sx.when(c, f)
        else:
            f = f - sx.when(c, f)
    return f


def guard_gap(fx, r, w):
    """the member is read under guards Gr and written under Gw: when the writer's condition tests the same terms as the
    reader's (plus possibly more) there must be no situation in which it is read but not written"""
    gr = r[8] if len(r) > 8 else []
    gw = w[8] if len(w) > 8 else []
    if not gr and not gw:
        return None
    cr, cw = sx.Cells(fx), sx.Cells(fx)
    try:
        for c, _ in gr:
            cr.collect_cond(c)
        for c, _ in gw:
            cw.collect_cond(c)
    except sx.Opaque:
        return None
    tr, tw = set(cr.terms), set(cw.terms)
    if not tr or not tr <= tw:
        return None         # different vocabularies (e.g. the reader tests raw bytes it has not stored yet): not comparable
    fr, fw = guard_form(gr), guard_form(gw)
    try:
        for cell in cw.assignments(4096):
            a = sx.flat_value(fx, fr, cell)
            b = sx.flat_value(fx, fw, cell)
            if a is None or b is None:
                return None
            if a and not b:
                return (" && ".join(("" if p else "!") + c.key for c, p in gr) or "always",
                        " && ".join(("" if p else "!") + c.key for c, p in gw) or "always",
                        "e.g. when " + ", ".join("%s=%s" % kv for kv in sorted(cell.items())))
    except (sx.Opaque, Exception) as e:
        if isinstance(e, (KeyError, TypeError, AttributeError)):
            raise
        return None
    return None


def has_atoms(form):
    """does the size depend on a run-time quantity (container length ...) rather than only on conditions?"""
    if form.atoms or form.sums:
        return True
    return any(has_atoms(x) for c, x in form.whens)


def member_name(t):
    if not t:
        return None
    t = t.lstrip("&")
    if t.replace("_", "a").replace(".", "a").isalnum() and not t[0].isdigit():
        return t
    return None


def chain_tokens(db, K, f):
    toks = []
    b = base_ctor(db, f)
    if b is not None:
        toks += chain_tokens(db, b["rec"], b)
    fx, env = walk(db, K, f)
    toks += [o for o in fx.oplog if o[0] == "out" and o[1] in ("read", "rest")]
    return toks
