"""C08 - IPv4 fragment reassembly (DESIGN.md C08).  Decided clauses:

 R1 complete    "no datagram is ever produced from an incomplete set of fragments": every `return REASSEMBLED` is
                dominated by is_complete() and by the non-null test of the rebuilt payload; is_complete() read as a
                Boolean formula is exactly  last-fragment-seen AND byte-counts-equal AND first-offset-is-zero;
                allocate_pdu() gives up (null) at the first non-contiguous offset.
 R2 effects     on every path to REASSEMBLED: header taken from the first fragment, payload installed, offset and
                flags cleared, the stream forgotten.  Nothing is touched on the NOT_FRAGMENTED path, and stream state is
                only dropped for a complete datagram.
 R3 key         the stream key is built from identification, source and destination.
 R4 accounting  the one insertion into the fragment list is paired with the byte-count update for the same fragment;
                the ordered-position search from begin() and the duplicate test dominate both.
Not decided: status sequences under interleavings, byte identity of payloads.
"""
from vlib import facts, cfg, cond, formula
from vlib.facts import strip

PID = "C08"
STREAM = "Tins::Internals::IPv4Stream"
REASM = "Tins::IPv4Reassembler"


def fn1(db, qual):
    fs = db.fns_named(qual)
    if not fs:
        raise facts.AnalysisBroken("%s vanished" % qual)
    return fs[0]


def run(db, rep, tier):
    rep.rule("R1-complete", "REASSEMBLED only for a complete, contiguous fragment set", 3)
    rep.rule("R2-effects", "reassembled packet is rebuilt from the first fragment and the stream forgotten; unfragmented "
                           "packets and incomplete streams are left alone", 7)
    rep.rule("R3-key", "stream key = (identification, source, destination)", 1)
    rep.rule("R5-fragment-length", "every IPv4 payload layer is built from the length clamped to the header's total length", 3)
    rep.rule("R6-always-a-payload", "a complete, contiguous fragment set always yields a payload layer: whatever the protocol number, "
                                    "allocate_pdu() falls back to RawPDU instead of returning null", 1)
    r6(db, rep)
    rep.rule("R7-every-fragment", "add_fragment stores every fragment that is not a duplicate (the only return before the insertion is the "
                                  "duplicate-offset one); IP::is_fragmented() is true exactly when the more-fragments bit or any of the 13 offset "
                                  "bits is set", 2)
    r7(db, rep)
    rep.rule("R4-accounting", "fragment insertion, byte accounting, ordered search and duplicate test go together", 4)
    proc = fn1(db, REASM + "::process")
    r1(db, rep, proc)
    r2(db, rep, proc)
    r3(db, rep)
    r4(db, rep)
    r5(db, rep)
    rep.rule("R9-no-stale-element", "a member of the reassembler that points at an element of its stream table (a cached `IPv4Stream*` / "
                                    "iterator) is reset wherever an element is erased or the table is cleared (none exists on the pinned "
                                    "tree; the rule arms itself when one is added)", 0)
    r9_stale(db, rep)
    rep.explanation = ("Decides the structural clauses of C08 (no datagram from an incomplete set; what the reassembled "
                       "packet is made of; unfragmented packets untouched; key coverage; accounting pairing) by guard "
                       "dominance / must-pass-through rules and one truth table compared with the property text. "
                       "Interleaving histories and payload byte identity are not decided.")


def status_returns(f, name):
    """sites at which the status `name` is produced: `return NAME;`, or - single-exit style - the store of NAME into the
    local result variable that the function returns"""
    out = []
    results = set()
    for n in facts.fn_nodes(f):
        if n["k"] == "ReturnStmt" and n.get("c"):
            e0 = facts.strip_all(n["c"][0])
            if e0["k"] == "DeclRefExpr" and e0.get("var") and not e0.get("parm") and not e0.get("enumc"):
                results.add(e0["var"])
            for x in facts.walk(n["c"][0]):
                if x["k"] == "DeclRefExpr" and (x.get("enumc") or "").endswith("::" + name):
                    out.append(n)
    for n in facts.fn_nodes(f):
        val = None
        if n["k"] == "BinaryOperator" and n.get("op") == "=" and strip(n["c"][0]).get("var") in results:
            val = n["c"][1]
        elif n["k"] == "VarDecl" and n.get("var") in results and n.get("c"):
            val = n["c"][0]
        if val is not None and any(x["k"] == "DeclRefExpr" and (x.get("enumc") or "").endswith("::" + name) for x in facts.walk(val)):
            out.append(n)
    return out


def r1(db, rep, proc):
    g = cfg.FnCFG(proc)
    rets = status_returns(proc, "REASSEMBLED")
    if not rets:
        rep.violation("R1-complete", "process:returns", facts.loc(proc), "process() never returns REASSEMBLED")
    # the local that receives allocate_pdu()'s result, whatever it is called
    pvars = set(n["var"] for n in facts.fn_nodes(proc) if n["k"] == "VarDecl" and n.get("c") and
                any(x["k"] == "CXXMemberCallExpr" and x.get("cname") == "allocate_pdu" for x in facts.walk(n["c"][0])))
    for i, r in enumerate(rets):
        gf = cond.guards_facts(g, g.pos(r))
        comp = any(op == "true" and "is_complete" in facts.expr_str(l) for op, l, rr in gf)
        nonnull = any((op == "true" and facts.strip_all(l).get("var") in pvars) or
                      (op in ("!=",) and facts.strip_all(l).get("var") in pvars and rr is not None and facts.cval(rr) == 0) for op, l, rr in gf)
        key = "process:REASSEMBLED#%d" % i
        if comp and nonnull:
            rep.ok("R1-complete", key, facts.loc(proc, r), "dominated by stream.is_complete() and by the non-null test of the rebuilt payload")
        else:
            rep.violation("R1-complete", key, facts.loc(proc, r), "REASSEMBLED can be returned %s" %
                          ("without is_complete() having held" if not comp else "although allocate_pdu() returned null (non-contiguous fragments)"))
    # is_complete as a formula
    ic = fn1(db, STREAM + "::is_complete")
    atoms, table = formula.truth_table(ic)

    def role(a):
        if "received_end_" in a:
            return "end"
        if "received_size_" in a and "total_size_" in a:
            return "counts"
        if "offset()" in a and a.endswith("== 0") or a.startswith("0 ==") and "offset" in a:
            return "first0"
        return None
    roles = [role(a) for a in atoms]
    bad = None
    for vals, res in table.items():
        env = dict((r_, v) for r_, v in zip(roles, vals) if r_)
        # polarity: the atom key for counts is "received_size_ == total_size_"
        want = env.get("end", False) and env.get("counts", False) and env.get("first0", False)
        if res is not want:
            bad = (dict(zip(atoms, vals)), res, want)
            break
    if set(["end", "counts", "first0"]) - set(roles):
        rep.violation("R1-complete", "is_complete:formula", facts.loc(ic),
                      "is_complete() does not test %s (conditions found: %s)" % (sorted(set(["end", "counts", "first0"]) - set(roles)), atoms))
    elif bad:
        rep.violation("R1-complete", "is_complete:formula", facts.loc(ic),
                      "is_complete() is not `last fragment seen AND byte counts equal AND first offset 0`: under %s it returns %s, the "
                      "statement requires %s" % (bad[0], bad[1], bad[2]))
    else:
        rep.ok("R1-complete", "is_complete:formula", facts.loc(ic), "truth table over %s equals end AND counts AND first0 (%d rows)" % (atoms, len(table)))
    # allocate_pdu: null at the first gap (the walk may live in a helper whose `false` makes allocate_pdu return null)
    ap0 = fn1(db, STREAM + "::allocate_pdu")
    ap, gap_rets = contiguity_site(db, ap0)
    ok = bool(gap_rets)
    upd = [n for n in facts.fn_nodes(ap) if n["k"] == "BinaryOperator" and n["op"] == "=" and facts.strip_all(n["c"][0])["k"] == "DeclRefExpr"
           and "offset()" in facts.expr_str(facts.inline_locals(ap, n["c"][1])) and "size()" in facts.expr_str(facts.inline_locals(ap, n["c"][1]))]
    if ok and not upd:
        # the running end may be the size of the buffer the payloads are appended to: `buffer.size() != it->offset()` with
        # `buffer.insert(buffer.end(), payload.begin(), payload.end())` after the test in the same loop
        for l_ in [n for n in facts.fn_nodes(ap) if n["k"] in ("ForStmt", "WhileStmt", "CXXForRangeStmt")]:
            body_ = [x for x in l_["c"] if x is not None][-1]
            for c_ in facts.walk(body_):
                if c_["k"] == "BinaryOperator" and c_.get("op") in ("!=", "==") and "offset()" in facts.expr_str(c_):
                    for side in c_["c"]:
                        s0 = facts.strip_all(side)
                        if s0["k"] == "CXXMemberCallExpr" and s0.get("cname") == "size" and s0["c"][0].get("c"):
                            cont = facts.strip_all(s0["c"][0]["c"][0])
                            if cont["k"] == "DeclRefExpr" and cont.get("var"):
                                app = [x for x in facts.walk(body_) if x["k"] == "CXXMemberCallExpr" and x.get("cname") in ("insert", "append") and
                                       x["c"][0].get("c") and facts.strip_all(x["c"][0]["c"][0]).get("var") == cont["var"] and
                                       "payload()" in facts.expr_str(x) and "end()" in facts.expr_str(x["c"][1])]
                                others = [x for x in facts.fn_nodes(ap) if x["k"] == "CXXMemberCallExpr" and
                                          x.get("cname") in ("insert", "append", "push_back", "resize", "clear", "erase", "assign") and
                                          x["c"][0].get("c") and facts.strip_all(x["c"][0]["c"][0]).get("var") == cont["var"] and x not in app]
                                if app and not others:
                                    upd = app
    if ok and upd:
        rep.ok("R1-complete", "allocate_pdu:contiguity", facts.loc(ap), "returns null at the first fragment whose offset differs from the running end; running end = offset + size")
    else:
        rep.violation("R1-complete", "allocate_pdu:contiguity", facts.loc(ap),
                      "allocate_pdu() does not reject a gap between consecutive fragments (%s)" %
                      ("no `expected != offset -> return 0` inside the loop" if not ok else "running end is not offset + payload size"))


def gap_returns(f, null_value):
    """returns of `null_value` (0 / false) inside a loop of f under the guard `expected != <fragment offset>`"""
    g2 = cfg.FnCFG(f)
    out = []
    for n in facts.fn_nodes(f):
        if n["k"] == "ReturnStmt" and n.get("c") and facts.cval(n["c"][0]) == null_value:
            gf = [(op, l, rr) for op, l, rr in cond.guards_facts(g2, g2.pos(n))]

            def running_end(e):
                """a local that is not the fragment (a counter of its own, whatever its name) or the size of a local buffer"""
                e0 = facts.strip_all(e)
                if e0["k"] == "DeclRefExpr" and e0.get("var") and not e0.get("parm") and "offset()" not in facts.expr_str(facts.inline_locals(f, e0)):
                    return True
                if e0["k"] == "CXXMemberCallExpr" and e0.get("cname") == "size" and e0["c"][0].get("c"):
                    c0 = facts.strip_all(e0["c"][0]["c"][0])
                    return c0["k"] == "DeclRefExpr" and not c0.get("parm")
                return False
            def is_off(e):
                return "offset()" in facts.expr_str(facts.inline_locals(f, e))
            if any(op == "!=" and ((is_off(l) and running_end(rr)) or (is_off(rr) and running_end(l)))
                   for op, l, rr in gf if rr is not None):
                if any(l["k"] in ("ForStmt", "WhileStmt") and any(x is n for x in facts.walk(l)) for l in facts.fn_nodes(f)):
                    out.append(n)
    return out


def contiguity_site(db, ap):
    """(function that walks the fragments, returns of allocate_pdu that report a gap)"""
    own = gap_returns(ap, 0)
    if own:
        return ap, own
    g = cfg.FnCFG(ap)
    for c in facts.fn_nodes(ap):
        if c["k"] != "CXXMemberCallExpr" or not c.get("callee"):
            continue
        h = db.fn(c["callee"])
        if h is None or not h.get("body") or h.get("rec") != ap.get("rec") or (facts.tyi(h, h.get("ret")) or {}).get("k") != "bool":
            continue
        if not gap_returns(h, 0):
            continue
        # the helper's `false` must make allocate_pdu return null
        rets = []
        for r_ in facts.fn_nodes(ap):
            if r_["k"] == "ReturnStmt" and r_.get("c") and facts.cval(r_["c"][0]) == 0:
                if any(op == "false" and facts.strip_all(l) is c or (op == "false" and any(x is c for x in facts.walk(l)))
                       for op, l, rr in cond.guards_facts(g, g.pos(r_))):
                    rets.append(r_)
        if rets and g.reaches_exit_avoiding(g.pos(c), [g.pos(r_) for r_ in rets], skip_edges=_true_edges(g, c)) is None:
            return h, rets
    return ap, []


def _true_edges(g, call):
    """edges taken when the condition that contains `call` is true (helper reported success)"""
    out = set()
    for b in g.blocks.values():
        cnode = g.idx.get(b.get("cond")) if b.get("cond") is not None else None
        if cnode is not None and len(b["s"]) == 2 and any(x is call for x in facts.walk(cnode)):
            c0, neg = cond.peel(cnode)
            out.add((b["id"], 1 if neg else 0))
    return out


def calls_named(f, name, recv_contains=None):
    out = []
    for n in facts.fn_nodes(f):
        if n["k"] in ("CXXMemberCallExpr", "CXXOperatorCallExpr") and (n.get("cname") == name or n.get("op") == name):
            if recv_contains is None or recv_contains in facts.expr_str(cfg.receiver(n) or {}):
                out.append(n)
    return out


def r2(db, rep, proc):
    g = cfg.FnCFG(proc)
    rets = status_returns(proc, "REASSEMBLED")
    effects = {
        "header-from-first-fragment": [n for n in facts.fn_nodes(proc) if n["k"] == "CXXOperatorCallExpr" and n.get("op") == "=" and
                                       "first_fragment" in facts.expr_str(n)],
        "payload-installed": [n for n in calls_named(proc, "inner_pdu") if cfg.args(n)],
        "offset-cleared": [n for n in calls_named(proc, "fragment_offset") if cfg.args(n) and argzero(cfg.args(n)[0])],
        "flags-cleared": [n for n in calls_named(proc, "flags") if cfg.args(n) and argzero(cfg.args(n)[0])],
        "stream-forgotten": [n for n in calls_named(proc, "erase", "streams_")],
    }
    for name, sites in sorted(effects.items()):
        for i, r in enumerate(rets):
            key = "process:%s#%d" % (name, i)
            pos = [g.pos(s) for s in sites if g.pos(s)]
            if pos and g.reached_from_entry_avoiding(g.pos(r), pos) is None:
                rep.ok("R2-effects", key, facts.loc(proc, r), "on every path to REASSEMBLED")
            else:
                rep.violation("R2-effects", key, facts.loc(proc, r), "some path returns REASSEMBLED without `%s`" % name)
    # nothing is touched before NOT_FRAGMENTED
    muts = [n for n in facts.fn_nodes(proc) if
            (n["k"] == "CXXOperatorCallExpr" and n.get("op") in ("[]", "=") and ("streams_" in facts.expr_str(n) or "ip" in facts.expr_str(n["c"][1]))) or
            (n["k"] == "CXXMemberCallExpr" and n.get("cname") in ("erase", "clear", "add_fragment", "inner_pdu", "fragment_offset", "flags", "insert")
             and (cfg.args(n) or n.get("cname") in ("clear",)))]
    for i, r in enumerate(status_returns(proc, "NOT_FRAGMENTED")):
        touched = [m for m in muts if g.pos(m) and g.reachable(g.pos(m), g.pos(r))]
        key = "process:NOT_FRAGMENTED-untouched#%d" % i
        if touched:
            rep.violation("R2-effects", key, facts.loc(proc, touched[0]),
                          "a path to NOT_FRAGMENTED passes `%s`: unfragmented packets must leave the packet and the pending "
                          "streams untouched" % facts.expr_str(touched[0])[:60])
        else:
            rep.ok("R2-effects", key, facts.loc(proc, r), "no mutation of streams_ or of the packet can precede it")
    # stream state is dropped only for complete datagrams
    for i, e in enumerate(effects["stream-forgotten"]):
        gf = cond.guards_facts(g, g.pos(e))
        key = "process:erase-only-when-complete#%d" % i
        if any(op == "true" and "is_complete" in facts.expr_str(l) for op, l, rr in gf):
            rep.ok("R2-effects", key, facts.loc(proc, e), "erase dominated by is_complete()")
        else:
            rep.violation("R2-effects", key, facts.loc(proc, e), "pending fragments are discarded on a path where the datagram is not complete")


def argzero(e):
    from rules.c09 import argval
    v = argval(e)
    if v == 0:
        return True
    e0 = facts.strip_all(e)
    return any(facts.cval(x) == 0 for x in facts.walk(e0)) and e0["k"] in ("CXXStaticCastExpr", "CStyleCastExpr", "CXXFunctionalCastExpr", "CXXConstructExpr")


def r3(db, rep):
    mk = fn1(db, REASM + "::make_key")
    txt = " ".join(facts.expr_str(n) for n in facts.fn_nodes(mk) if n["k"] == "CXXMemberCallExpr")
    need = ["id()", "src_addr()", "dst_addr()"]
    miss = [x for x in need if x not in txt]
    if miss:
        rep.violation("R3-key", "make_key", facts.loc(mk), "stream key does not include %s: fragments of different datagrams share one stream" % miss)
    else:
        rep.ok("R3-key", "make_key", facts.loc(mk), "key built from id(), src_addr(), dst_addr()")
    # the address part keeps both addresses as separate components (an injective, order-normalised pair)
    ap = [f for f in db.functions.values() if f["qual"] == REASM + "::make_address_pair" and f.get("body")]
    if not ap:
        rep.analysis_broken("IPv4Reassembler::make_address_pair vanished")
        return
    f = ap[0]
    rt = facts.tyi(f, f.get("ret")) or {}
    pv = [p["var"] for p in f["params"]]
    rets = [n for n in facts.fn_nodes(f) if n["k"] == "ReturnStmt" and n.get("c")]
    good = rt.get("k") == "rec" and "pair<" in (rt.get("name") or "") and bool(rets)
    for r in rets:
        refs = [x.get("var") for x in facts.walk(r["c"][0]) if x["k"] == "DeclRefExpr" and x.get("var") in pv]
        arith = [x for x in facts.walk(r["c"][0]) if x["k"] in ("BinaryOperator", "CXXOperatorCallExpr") and x.get("op") in ("^", "+", "|", "&", "-", "*")]
        if set(refs) != set(pv) or arith:
            good = False
    if good:
        rep.ok("R3-key", "make_address_pair", facts.loc(f), "both addresses kept as the two components of a pair on every return")
    else:
        rep.violation("R3-key", "make_address_pair", facts.loc(f),
                      "the address part of the stream key is not the pair of both addresses (type `%s`): different address pairs can map to the "
                      "same key and their fragments are mixed into one datagram" % (rt.get("s") or "?"))


def r5(db, rep):
    """fragments are cut to the length their IP header announces: the payload layer of every IPv4 packet is built from the
    clamped size (link-layer padding behind a short fragment is not fragment data)"""
    ctor = [f for f in db.functions.values() if f.get("rec") == "Tins::IP" and f.get("kind") == "ctor" and len(f["params"]) == 2
            and (facts.tyi(f, f["params"][0]["t"]) or {}).get("s") == "const unsigned char *"]
    if not ctor:
        rep.analysis_broken("IP(const uint8_t*, uint32_t) vanished")
        return
    f = ctor[0]
    tot = f["params"][1]["var"]
    # the clamp: total_sz = min(advertised, available)
    clamp = [n for n in facts.fn_nodes(f) if n["k"] == "BinaryOperator" and n.get("op") == "=" and strip(n["c"][0]).get("var") == tot]
    sinks = []
    for n in facts.fn_nodes(f):
        if n["k"] in ("CXXConstructExpr", "CXXTemporaryObjectExpr") and (n.get("crec") or "") == "Tins::RawPDU" and len(n.get("c", [])) == 2:
            sinks.append((n, n["c"][1], "RawPDU"))
        if n["k"] == "CallExpr" and n.get("cname") in ("pdu_from_flag", "allocate") and len(n["c"]) >= 4:
            args = n["c"][1:]
            for i, a in enumerate(args[:-1]):
                if (facts.ty(f, a) or {}).get("k") == "ptr":
                    sinks.append((n, args[i + 1], n.get("cname")))
                    break
    if not clamp or len(sinks) < 3:
        rep.analysis_broken("IP::IP: clamp of total_sz / inner-layer constructions not recognised (%d, %d)" % (len(clamp), len(sinks)))
        return
    g = cfg.FnCFG(f)
    for i, (n, a, what) in enumerate(sinks):
        key = "IP::IP:payload-size#%d" % (i + 1)
        a0 = facts.strip_all(a)
        anchor = n
        # a local that is a plain copy of the clamped size, never reassigned
        for _ in range(3):
            if a0["k"] == "DeclRefExpr" and a0.get("var") != tot:
                d = [x for x in facts.fn_nodes(f) if x["k"] == "VarDecl" and x.get("var") == a0.get("var") and x.get("c")]
                wr = [x for x in facts.fn_nodes(f) if x["k"] in ("BinaryOperator", "CompoundAssignOperator", "UnaryOperator")
                      and x.get("op") in ("=", "+=", "-=", "++", "--") and strip(x["c"][0]).get("var") == a0.get("var")]
                if len(d) == 1 and not wr:
                    anchor = d[0]
                    a0 = facts.strip_all(d[0]["c"][0])
                    continue
            break
        n_ = n
        n = anchor
        if a0["k"] == "DeclRefExpr" and a0.get("var") == tot and g.reached_from_entry_avoiding(g.pos(n), [g.pos(c) for c in clamp]) is None:
            rep.ok("R5-fragment-length", key, facts.loc(f, n_), "%s built from the size clamped to the header's total length" % what)
        else:
            rep.violation("R5-fragment-length", key, facts.loc(f, n_),
                          "%s is given `%s`, not the size clamped to the IP total length: trailing link-layer padding becomes part of the "
                          "fragment and of the reassembled datagram" % (what, facts.expr_str(a)[:50]))


def r4(db, rep):
    af = fn1(db, STREAM + "::add_fragment")
    g = cfg.FnCFG(af)
    ins = [n for n in calls_named(af, "insert", "fragments_")] + [n for n in calls_named(af, "push_back", "fragments_")]
    adds = [n for n in facts.fn_nodes(af) if n["k"] == "CompoundAssignOperator" and n["op"] == "+=" and "received_size_" in facts.expr_str(n["c"][0])]
    if len(ins) != 1 or len(adds) != 1:
        rep.violation("R4-accounting", "add_fragment:pairing", facts.loc(af), "expected one insertion and one byte-count update, found %d and %d" % (len(ins), len(adds)))
        return
    pi, pa = g.pos(ins[0]), g.pos(adds[0])
    w1 = g.covered(pi, [pa])
    w2 = g.covered(pa, [pi])
    same = "inner_pdu()" in facts.expr_str(ins[0]) and "inner_pdu()->size()" in facts.expr_str(facts.inline_locals(af, adds[0]["c"][1]))
    if w1 is None and w2 is None and same:
        rep.ok("R4-accounting", "add_fragment:pairing", facts.loc(af, ins[0]), "insertion and received_size_ += size of the same payload on the same paths")
    else:
        rep.violation("R4-accounting", "add_fragment:pairing", facts.loc(af, ins[0]),
                      "a fragment can be stored without being counted (or counted without being stored)%s" % ("" if same else ": the size added is not that of the stored payload"))
    # duplicate test dominates both
    dup = None
    for n in facts.fn_nodes(af):
        if n["k"] == "IfStmt":
            c0 = n["c"][0] if n["c"][0] is not None else n["c"][1]
            at = cond.facts_of(af, c0, True)
            if any(op == "==" and "offset" in facts.expr_str(l) and "offset" in facts.expr_str(rr) for op, l, rr in at if rr is not None) and \
                    any(x["k"] == "ReturnStmt" for x in facts.walk(n)):
                dup = c0
    # the test may be fused into the search loop (`for (; it != end; ++it) { if (it->offset() == offset) return; if (it->offset()
    # > offset) break; }`): then it runs for every stored fragment the walk visits - what dominates insertion and accounting
    # is the loop, and inside its body the test comes first
    fused = None
    if dup is not None:
        for l_ in [n for n in facts.fn_nodes(af) if n["k"] in ("WhileStmt", "ForStmt")]:
            real_ = [x for x in l_["c"] if x is not None]
            if any(y is dup for y in facts.walk(real_[-1])):
                conds_ = [x for x in real_[:-1] if x["k"] != "DeclStmt" and g.pos(x)]
                ok_first = all(g.before_on_all_paths(g.pos(dup), g.pos(y)) or any(z is y for z in facts.walk(dup))
                               for y in facts.walk(real_[-1]) if y["k"] == "BinaryOperator" and y.get("op") in ("<", ">", "<=", ">=") and g.pos(y)
                               and "offset" in facts.expr_str(y))
                if conds_ and ok_first and all(g.before_on_all_paths(g.pos(conds_[0]), p_) for p_ in (pi, pa)):
                    fused = l_
    if dup is not None and (fused is not None or (g.before_on_all_paths(g.pos(dup), pi) and g.before_on_all_paths(g.pos(dup), pa))):
        rep.ok("R4-accounting", "add_fragment:duplicate-test", facts.loc(af, dup), "duplicate-offset test precedes insertion and accounting on every path")
    else:
        rep.violation("R4-accounting", "add_fragment:duplicate-test", facts.loc(af), "insertion/accounting reachable without the duplicate-offset test")
    # ordered search: iterator starts at begin() and the search loop dominates the duplicate test
    loops = [n for n in facts.fn_nodes(af) if n["k"] == "WhileStmt" or n["k"] == "ForStmt"]
    itdecl = [n for n in facts.fn_nodes(af) if n["k"] == "VarDecl" and "iterator" in (facts.tyi(af, n.get("t")) or {}).get("s", "")]
    okb = itdecl and itdecl[0].get("c") and "begin" in facts.expr_str(itdecl[0]["c"][0])
    search = None
    for l in loops:
        c0 = l["c"][0] if l["k"] == "WhileStmt" and len(l["c"]) == 2 else (l["c"][1] if l["k"] == "WhileStmt" else l["c"][2])
        at = cond.facts_of(af, c0, True)
        if any(op in (">", "<", ">=", "<=") and "offset" in facts.expr_str(l_) + facts.expr_str(r_) for op, l_, r_ in at if r_ is not None):
            search = c0
    if search is None and itdecl and itdecl[0].get("c"):
        # the same search as a std algorithm: it = find_if(C.begin(), C.end(), P) with P comparing offsets
        for x in facts.walk(itdecl[0]["c"][0]):
            if x["k"] == "CallExpr" and x.get("cname") in ("find_if", "find_if_not", "lower_bound", "upper_bound", "partition_point") and len(x["c"]) >= 4 \
                    and "begin" in facts.expr_str(x["c"][1]) and "end" in facts.expr_str(x["c"][2]):
                pt = facts.ty(af, facts.strip_all(x["c"][-1])) or {}
                while pt.get("k") == "ref" and pt.get("to"):
                    pt = pt["to"]
                for pf in db.functions.values():
                    if pf.get("rec") == pt.get("name") and pf.get("name") == "operator()" and pf.get("body"):
                        if any(y["k"] == "BinaryOperator" and y.get("op") in ("<", ">", "<=", ">=") and "offset" in facts.expr_str(y)
                               for y in facts.fn_nodes(pf)):
                            search = x
    if search is None and fused is not None:
        # fused form: the ordering test is the `break` condition inside the loop body
        for y in facts.walk([x for x in fused["c"] if x is not None][-1]):
            if y["k"] == "BinaryOperator" and y.get("op") in ("<", ">", "<=", ">=") and "offset" in facts.expr_str(y):
                search = y
    if okb and search is not None and dup is not None and (fused is not None or g.before_on_all_paths(g.pos(search), g.pos(dup))):
        rep.ok("R4-accounting", "add_fragment:ordered-search", facts.loc(af, search),
               "position found by a search from begin() that runs on every path before the duplicate test")
    else:
        rep.violation("R4-accounting", "add_fragment:ordered-search", facts.loc(af),
                      "the insertion position / duplicate test can be reached without the ordered search from begin() "
                      "(duplicates of the fragment with the highest offset are stored twice)")
    # last fragment bookkeeping
    last = [n for n in facts.fn_nodes(af) if n["k"] == "BinaryOperator" and n["op"] == "=" and "received_end_" in facts.expr_str(n["c"][0])]
    tot = [n for n in facts.fn_nodes(af) if n["k"] == "BinaryOperator" and n["op"] == "=" and "total_size_" in facts.expr_str(n["c"][0])]
    if last and tot and g.pos(last[0])[0] == g.pos(tot[0])[0]:
        gf = cond.guards_facts(g, g.pos(last[0]))
        # the MF test, wherever it is spelled (named local, one-line accessor of the class)
        if any("MORE_FRAGMENTS" in facts.deep_text(db, af, l) or (rr is not None and "MORE_FRAGMENTS" in facts.deep_text(db, af, rr)) for op, l, rr in gf):
            rep.ok("R4-accounting", "add_fragment:last-fragment", facts.loc(af, last[0]), "total size and end flag recorded together when MF is clear")
            return
    rep.violation("R4-accounting", "add_fragment:last-fragment", facts.loc(af), "total size / end-seen flag are not recorded together under the MF-clear test")


def r6(db, rep):
    from rules.c12 import path_avoiding
    af = fn1(db, STREAM + "::allocate_pdu")
    g = cfg.FnCFG(af)
    idx, par = facts.index_fn(af)

    def in_loop(n):
        p = par.get(n["id"])
        while p is not None:
            if p["k"] in ("ForStmt", "WhileStmt", "DoStmt", "CXXForRangeStmt"):
                return True
            p = par.get(p["id"])
        return False

    def nullable(e):
        """None = certainly non-null, else a reason"""
        e0 = facts.strip_all(e)
        if e0["k"] == "CXXNewExpr":
            return None
        if e0["k"] == "CallExpr" and e0.get("cname") == "pdu_from_flag":
            args = e0["c"][1:]
            if len(args) >= 4:
                v = facts.cval(args[3])
                if v is None and args[3]["k"] == "CXXDefaultArgExpr":
                    v = 1
                if v:
                    return None
                return "pdu_from_flag(..., rawpdu_on_no_match = false) returns null for a protocol libtins has no class for"
            return None
        if e0["k"] == "ConditionalOperator":
            return nullable(e0["c"][1]) or nullable(e0["c"][2])
        if facts.cval(e) == 0:
            return "a null pointer constant"
        return "`%s` may be null" % facts.expr_str(e0)[:60]
    n = 0
    _, gaps = contiguity_site(db, af)
    for r in facts.fn_nodes(af):
        if r["k"] != "ReturnStmt" or not r.get("c") or in_loop(r) or any(r is x for x in gaps):
            continue
        n += 1
        key = "allocate_pdu:return#%d" % n
        e0 = facts.strip_all(r["c"][0])
        why = None
        if e0["k"] == "DeclRefExpr" and e0.get("var") and not e0.get("parm"):
            v = e0["var"]
            defs = []
            for x in facts.fn_nodes(af):
                if x["k"] == "VarDecl" and x.get("var") == v and x.get("c"):
                    defs.append((x, x["c"][0]))
                if x["k"] == "BinaryOperator" and x.get("op") == "=" and facts.strip_all(x["c"][0]).get("var") == v:
                    defs.append((x, x["c"][1]))
            fix = []
            for x in facts.fn_nodes(af):
                if x["k"] == "IfStmt":
                    real = [y for y in x["c"] if y is not None]
                    c = strip(real[0])
                    neg = c["k"] == "UnaryOperator" and c.get("op") == "!" and facts.strip_all(c["c"][0]).get("var") == v
                    eq0 = c["k"] == "BinaryOperator" and c.get("op") == "==" and any(
                        facts.strip_all(c["c"][i]).get("var") == v and facts.cval(c["c"][1 - i]) == 0 for i in (0, 1))
                    if (neg or eq0) and any(y["k"] == "BinaryOperator" and y.get("op") == "=" and facts.strip_all(y["c"][0]).get("var") == v and
                                            nullable(y["c"][1]) is None for y in facts.walk(real[1])):
                        fix.append(g.pos(real[0]))
            fix = [q for q in fix if q]
            for d, val in defs:
                nl = nullable(val)
                if nl and par.get(d["id"]) is not None:
                    # inside a fix-up branch itself?  then it is the non-null store
                    if path_avoiding(g, g.pos(d), g.pos(r), fix):
                        why = nl
        else:
            why = nullable(r["c"][0])
        if why:
            rep.violation("R6-always-a-payload", key, facts.loc(af, r),
                          "after the contiguity check allocate_pdu() can return null (%s): the completed datagram is reported FRAGMENTED and "
                          "dropped instead of being delivered with a RawPDU payload" % why)
        else:
            rep.ok("R6-always-a-payload", key, facts.loc(af, r), "non-null on every path (RawPDU fallback)")
    if n < 1:
        rep.analysis_broken("allocate_pdu: no return after the contiguity loop found")


def r9_stale(db, rep):
    REC = "Tins::IPv4Reassembler"
    r = db.records.get(REC)
    if not r:
        rep.analysis_broken("IPv4Reassembler vanished")
        return
    cached = []
    for fl in r.get("fields", []):
        t = facts.tyi(r, fl.get("t")) or {}
        s_ = t.get("s") or ""
        if (t.get("k") == "ptr" and "IPv4Stream" in s_) or "_Rb_tree_iterator" in s_ or ("iterator" in s_ and "IPv4Stream" in s_):
            cached.append(fl["name"])
    for F in cached:
        for f in sorted(db.functions.values(), key=lambda x: x["id"]):
            if f.get("rec") != REC or not f.get("body") or f.get("kind") in ("ctor", "dtor"):
                continue
            g = None
            for x in facts.fn_nodes(f):
                if x["k"] == "CXXMemberCallExpr" and x.get("cname") in ("erase", "clear") and "streams_" in facts.expr_str(x["c"][0]):
                    g = g or cfg.FnCFG(f)
                    resets = [n for n in facts.fn_nodes(f) if n["k"] == "BinaryOperator" and n.get("op") == "=" and
                              facts.strip_all(n["c"][0]).get("member") == F and
                              (facts.cval(n["c"][1]) == 0 or facts.strip_all(n["c"][1])["k"] in ("CXXNullPtrLiteralExpr", "GNUNullExpr"))]
                    key = "%s:%s@%s" % (f["qual"].split("::")[-1], F, x.get("cname"))
                    px = g.pos(x)
                    ok = any(g.before_on_all_paths(g.pos(n), px) for n in resets if g.pos(n)) or \
                        (resets and g.reaches_exit_avoiding(px, [g.pos(n) for n in resets if g.pos(n)], normal_only=True) is None)
                    if ok:
                        rep.ok("R9-no-stale-element", key, facts.loc(f, x), "`%s` is reset around this %s" % (F, x["cname"]))
                    else:
                        rep.violation("R9-no-stale-element", key, facts.loc(f, x),
                                      "streams_.%s() destroys stream objects while `%s` may still point at one of them and is not reset here: "
                                      "the next fragment with the same key is added to a freed IPv4Stream (use after free)" % (x["cname"], F))


def r7(db, rep):
    from vlib import bitprov as bp
    af = fn1(db, STREAM + "::add_fragment")
    g = cfg.FnCFG(af)
    ins = [n for n in calls_named(af, "insert", "fragments_")] + [n for n in calls_named(af, "push_back", "fragments_")]
    key = "add_fragment:early-returns"
    if not ins:
        rep.violation("R7-every-fragment", key, facts.loc(af), "no insertion into fragments_ found")
    else:
        bad = None
        for r in facts.fn_nodes(af):
            if r["k"] != "ReturnStmt":
                continue
            if not g.reachable(g.pos(r), g.pos(ins[0])) and g.reached_from_entry_avoiding(g.pos(r), [g.pos(ins[0])]) is not None:
                # a return taken instead of the insertion: only for a duplicate offset
                fs_ = cond.guards_facts(g, g.pos(r))
                dup = any(op == "==" and rr is not None and "offset" in facts.expr_str(l) and "offset" in facts.expr_str(rr) for op, l, rr in fs_)
                if not dup:
                    bad = r
        if bad is not None:
            rep.violation("R7-every-fragment", key, facts.loc(af, bad),
                          "add_fragment can return without storing a fragment whose offset is new (%s): the datagram can never complete"
                          % "; ".join("%s %s %s" % (facts.expr_str(l), op, facts.expr_str(rr) if rr is not None else "") for op, l, rr in cond.guards_facts(g, g.pos(bad)))[:160])
        else:
            rep.ok("R7-every-fragment", key, facts.loc(af, ins[0]), "every return before the insertion is the duplicate-offset one")
    # is_fragmented as a bit function of the header
    fs = [f for f in db.fns_named("Tins::IP::is_fragmented") if f.get("body")]
    key = "IP::is_fragmented"
    if not fs:
        rep.analysis_broken("IP::is_fragmented vanished")
        return
    rec = "Tins::IP"
    try:
        thist = {"k": "rec", "name": rec, "size": db.records[rec]["size"]}
        thisloc = bp.Loc("this", 0, thist)

        def run_(setup):
            m = bp.Machine(db)
            setup(m)
            this = m.new_region("this", "m")
            rv_ = m.call(fs[0], bp.Loc(this, 0, thist), [])
            if rv_ is None:
                raise bp.Unsupported("a path returns no value")
            return bp.Frame(m, fs[0], bp.Loc(this, 0, thist), 0).truth(rv_)
        # every path through the function (early returns on a tested flag included): the result is the disjunction of
        # path condition AND value
        bit = 0
        for pc, res in bp.explore_paths(run_):
            if res == "throw":
                raise bp.Unsupported("is_fragmented can throw")
            res = 1 if res is True else (0 if res is False else res)
            bit = bp.b_or(bit, bp.b_and(pc, res))
        from rules.c15 import result_bits
        sup_want = set()
        for nm in ("fragment_offset", "flags"):
            gs = [x for x in db.fns_named(rec + "::" + nm) if x.get("body") and not x["params"]]
            m2 = bp.Machine(db)
            t2 = m2.new_region("this", "m")
            bits = result_bits(m2, m2.call(gs[0], bp.Loc(t2, 0, thisloc.t), []))
            if nm == "flags":
                # the more-fragments bit: enumerator MORE_FRAGMENTS of IP::Flags
                en = db.enums.get("Tins::IP::Flags")
                mf = [e["v"] for e in en["enumerators"] if e["name"] == "MORE_FRAGMENTS"][0]
                bits = [b for i, b in enumerate(bits) if (mf >> i) & 1]
            for b in bits:
                bp.support(b, "m", sup_want)
    except (bp.Unsupported, bp.Throw, KeyError, IndexError) as e:
        rep.analysis_broken("IP::is_fragmented: outside the E-BITS language: %s" % e)
        return
    sup = set()
    if not isinstance(bit, (bool, int)):
        bp.support(bit, "m", sup)
    bad = None
    if sup != sup_want:
        miss = sorted(sup_want - sup)
        extra = sorted(sup - sup_want)
        bad = ("is_fragmented() reads header bits %s; the more-fragments flag and the 13 offset bits are %s%s%s" %
               (sorted(sup), sorted(sup_want), " - ignored: byte %d bit %d" % (miss[0] // 8, miss[0] % 8) if miss else "",
                " - also reads byte %d bit %d" % (extra[0] // 8, extra[0] % 8) if extra else ""))
    else:
        from rules.c14 import _subst
        for j in sorted(sup_want):
            v = _subst(bit, lambda b, j=j: (1 if b[1] == j else 0) if b[0] == "m" else b)
            if v != 1:
                bad = "with only header bit %d set is_fragmented() is not true" % j
                break
        if bad is None and _subst(bit, lambda b: 0 if b[0] == "m" else b) != 0:
            bad = "is_fragmented() is true for an unfragmented header"
    if bad:
        rep.violation("R7-every-fragment", key, facts.loc(fs[0]), bad + ": such fragments are treated as whole packets and the datagram never completes")
    else:
        rep.ok("R7-every-fragment", key, facts.loc(fs[0]), "true exactly when one of the %d bits (MF + offset) is set" % len(sup_want))
