"""C01 - parsing untrusted bytes is memory-safe and fails only as malformed-packet.
Rules implemented so far (DESIGN.md C01):
 R4 escape   exception-escape analysis: parser entry points let only
             malformed_packet out; read-only accessors / decoders only libtins
             exceptions (subclasses of exception_base).
"""
import re
from vlib import facts, cfg, exc, bits
from vlib.facts import strip

PID = "C01"
PDU = "Tins::PDU"
MALFORMED = "Tins::malformed_packet"
BASE = "Tins::exception_base"


def small_uint_width(rec):
    m = re.match(r"Tins::small_uint<(\d+)", rec or "")
    return int(m.group(1)) if m else None


def make_discharge(db):
    bits.DB[0] = db

    def discharge(f, call, t):
        k = call["k"]
        if t == "Tins::value_too_large" and k in ("CXXConstructExpr", "CXXTemporaryObjectExpr"):
            n = small_uint_width(call.get("crec"))
            args = call.get("c", [])
            if n and len(args) == 1:
                mv = bits.maxval(f, args[0])
                if mv is not None and mv <= (1 << n) - 1:
                    return "small_uint<%d> built from a value bounded by %d (bit-field / mask / shift)" % (n, mv)
        if t == "Tins::option_payload_too_large":
            args = None
            if k in ("CXXConstructExpr", "CXXTemporaryObjectExpr") and (call.get("crec") or "").startswith("Tins::PDUOption<"):
                args = call.get("c", [])
            elif k == "CXXMemberCallExpr" and call.get("cname") == "set_payload_contents":
                args = [None] + cfg.args(call)
            if args is not None and len(args) == 3:
                a1, a2 = strip(args[1]), strip(args[2])
                L = None
                if a2["k"] == "BinaryOperator" and a2["op"] == "+" and facts.expr_str(a2["c"][0]) == facts.expr_str(a1):
                    L = a2["c"][1]
                else:
                    t1 = facts.ty(f, a1)
                    if t1 and t1.get("k") in ("int",):
                        L = a1
                if L is not None:
                    mv = bits.maxval(f, L)
                    if mv is not None and mv <= 65535:
                        return "option payload length bounded by %d <= 65535" % mv
            if args is not None and len(args) == 1:
                return None
        return None
    return discharge


def parser_entries(db):
    pdus = set(db.all_derived(PDU))
    out = []
    for f in db.functions.values():
        if f.get("kind") == "ctor" and f.get("rec") in pdus and len(f["params"]) >= 2:
            t0, t1 = facts.tyi(f, f["params"][0]["t"]), facts.tyi(f, f["params"][1]["t"])
            if t0["s"] == "const unsigned char *" and t1["s"] == "unsigned int":
                out.append(f)
    for q in ("Tins::Dot11::from_bytes", "Tins::EAPOL::from_bytes", "Tins::Internals::pdu_from_flag",
              "Tins::Internals::pdu_from_dlt_flag", "Tins::Internals::is_dot3",
              "Tins::Internals::try_parse_icmp_extensions"):
        fs = db.fns_named(q)
        if not fs:
            raise facts.AnalysisBroken("parser entry point %s vanished" % q)
        out += fs
    for f in db.functions.values():
        if f["name"] == "extract_metadata" and f.get("rec") in pdus:
            out.append(f)
    return out


def accessor_entries(db):
    """public const methods of layer classes and of the option/record value types
    they hand out, plus the option decoders"""
    pdus = set(db.all_derived(PDU)) | set([PDU])
    out = []
    for f in db.functions.values():
        if f.get("implicit") or not f.get("body"):
            continue
        rec = f.get("rec") or ""
        name = f["name"]
        if f.get("kind") == "method" and f.get("const") and f.get("access") == "public" and \
                (rec in pdus or rec.startswith("Tins::PDUOption<") or
                 any(rec.startswith(p + "::") for p in pdus)) and \
                name not in ("send", "recv_response", "matches_response", "serialize"):
            out.append(f)
        elif name in ("from_option", "from_extension_header", "convert", "from_bytes_option") and \
                (f["qual"].startswith("Tins::")):
            out.append(f)
    return out


def run(db, rep, tier):
    rep.rule("R4-escape-parse", "only malformed_packet can propagate out of a packet-parsing entry point", 70)
    rep.rule("R4-escape-access", "read-only accessors and option decoders raise only libtins exceptions", 500)
    rep.rule("R2-bounds-parse", "every raw read/copy in the functions reachable from a parser entry point stays inside the "
                                "buffer it is derived from (incl. union-arm and destination-capacity obligations)", 250)
    rep.rule("R3-bounds-access", "the same for everything reachable from read-only accessors, option decoders and section getters "
                                 "(incl. preconditions of internal helpers and class invariants they rely on)", 150)
    r4(db, rep)
    r23(db, rep)
    rep.rule("R5-cursor", "the cursor classes keep their own invariant: buffer_ and size_ move together under n <= size_, can_read(n) is "
                          "size_ >= n, every byte access at the cursor is guarded for its length and followed by skip of that length", 60)
    from rules import _cursor
    _cursor.check(db, rep, "R5-cursor", 60)
    rep.explanation = ("Exception-escape analysis over the resolved call graph (class-hierarchy expansion of virtual calls, "
                       "try/catch filtering by the exception hierarchy). Residues of path-insensitivity are discharged only "
                       "by checked facts (value bound of the argument), never by per-site suppression.")
    rep.assumptions += ["allocation failure (std::bad_alloc) is ignored",
                        "the standard library raises nothing else except through the deny-listed entry points "
                        "(at, substr, sto*, std::function::operator())",
                        "virtual calls on another layer object are accounted to that layer's own row"]


def r4(db, rep):
    ex = exc.Exc(db, boundary=exc.layer_boundary, discharge=make_discharge(db))
    for f in sorted(parser_entries(db), key=lambda f: f["id"]):
        es = ex.escapes(f["id"])
        key = f["id"]
        bad = dict((t, v) for t, v in es.items() if t != MALFORMED)
        if bad:
            for t, (site, chain) in sorted(bad.items()):
                rep.violation("R4-escape-parse", "%s throws %s" % (key, t), facts.loc(f),
                              "%s raised at %s can propagate out of this parser via %s; the capture loop and callers only "
                              "intercept malformed_packet" % (t, site, " -> ".join(x.split("(")[0] for x in chain[-4:])))
        else:
            rep.ok("R4-escape-parse", key, facts.loc(f), "escape set = %s" % sorted(es))
    for f in sorted(accessor_entries(db), key=lambda f: f["id"]):
        es = ex.escapes(f["id"])
        key = f["id"]
        bad = dict((t, v) for t, v in es.items() if BASE not in ex.bases_of(t))
        if bad:
            for t, (site, chain) in sorted(bad.items()):
                rep.violation("R4-escape-access", "%s throws %s" % (key, t), facts.loc(f),
                              "%s raised at %s can propagate out of this read-only accessor via %s; it is not a libtins "
                              "exception" % (t, site, " -> ".join(x.split("(")[0] for x in chain[-4:])))
        else:
            rep.ok("R4-escape-access", key, facts.loc(f), "escape set = %s" % sorted(es))
    rep.extra["discharged_residues"] = len(ex.discharged)
    rep.extra["discharge_samples"] = [dict(function=a, site=b, type=c, reason=d) for a, b, c, d in ex.discharged[:12]]


# ---------------------------------------------------------------------------
# R2/R3: raw-access bounds in everything the parsers and read-only accessors reach
# ---------------------------------------------------------------------------
def reachable(db, entries):
    seen = {}
    todo = [f["id"] for f in entries]
    while todo:
        fid = todo.pop()
        if fid in seen:
            continue
        f = db.fn(fid)
        if f is None:
            continue
        seen[fid] = f
        for n in facts.fn_nodes(f):
            c = n.get("callee")
            if c and not n.get("ext"):
                if c not in seen:
                    todo.append(c)
                if n.get("virt"):
                    for o in db.all_overriders(c):
                        if o not in seen:
                            todo.append(o)
    return seen


SERIALIZE_NAMES = ("write_serialization", "serialize", "prepare_for_serialize", "send", "recv_response")


def bounds_scope(db):
    pe = parser_entries(db)
    ae = [f for f in accessor_entries(db)]
    rp = reachable(db, pe)
    ra = reachable(db, ae)
    out = {}
    for fid, f in list(rp.items()) + list(ra.items()):
        if f["name"] in SERIALIZE_NAMES or f.get("implicit"):
            continue
        if f["file"].startswith("src/crypto") or f["file"] in ("src/packet_sender.cpp", "src/network_interface.cpp"):
            continue
        out[fid] = f
    return out, rp, ra


def r23(db, rep):
    from rules import _bounds
    sc, rp, ra = bounds_scope(db)
    # the option value type and the cursor class are part of every parser
    for f in db.functions.values():
        r = f.get("rec") or ""
        if (r.startswith("Tins::PDUOption<") or r == "Tins::Memory::InputMemoryStream") and f.get("body") and not f.get("implicit"):
            sc[f["id"]] = f
    par = dict((fid, f) for fid, f in sc.items() if fid in rp)
    acc = dict((fid, f) for fid, f in sc.items() if fid not in rp)
    nf1, no1 = _bounds.run_functions(db, rep, "R2-bounds-parse", par.values())
    nf2, no2 = _bounds.run_functions(db, rep, "R3-bounds-access", acc.values())
    rep.extra["R2_functions"] = nf1
    rep.extra["R3_functions"] = nf2
