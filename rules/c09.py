"""C09 - WEP / WPA2 decryption (DESIGN.md C09).  Decided clauses:

 R1 integrity   "frames whose integrity check fails ... are never reported as decrypted": in the three frame
                decryptors every non-null result is dominated by the successful ICV / MIC comparison; in the two
                decrypt(PDU&) drivers `return true` is dominated by a non-null result and follows inner_pdu(...) and
                wep(0).
 R2 bounds      memory safety for hostile/truncated frames: E-BOUNDS over every function of the crypto translation
                unit (payload vectors as cursors, requirements of private helpers discharged by their callers' guards).
 R3 both-pairs  WPA2Decrypter::decrypt looks the keys up by the (bssid, source) pair and then by the (bssid,
                destination) pair before giving up.
Not decided: cipher correctness, PTK derivation, handshake ordering (value level).  The CCMP block loop's offsets
depend on a division/modulo and are reported as undecided, not as proven.
"""
from vlib import facts, cfg, cond, formula
from vlib.facts import strip
from rules import _bounds

PID = "C09"
FRAME_DECRYPTORS = {
    "Tins::Crypto::WEPDecrypter::decrypt(Tins::RawPDU &": "crc",
    "Tins::Crypto::WPA2::SessionKeys::tkip_decrypt_unicast(": "crc",
    "Tins::Crypto::WPA2::SessionKeys::ccmp_decrypt_unicast(": "mic",
}
DRIVERS = ["Tins::Crypto::WEPDecrypter::decrypt(Tins::PDU &)", "Tins::Crypto::WPA2Decrypter::decrypt(Tins::PDU &)"]


def run(db, rep, tier):
    rep.rule("R1-integrity", "a decrypted frame is only produced / reported after the ICV or MIC comparison succeeded", 5)
    rep.rule("R2-bounds", "every raw access in the decryption code stays inside the frame body, key buffers and scratch blocks", 60)
    rep.rule("R3-both-pairs", "WPA2 keys are looked up by the source pair and then by the destination pair", 1)
    rep.rule("R4-handshake-step", "a handshake message is appended only when it is the next one; a retransmission of the last stored one changes nothing", 1)
    r1(db, rep)
    r2(db, rep)
    r3(db, rep)
    rep.rule("R5-latest-key", "session keys learned from a new handshake (or supplied directly) replace the stored ones for that pair", 2)
    r5(db, rep)
    r4(db, rep)
    rep.rule("R6-key-buffer", "WEP: the scratch key buffer never shrinks below 3 + the longest registered key (decrypt copies IV + key into it "
                              "without a size test of its own)", 1)
    r6(db, rep)
    rep.rule("R7-consume-handshake", "a completed handshake taken from the capturer is always cleared afterwards, whether or not keys could be "
                                     "derived from it", 1)
    r7(db, rep)
    rep.rule("R8-ds-address-table", "which of addr1/2/3 is the BSSID, the source and the destination follows the 802.11 To-DS / From-DS table "
                                    "in every key and access-point look-up", 4)
    r8(db, rep)
    rep.rule("R9-per-station", "completing (or restarting) one station's handshake touches only that station's entry of the capturer's table", 1)
    r9(db, rep)
    rep.rule("R10-tkip-words", "TKIP key mixing loads every 16-bit word least-significant octet first: key and address words as "
                               "(x[k+1], x[k]), and from the TKIP header IV16 = (octet 0, octet 2), Lo16(IV32) = (octet 5, octet 4), "
                               "Hi16(IV32) = (octet 7, octet 6)", 3)
    r10(db, rep)
    rep.rule("R11-normalised-keys", "every key under which WPA2Decrypter stores or looks up session keys is a normalised address pair (made by "
                                    "make_addr_pair, directly or through the extract_addr_pair functions): a key stored as given can never be "
                                    "found by the look-ups, which all normalise", 3)
    r11(db, rep)
    rep.explanation = ("Also decides the step table of RSNHandshakeCapturer::do_insert (R4: append iff next expected, keep state on a "
                       "retransmission of the last stored message). Decides two clauses of C09: 'frames whose integrity check fails are never reported as decrypted' "
                       "(guard dominance on every non-null return) and 'decrypting truncated/corrupted/hostile protected "
                       "frames is memory-safe' for every access whose offset is linear (the CCMP per-block offsets depend "
                       "on a division and are listed as undecided). Cipher correctness and key derivation are value-level "
                       "and not decided. Two genuine defects found here were repaired (fix: commits).")
    rep.assumptions += ["OpenSSL primitives read/write exactly the documented block and digest sizes"]


_ICV = {}


def icv_helper(db, callee):
    """is `callee` a boolean helper that returns true only when four byte equalities against the bytes of one 32-bit value
    (x & 0xff, x >> 8, x >> 16, x >> 24) all hold?  (the ICV comparison, extracted into a function)"""
    key = (id(db), callee)
    if key in _ICV:
        return _ICV[key]
    _ICV[key] = False
    h = db.fn(callee) if callee else None
    if h is None or not h.get("body") or (facts.tyi(h, h.get("ret")) or {}).get("k") != "bool":
        return False
    try:
        atoms, table = formula.truth_table(h)
    except facts.AnalysisBroken:
        return False
    shifts = {}
    for a in atoms:
        if " == " not in a:
            continue
        for sh, pat in ((8, ">> 8"), (16, ">> 16"), (24, ">> 24")):
            if pat in a:
                shifts[sh] = a
        if ">>" not in a and ("& 255" in a or "& 0xff" in a.lower()):
            shifts[0] = a
    if len(shifts) < 4:
        return False
    idx = [atoms.index(shifts[k_]) for k_ in (0, 8, 16, 24)]
    for vals, res in table.items():
        if res is True and not all(vals[i] for i in idx):
            return False
        if all(vals[i] for i in idx) and len(atoms) == 4 and res is not True:
            return False
    _ICV[key] = True
    return True


def integrity_compare_nodes(f, kind, db=None):
    """nodes of the comparison(s) that constitute the integrity check: (node, True when the node is TRUE on success)"""
    out = []
    crc_vars = set(n["var"] for n in facts.fn_nodes(f) if n["k"] == "VarDecl" and n.get("c") and
                   any(x["k"] == "CallExpr" and x.get("cname") == "crc32" for x in facts.walk(n["c"][0])))
    single = facts.single_assign(f)

    def is_crc(e):
        return any((x["k"] == "DeclRefExpr" and x.get("var") in crc_vars) or (x["k"] == "CallExpr" and x.get("cname") == "crc32")
                   for x in facts.walk(e))
    for n in facts.fn_nodes(f):
        if kind == "crc":
            # pload[size - k] != (crc >> s) & 0xff   chained with ||   (or == chained with &&, or a helper doing that)
            if n["k"] == "BinaryOperator" and n["op"] in ("!=", "==") and (is_crc(n["c"][0]) or is_crc(n["c"][1])):
                other = n["c"][1] if is_crc(n["c"][0]) else n["c"][0]
                mine = n["c"][0] if is_crc(n["c"][0]) else n["c"][1]
                wide = (facts.ty(f, facts.strip_all(other)) or {}).get("w") == 32 and facts.strip_all(mine)["k"] in ("DeclRefExpr", "CallExpr")
                if wide:
                    # the whole 32-bit value at once: the stored ICV assembled from four bytes in little-endian order (the
                    # order of the byte-wise form); a big-endian read compares the wrong bytes
                    src = facts.strip_all(other)
                    if src["k"] == "DeclRefExpr" and src.get("var") in single:
                        src = facts.strip_all(single[src["var"]])
                    if any(x["k"] == "CXXMemberCallExpr" and x.get("cname") == "read_be" for x in facts.walk(src)) or \
                            any(x["k"] == "CallExpr" and x.get("cname") in ("be_to_host", "host_to_be") for x in facts.walk(src)):
                        continue
                    out += [(n, n["op"] == "==")] * 4
                else:
                    out.append((n, n["op"] == "=="))
            elif n["k"] == "CallExpr" and db is not None and n.get("callee") and not n.get("ext") and icv_helper(db, n["callee"]):
                out += [(n, True)] * 4
        else:
            if n["k"] == "CallExpr" and n.get("cname") == "equal" and "MIC" in facts.expr_str(n):
                out.append((n, True))
    return out


def r1(db, rep):
    for pref, kind in sorted(FRAME_DECRYPTORS.items()):
        fs = [f for fid, f in db.functions.items() if fid.startswith(pref)]
        if not fs:
            rep.analysis_broken("frame decryptor %s... vanished" % pref)
            continue
        f = fs[0]
        g = cfg.FnCFG(f)
        cmp_nodes = integrity_compare_nodes(f, kind, db)
        name = f["id"].split("(")[0].split("::")[-1]
        if (kind == "crc" and len(cmp_nodes) < 4) or (kind == "mic" and len(cmp_nodes) < 1):
            rep.violation("R1-integrity", "%s:check-present" % name, facts.loc(f),
                          "the %s comparison of this decryptor is missing or incomplete (%d comparison(s) found)" %
                          ("4-byte ICV" if kind == "crc" else "MIC", len(cmp_nodes)))
            continue
        rets = [n for n in facts.fn_nodes(f) if n["k"] == "ReturnStmt" and n.get("c") and facts.cval(n["c"][0]) != 0
                and not is_null(n["c"][0])]
        if not rets:
            rep.violation("R1-integrity", "%s:returns" % name, facts.loc(f), "no non-null return found")
            continue
        for i, r in enumerate(rets):
            gs = g.guards_at(g.pos(r))
            okc = 0
            for c, true_on_success in cmp_nodes:
                # the return must lie on the success edge of every comparison: for `a != b` the false edge,
                # for `a == b`, equal(...) or the ICV helper the true edge
                on = False
                for (cn, pol, blk) in gs:
                    if contains(cn, c):
                        if (pol is true_on_success) != negated(cn, c):
                            on = True
                if on:
                    okc += 1
            key = "%s:return#%d" % (name, i)
            if okc == len(cmp_nodes):
                rep.ok("R1-integrity", key, facts.loc(f, r), "non-null result dominated by all %d integrity comparison(s) succeeding" % okc)
            else:
                rep.violation("R1-integrity", key, facts.loc(f, r),
                              "a decrypted frame is returned on a path where only %d of the %d integrity comparison(s) are known "
                              "to have succeeded" % (okc, len(cmp_nodes)))
    for d in DRIVERS:
        f = db.fn(d)
        if f is None:
            rep.analysis_broken("driver %s vanished" % d)
            continue
        name = f["rec"].split("::")[-1] + "::decrypt"
        trues = []
        for fb in driver_bodies(db, f):
            tb = [n for n in facts.fn_nodes(fb) if n["k"] == "ReturnStmt" and n.get("c") and facts.cval(n["c"][0]) == 1]
            if tb:
                f, trues = fb, tb
                break
        g = cfg.FnCFG(f)
        if not trues:
            rep.violation("R1-integrity", name + ":returns-true", facts.loc(f), "driver never reports success")
            continue
        for i, r in enumerate(trues):
            pos = g.pos(r)
            gs = cond.guards_facts(g, pos)
            nonnull = any(op == "true" and ("inner_pdu" in facts.expr_str(l) or "snap" in facts.expr_str(l)) for op, l, rr in gs)
            setinner = [n for n in facts.fn_nodes(f) if n["k"] == "CXXMemberCallExpr" and n.get("cname") == "inner_pdu" and cfg.args(n)]
            wep0 = [n for n in facts.fn_nodes(f) if n["k"] == "CXXMemberCallExpr" and n.get("cname") == "wep" and cfg.args(n)
                    and argval(cfg.args(n)[0]) == 0]
            pre = setinner and wep0 and all(g.before_on_all_paths(g.pos(x), pos) for x in (setinner[0], wep0[0]))
            key = "%s:return-true#%d" % (name, i)
            if nonnull and pre:
                rep.ok("R1-integrity", key, facts.loc(f, r), "success reported only with a non-null decrypted payload installed and the protected flag cleared")
            else:
                rep.violation("R1-integrity", key, facts.loc(f, r),
                              "success is reported without %s" % ("a dominating non-null test of the decrypted payload" if not nonnull
                                                                   else "installing the payload / clearing the protected flag first"))


def argval(e):
    v = facts.cval(e)
    if v is not None:
        return v
    e0 = facts.strip_all(e)
    if e0["k"] in ("CXXConstructExpr", "CXXTemporaryObjectExpr") and len(e0.get("c", [])) == 1:
        return argval(e0["c"][0])
    return None


def contains(root, node):
    for x in facts.walk(root):
        if x is node:
            return True
    return False


def negated(root, node):
    """is node under an odd number of `!` inside root"""
    idxp = {}
    def rec(n, neg):
        if n is node:
            idxp["neg"] = neg
        for c in n.get("c", []) or []:
            if isinstance(c, dict):
                rec(c, (not neg) if (n["k"] == "UnaryOperator" and n.get("op") == "!") else neg)
    rec(root, False)
    return idxp.get("neg", False)


def is_null(e):
    e0 = strip(e)
    return e0["k"] in ("CXXNullPtrLiteralExpr", "GNUNullExpr") or facts.cval(e) == 0


def r2(db, rep):
    fs = [f for f in db.functions.values() if f["file"] in ("src/crypto.cpp",) and f.get("body") and not f.get("implicit")]
    if len(fs) < 30:
        rep.analysis_broken("expected >= 30 functions in src/crypto.cpp, found %d" % len(fs))
    nf, nob = _bounds.run_functions(db, rep, "R2-bounds", fs)
    rep.extra["R2_functions"] = nf


def driver_bodies(db, f):
    """the driver and the bool members of its class whose result it returns (`return decrypt_data_frame(pdu);`): a driver
    split into helpers is judged on the bodies that decide its result"""
    out = [f]
    for n in facts.fn_nodes(f):
        if n["k"] == "ReturnStmt" and n.get("c"):
            c = facts.strip_all(n["c"][0])
            if c["k"] == "CXXMemberCallExpr" and c.get("callee"):
                r = cfg.receiver(c)
                h = db.fn(c["callee"])
                if r is not None and strip(r)["k"] == "CXXThisExpr" and h is not None and h.get("body") and h.get("rec") == f.get("rec") and \
                        (facts.tyi(h, h.get("ret")) or {}).get("k") == "bool" and h is not f:
                    out.append(h)
    return out


def r3(db, rep):
    f0 = db.fn(DRIVERS[1])
    if f0 is None:
        return
    f = f0
    for cand in driver_bodies(db, f0):
        if any(n["k"] == "CXXMemberCallExpr" and n.get("cname") == "find" and "keys_" in facts.expr_str(cfg.receiver(n)) for n in facts.fn_nodes(cand)):
            f = cand
    finds = [n for n in facts.fn_nodes(f) if n["k"] == "CXXMemberCallExpr" and n.get("cname") == "find" and
             "keys_" in facts.expr_str(cfg.receiver(n))]
    args = [facts.expr_str(cfg.args(n)[0]) for n in finds]
    src = [a for a in args if "extract_addr_pair(" in a]
    dst = [a for a in args if "extract_addr_pair_dst(" in a]
    if src and dst:
        g = cfg.FnCFG(f)
        # the second lookup happens only when the first failed, and giving up needs both to have failed
        n2 = [n for n in finds if "extract_addr_pair_dst(" in facts.expr_str(cfg.args(n)[0])][0]
        gs = cond.guards_facts(g, g.pos(n2))
        first_failed = any(op == "==" and "end" in facts.expr_str(rr or {}) for op, l, rr in gs)
        rep.ok("R3-both-pairs", "WPA2Decrypter::decrypt", facts.loc(f, n2),
               "keys_ searched by extract_addr_pair then extract_addr_pair_dst%s" % (" (second only after the first failed)" if first_failed else ""))
    else:
        rep.violation("R3-both-pairs", "WPA2Decrypter::decrypt", facts.loc(f),
                      "keys are looked up by %s only: frames in the other direction of a known association are never decrypted"
                      % ("the source pair" if src else "the destination pair" if dst else "neither pair"))


def r4(db, rep):
    """decision table of do_insert over (stored messages s, expected index e): values are only compared"""
    from vlib import ieval
    fs = db.fns_named("Tins::RSNHandshakeCapturer::do_insert")
    if not fs:
        rep.analysis_broken("RSNHandshakeCapturer::do_insert vanished")
        return
    f = fs[0]
    key = "do_insert:step-table"
    ev = [p for p in f["params"] if p["name"] == "expected"]
    if not ev:
        rep.analysis_broken("do_insert: parameter `expected` not found")
        return
    evar = ev[0]["var"]
    # the function is EXECUTED for an entry that exists (`iter != end`), s stored messages and expected index e: whatever
    # nesting / early returns / named locals it is written with, the effects on the stored list are collected

    def effects(_root, env, tf):
        def tf2(x, st):
            if x["k"] == "CXXOperatorCallExpr" and x.get("op") in ("!=", "==") and len(x["c"]) == 3 and \
                    any(y["k"] == "CXXMemberCallExpr" and y.get("cname") == "end" for y in facts.walk(x)):
                return 1 if x["op"] == "!=" else 0
            return tf(x)
        out = set()
        for k_, n_ in ieval.trace(f, f["body"], dict(env, __termfn2__=tf2)):
            if k_ in ("call", "other", "assign"):
                for x in facts.walk(n_):
                    if x["k"] == "CXXMemberCallExpr" and x.get("cname") in ("push_back", "clear", "erase", "assign", "pop_back"):
                        out.add(x["cname"])
        return out
    inner_root = None
    bad = None
    try:
        for e in range(0, 4):
            for s in range(0, 6):
                def tf(x, s=s):
                    if x["k"] == "CXXMemberCallExpr" and x.get("cname") == "size":
                        return s
                    return None
                eff = effects(inner_root, {evar: e}, tf)
                if s == e and eff != {"push_back"}:
                    bad = "with %d message(s) stored and message index %d arriving the capturer does %s instead of appending it" % (s, e, sorted(eff) or "nothing")
                elif s == e + 1 and eff:
                    bad = ("a retransmission of the message just stored (index %d, %d stored) makes the capturer %s the partial handshake: "
                           "a duplicated message loses the handshake" % (e, s, "/".join(sorted(eff))))
                elif s != e and "push_back" in eff:
                    bad = "message index %d is appended although %d message(s) are stored" % (e, s)
                if bad:
                    break
            if bad:
                break
    except ieval.Unknown as ex:
        rep.undecided("R4-handshake-step", key, facts.loc(f), "conditions outside the evaluator: %s" % ex)
        return
    if bad:
        rep.violation("R4-handshake-step", key, facts.loc(f), bad)
    else:
        rep.ok("R4-handshake-step", key, facts.loc(f), "append iff stored == expected; stored == expected + 1 (retransmission) leaves the state; table of 4 x 6 cells")


def r5(db, rep):
    """keys_ is keyed by the address pair; a later handshake for the same pair carries the current key: stores into keys_
    must overwrite (operator[] assignment or erase + insert), map::insert / emplace keep the stale entry"""
    n = 0
    for fid, f in sorted(db.functions.items()):
        if f.get("rec") != "Tins::Crypto::WPA2Decrypter" or not f.get("body"):
            continue
        for x in facts.fn_nodes(f):
            tgt = None
            kind = None
            if x["k"] == "CXXMemberCallExpr" and x.get("cname") in ("insert", "emplace", "emplace_hint"):
                me = x["c"][0]
                while me["k"] in ("ParenExpr", "ImplicitCastExpr"):
                    me = me["c"][0]
                o = facts.strip_all(me["c"][0]) if me.get("c") else None
                if o is not None and o["k"] == "MemberExpr" and o.get("member") == "keys_":
                    tgt, kind = x, x.get("cname")
            if x["k"] == "CXXOperatorCallExpr" and x.get("op") == "=":
                l = facts.strip_all(x["c"][1])
                if l["k"] == "CXXOperatorCallExpr" and l.get("op") == "[]" and "keys_" in facts.expr_str(l["c"][1]):
                    tgt, kind = x, "operator[] ="
            if tgt is None:
                continue
            n += 1
            key = "%s:keys_#%d" % (f["qual"].split("::")[-1], n)
            if kind == "operator[] =":
                rep.ok("R5-latest-key", key, facts.loc(f, tgt), "keys_[pair] = session overwrites")
            else:
                erased = any(y["k"] == "CXXMemberCallExpr" and y.get("cname") == "erase" and "keys_" in facts.expr_str(y["c"][0]) for y in facts.fn_nodes(f))
                if erased:
                    rep.ok("R5-latest-key", key, facts.loc(f, tgt), "erase + %s" % kind)
                else:
                    rep.violation("R5-latest-key", key, facts.loc(f, tgt),
                                  "keys_.%s(...) does not replace an existing entry: after a second handshake (re-association, key renewal) frames "
                                  "under the current key are not decrypted and frames under the superseded key still are" % kind)
    if n < 2:
        rep.analysis_broken("only %d store(s) into WPA2Decrypter::keys_ found" % n)


def r6(db, rep):
    """class invariant of WEPDecrypter: key_buffer_.size() >= 3 + len(p) for every registered password p"""
    REC = "Tins::Crypto::WEPDecrypter"
    n = 0
    dec = [f for f in db.functions.values() if f.get("rec") == REC and f["qual"].endswith("::decrypt") and f.get("body") and
           any(x["k"] == "CallExpr" and x.get("cname") == "copy" for x in facts.fn_nodes(f))]
    if not dec:
        rep.analysis_broken("WEPDecrypter::decrypt(RawPDU&, const string&) with its copy into key_buffer_ was not found")
        return

    def kb_size(e):
        e0 = facts.strip_all(e)
        return e0["k"] == "CXXMemberCallExpr" and e0.get("cname") == "size" and "key_buffer_" in facts.expr_str(e0)

    def needed(e, pw):
        """3 + pw.size() in any association"""
        t = facts.expr_str(e).replace(" ", "").replace("(", "").replace(")", "").replace("this->", "")
        return t in ("3+%s.size" % pw, "%s.size+3" % pw)
    # a local size test in decrypt makes the invariant unnecessary
    d = dec[0]
    local = [x for x in facts.fn_nodes(d) if x["k"] == "CXXMemberCallExpr" and x.get("cname") == "resize" and "key_buffer_" in facts.expr_str(x)]
    for f in sorted(db.functions.values(), key=lambda x: x["id"]):
        if f.get("rec") != REC or not f.get("body") or f.get("kind") in ("ctor", "dtor"):
            continue
        stores = [x for x in facts.fn_nodes(f) if x["k"] == "CXXOperatorCallExpr" and x.get("cname") == "operator=" and
                  "passwords_" in facts.expr_str(x["c"][1])]
        stores += [x for x in facts.fn_nodes(f) if x["k"] == "CXXMemberCallExpr" and x.get("cname") in ("insert", "emplace") and
                   "passwords_" in facts.expr_str(x["c"][0])]
        if not stores:
            continue
        pwp = [p_ for p_ in f["params"] if "password" in p_["name"]]
        pw = pwp[0]["name"] if pwp else "password"
        g = cfg.FnCFG(f)
        for st in stores:
            n += 1
            key = "%s:key_buffer_#%d" % (f["qual"].split("::")[-1], n)
            good = None
            for x in facts.fn_nodes(f):
                if x["k"] == "CXXMemberCallExpr" and x.get("cname") == "resize" and "key_buffer_" in facts.expr_str(x) and len(x["c"]) >= 2:
                    a = facts.strip_all(facts.inline_locals(f, x["c"][1]))
                    if a["k"] == "CallExpr" and a.get("cname") == "max" and len(a["c"]) == 3:
                        u, w = a["c"][1], a["c"][2]
                        if (kb_size(u) and needed(w, pw)) or (kb_size(w) and needed(u, pw)):
                            if g.reaches_exit_avoiding(g.pos(st), [g.pos(x)], normal_only=True) is None or \
                                    g.reached_from_entry_avoiding(g.pos(st), [g.pos(x)]) is None:
                                good = "resize(max(3 + %s.size(), key_buffer_.size()))" % pw
                    elif needed(a, pw):
                        for op, l, r in cond.guards_facts(g, g.pos(x)):
                            l = facts.inline_locals(f, l)
                            r = facts.inline_locals(f, r) if r is not None else None
                            if r is not None and ((op == "<" and kb_size(l) and needed(r, pw)) or (op == ">" and kb_size(r) and needed(l, pw))):
                                good = "resize(3 + %s.size()) only when the buffer is smaller" % pw
            if good or local:
                rep.ok("R6-key-buffer", key, facts.loc(f, st), good or "decrypt() sizes the buffer itself")
            else:
                rep.violation("R6-key-buffer", key, facts.loc(f, st),
                              "after this registration key_buffer_ is not guaranteed to hold 3 + the longest registered key (no grow-only resize "
                              "on this path): registering a shorter key after a longer one shrinks it, and decrypt() then copies the longer key "
                              "past its end")
    if n < 1:
        rep.analysis_broken("no registration of a WEP password found")


def r7(db, rep):
    fs = db.fns_named("Tins::Crypto::WPA2Decrypter::decrypt")
    if not fs:
        rep.analysis_broken("WPA2Decrypter::decrypt vanished")
        return
    f = fs[0]
    g = cfg.FnCFG(f)
    key = "WPA2Decrypter::decrypt:handshake-consumed"
    uses = [x for x in facts.fn_nodes(f) if x["k"] == "CXXMemberCallExpr" and x.get("cname") in ("front", "back", "begin", "operator[]") and
            "handshakes()" in facts.expr_str(x)]
    if not uses:
        rep.analysis_broken("WPA2Decrypter::decrypt: use of capturer_.handshakes() not found")
        return

    def must_clear(fn_, depth=0):
        """does every normal path through fn_ call clear_handshakes()?"""
        if fn_ is None or not fn_.get("body") or depth > 2:
            return False
        g2 = cfg.FnCFG(fn_)
        pos = []
        for x in facts.fn_nodes(fn_):
            if x["k"] == "CXXMemberCallExpr" and (x.get("cname") == "clear_handshakes" or
                                                  (x.get("callee") and x.get("cname") != "clear_handshakes" and depth < 2 and
                                                   "Crypto" in (x.get("callee") or "") and must_clear(db.fn(x["callee"]), depth + 1))):
                q = g2.pos(x)
                if q:
                    pos.append(q)
        return bool(pos) and g2.reaches_exit_avoiding((g2.entry, -1), pos, normal_only=True) is None
    clears = []
    for x in facts.fn_nodes(f):
        if x["k"] == "CXXMemberCallExpr":
            if x.get("cname") == "clear_handshakes":
                clears.append(g.pos(x))
            elif x.get("callee") and "Crypto" in x["callee"] and must_clear(db.fn(x["callee"])):
                clears.append(g.pos(x))
    clears = [c for c in clears if c]
    bad = [u for u in uses if g.reaches_exit_avoiding(g.pos(u), clears, normal_only=True) is not None]
    if bad or not clears:
        rep.violation("R7-consume-handshake", key, facts.loc(f, (bad or uses)[0]),
                      "a completed handshake is taken from the capturer but a path to the exit does not clear it: it stays at the front of "
                      "the list, every later completed handshake is paired with this stale one, and no further keys are learned")
    else:
        rep.ok("R7-consume-handshake", key, facts.loc(f, uses[0]), "clear_handshakes() on every path after the handshake is used")


# IEEE 802.11 address fields by (from_ds, to_ds); the 4-address case (1,1) is not constrained
DS_TABLE = {
    "BSSID": {(0, 0): "addr3", (0, 1): "addr1", (1, 0): "addr2"},
    "SA": {(0, 0): "addr2", (0, 1): "addr2", (1, 0): "addr3"},
    "DA": {(0, 0): "addr1", (0, 1): "addr3", (1, 0): "addr1"},
}
DS_SITES = (
    ("Tins::Crypto::WPA2Decrypter::find_ap", ("BSSID",), "return"),
    ("Tins::Crypto::WPA2Decrypter::extract_addr_pair", ("BSSID", "SA"), "return"),
    ("Tins::Crypto::WPA2Decrypter::extract_addr_pair_dst", ("BSSID", "DA"), "return"),
    ("Tins::Crypto::WEPDecrypter::decrypt", ("BSSID",), "assign"),
)


def r8(db, rep):
    from vlib import formula
    for q, roles, how in DS_SITES:
        fs = [f for f in db.fns_named(q) if f.get("body")]
        short = q.split("::")[-2] + "::" + q.split("::")[-1]
        if not fs:
            rep.analysis_broken("%s vanished" % q)
            continue
        f = fs[0]
        from vlib import ieval
        # the function is EXECUTED for the three infrastructure settings of (From-DS, To-DS) - bits are served to whatever
        # reads them (an if-chain, a switch over a packed value computed by a file-local helper, ...) - and the address
        # getters named in the return statement reached are compared with the 802.11 table

        def addrs(n):
            return frozenset(x.get("cname") for x in facts.walk(n) if x["k"] == "CXXMemberCallExpr" and x.get("cname") in ("addr1", "addr2", "addr3", "addr4"))
        def reads_ds(n, depth=0):
            for x in facts.walk(n):
                if x["k"] == "CXXMemberCallExpr" and x.get("cname") in ("from_ds", "to_ds"):
                    return True
                if depth < 2 and x["k"] == "CallExpr" and x.get("callee") and not x.get("ext"):
                    h_ = db.fn(x["callee"])
                    if h_ is not None and h_.get("body") and not h_.get("rec") and reads_ds(h_["body"], depth + 1):
                        return True
            return False
        # the region to execute: the statements of the innermost block that test the DS bits (the address selection), with the
        # integer declarations in front of them
        region = None
        for blk in [x for x in facts.fn_nodes(f) if x["k"] == "CompoundStmt"]:
            kids = [y for y in blk.get("c", []) if y is not None]

            def tests_ds(y):
                """the statement itself branches on the DS bits (an if / switch whose condition reads them), or is a plain
                statement that reads them - not merely a block that contains such a statement somewhere inside"""
                if y["k"] in ("IfStmt", "SwitchStmt", "WhileStmt"):
                    head = [w for w in y["c"] if w is not None][0]
                    return reads_ds(head)
                if y["k"] in ("CompoundStmt", "ForStmt", "DoStmt", "CXXTryStmt"):
                    return False
                return reads_ds(y)
            hit = [y for y in kids if tests_ds(y)]
            if hit:
                first = kids.index(hit[0])
                last = kids.index(hit[-1])
                region = {"k": "CompoundStmt", "id": -1, "c": [y for y in kids[:first] if y["k"] == "DeclStmt"] + kids[first:last + 1]}
                # a setting for which the DS-testing statements fall through is decided by what follows them: the region then
                # extends to the next statement of the block that names an address getter (the common `return` of the rest)
                region_ext = None
                for k2 in range(last + 1, len(kids)):
                    if addrs(kids[k2]):
                        region_ext = {"k": "CompoundStmt", "id": -1, "c": region["c"] + kids[last + 1:k2 + 1]}
                        break
        if region is None:
            rep.analysis_broken("%s: DS tests not found" % short)
            continue
        top = region["c"][-1]
        bad = None
        try:
            for (fd, td) in ((0, 0), (0, 1), (1, 0)):
                def tf(e, env, fd=fd, td=td):
                    if e["k"] == "CXXMemberCallExpr" and e.get("cname") == "from_ds":
                        return fd
                    if e["k"] == "CXXMemberCallExpr" and e.get("cname") == "to_ds":
                        return td
                    if e["k"] == "CXXMemberCallExpr" and (e.get("cname") or "").startswith("operator ") and e["c"] and e["c"][0].get("c"):
                        return ieval.ev(f, e["c"][0]["c"][0], env)      # small_uint<1> -> integer conversion
                    return None
                got = frozenset()
                for reg in (region, region_ext):
                    if reg is None or got:
                        continue
                    eff = ieval.trace(f, reg, {"__termfn2__": tf, "__db__": db})
                    for k_, n_ in eff:
                        if k_ in ("return", "call", "assign") and addrs(n_):
                            got = addrs(n_)
                            break
                if not got and not eff:
                    raise ieval.Unknown("nothing executed for From-DS=%d, To-DS=%d" % (fd, td))
                want = frozenset(DS_TABLE[r][(fd, td)] for r in roles)
                if got != want:
                    bad = ("From-DS=%d, To-DS=%d: uses %s; in that frame format the %s %s %s" %
                           (fd, td, sorted(got) or "no address", " and ".join(roles), "is" if len(roles) == 1 else "are", sorted(want)))
                    break
        except ieval.Unknown as e:
            rep.analysis_broken("%s: outside the finite evaluator: %s" % (short, e))
            continue
        key = "%s:ds-table" % short
        if bad:
            rep.violation("R8-ds-address-table", key, facts.loc(f, top), bad + ": keys and access points are looked up under the wrong station")
        else:
            rep.ok("R8-ds-address-table", key, facts.loc(f, top), "%s selected per 802.11 for (0,0), (0,1), (1,0)" % "/".join(roles))


def r12_aad(db, rep):
    """CCMP additional authenticated data (802.11-2012 11.4.3.3.3): octets 22..23 are the Sequence Control field with the
    sequence number masked to 0 and the FRAGMENT NUMBER kept - the frame's fragment number must flow into AAD[22]"""
    fs = [f for fid, f in db.functions.items() if "ccmp_decrypt_unicast(" in fid and f.get("body")]
    if not fs:
        rep.analysis_broken("ccmp_decrypt_unicast vanished")
        return
    f = fs[0]
    stores = []
    for x in facts.fn_nodes(f):
        if x["k"] == "BinaryOperator" and x.get("op") == "=":
            l = facts.strip_all(x["c"][0])
            if l["k"] == "ArraySubscriptExpr" and facts.cval(l["c"][1]) == 22 and "AAD" in facts.expr_str(l["c"][0]).upper():
                stores.append(x)
    key = "ccmp_decrypt_unicast:aad-sequence-control"
    if not stores:
        rep.undecided("R10-tkip-words", key, facts.loc(f), "the AAD is not filled octet by octet any more: the sequence-control octets were not found")
        return
    v = facts.inline_locals(f, stores[-1]["c"][1])
    if any(y["k"] == "CXXMemberCallExpr" and y.get("cname") == "frag_num" for y in facts.walk(v)):
        rep.ok("R10-tkip-words", key, facts.loc(f, stores[-1]), "AAD[22] carries the fragment number (sequence number masked)")
    else:
        rep.violation("R10-tkip-words", key, facts.loc(f, stores[-1]),
                      "AAD[22] is `%s`, not the frame's fragment number: only the sequence number is masked in the CCMP AAD, so the MIC of "
                      "every fragment but the first fails and valid fragmented frames are reported as not decrypted" % facts.expr_str(stores[-1]["c"][1])[:40])


def r11(db, rep):
    r12_aad(db, rep)
    REC = "Tins::Crypto::WPA2Decrypter"
    # normalisers: make_addr_pair, and functions that return nothing but the result of a normaliser
    norm = set(h["id"] for h in db.functions.values() if h.get("name", "").split("::")[-1] == "make_addr_pair")
    if not norm:
        rep.analysis_broken("make_addr_pair vanished")
        return
    for _ in range(3):
        for h in db.functions.values():
            if h["id"] in norm or not h.get("body") or h.get("rec") != REC:
                continue
            rets = [x for x in facts.fn_nodes(h) if x["k"] == "ReturnStmt" and x.get("c")]
            if rets and all(any(y["k"] in ("CallExpr", "CXXMemberCallExpr") and y.get("callee") in norm for y in facts.walk(r_["c"][0]))
                            for r_ in rets) and "addr_pair" in ((facts.tyi(h, h.get("ret")) or {}).get("s") or "") + h["id"]:
                norm.add(h["id"])
    n = 0
    for f in sorted(db.functions.values(), key=lambda x: x["id"]):
        if f.get("rec") != REC or not f.get("body"):
            continue
        sa = facts.single_assign(f)
        for x in facts.fn_nodes(f):
            keye = None
            if x["k"] == "CXXOperatorCallExpr" and x.get("op") == "[]" and len(x["c"]) == 3 and \
                    facts.strip_all(x["c"][1]).get("member") == "keys_":
                keye, how = x["c"][2], "keys_[...]"
            elif x["k"] == "CXXMemberCallExpr" and x.get("cname") in ("find", "count", "erase", "at", "insert", "emplace") and len(x["c"]) >= 2:
                me = facts.strip_all(x["c"][0])
                obj = facts.strip_all(me["c"][0]) if me.get("c") else None
                if obj is not None and obj.get("member") == "keys_":
                    keye, how = x["c"][1], "keys_.%s(...)" % x["cname"]
            if keye is None:
                continue
            n += 1
            key = "%s:%s#%d" % (f["qual"].split("::")[-1], how, n)

            def normalised(e, depth=0):
                if any(y["k"] in ("CallExpr", "CXXMemberCallExpr") and y.get("callee") in norm for y in facts.walk(e)):
                    return True
                e0 = facts.strip_all(e)
                while e0["k"] in ("CXXConstructExpr", "MaterializeTemporaryExpr", "CXXBindTemporaryExpr") and len(e0.get("c", [])) == 1:
                    e0 = facts.strip_all(e0["c"][0])
                if e0["k"] == "DeclRefExpr" and e0.get("var") in sa and not e0.get("parm") and depth < 3:
                    return normalised(sa[e0["var"]], depth + 1)
                return False
            if normalised(keye):
                rep.ok("R11-normalised-keys", key, facts.loc(f, x), "key made by make_addr_pair")
            else:
                rep.violation("R11-normalised-keys", key, facts.loc(f, x),
                              "%s uses `%s` as the key as it was given; the look-ups of decrypt() normalise the pair (smaller address first), "
                              "so keys supplied with the addresses the other way round are stored where no look-up finds them and the frames "
                              "are never decrypted" % (how, facts.expr_str(keye)[:50]))
    if n < 3:
        rep.analysis_broken("only %d keyed accesses of WPA2Decrypter::keys_ found" % n)


def r10(db, rep):
    """RC4Key::from_packet: the operands of every join_bytes(hi, lo) whose two arguments are octets of one array.  The TKIP
    header (802.11-2012 11.4.2.1.2): octet 0 = TSC1, 1 = WEPSeed, 2 = TSC0, 3 = key id, 4..7 = TSC2..TSC5, so
    IV16 = TSC1:TSC0 and IV32 = TSC5:TSC4:TSC3:TSC2; temporal key and transmitter address are octet strings read as
    little-endian 16-bit words.  Sibling rule: the 24 key / address loads all have this form; the header loads must too."""
    fs = [f for fid, f in db.functions.items() if "RC4Key::from_packet(" in fid and f.get("body")]
    if not fs:
        rep.analysis_broken("RC4Key::from_packet vanished")
        return
    f = fs[0]
    hi_lo = [x for x in db.functions.values() if x.get("name", "").split("::")[-1] == "join_bytes" and x.get("body")]
    # join_bytes(b1, b2) == (b1 << 8) | b2: confirmed by execution
    from vlib import ieval
    try:
        jb = hi_lo[0]
        v = ieval.run_body(jb, jb["body"], {jb["params"][0]["var"]: 0x12, jb["params"][1]["var"]: 0x34})
    except (ieval.Unknown, IndexError):
        v = None
    if v != 0x1234:
        rep.analysis_broken("join_bytes(b1, b2) is not (b1 << 8) | b2 any more (0x12, 0x34 -> %s)" % (hex(v) if v is not None else "?"))
        return
    payload_vars = set(n["var"] for n in facts.fn_nodes(f) if n["k"] == "VarDecl" and n.get("c") and
                       any(x["k"] == "CXXMemberCallExpr" and x.get("cname") == "payload" for x in facts.walk(n["c"][0])))
    HEADER = {(0, 2): "IV16 = TSC1:TSC0", (5, 4): "Lo16(IV32) = TSC3:TSC2", (7, 6): "Hi16(IV32) = TSC5:TSC4"}
    n = 0
    for c in facts.fn_nodes(f):
        if c["k"] != "CallExpr" or c.get("cname") != "join_bytes" or len(c["c"]) != 3:
            continue
        a, b = facts.strip_all(c["c"][1]), facts.strip_all(c["c"][2])

        def octet(e):
            # x[i] on a pointer / array / vector / std::array
            if e["k"] == "ArraySubscriptExpr":
                return facts.strip_all(e["c"][0]), facts.cval(e["c"][1])
            if e["k"] == "CXXOperatorCallExpr" and e.get("op") == "[]" and len(e["c"]) == 3:
                return facts.strip_all(e["c"][1]), facts.cval(e["c"][2])
            return None, None
        def octet_sym(e):
            if e["k"] == "ArraySubscriptExpr":
                return facts.strip_all(e["c"][0]), e["c"][1]
            if e["k"] == "CXXOperatorCallExpr" and e.get("op") == "[]" and len(e["c"]) == 3:
                return facts.strip_all(e["c"][1]), e["c"][2]
            return None, None
        (ba, ia), (bb, ib) = octet(a), octet(b)
        if ba is not None and bb is not None and (ia is None or ib is None) and facts.expr_str(ba) == facts.expr_str(bb):
            # indices written over a loop counter (`x[2 * w + 1], x[2 * w]`): evaluated for the first counter values
            (_, ea), (_, eb) = octet_sym(a), octet_sym(b)
            vs = sorted(set(x["var"] for e_ in (ea, eb) for x in facts.walk(e_) if x["k"] == "DeclRefExpr" and x.get("var") and "v" not in x))
            diffs = set()
            try:
                for k_ in range(4):
                    env = dict((v_, k_) for v_ in vs)
                    diffs.add((ieval.ev(f, ea, env) - ieval.ev(f, eb, env), ieval.ev(f, eb, env) % 2))
            except ieval.Unknown:
                continue
            n += 1
            base = facts.expr_str(ba)
            key = "from_packet:%s[%s],%s[%s]#%d" % (base, facts.expr_str(ea)[:16], base, facts.expr_str(eb)[:16], n)
            if diffs == {(1, 0)} and not (ba["k"] == "DeclRefExpr" and ba.get("var") in payload_vars):
                rep.ok("R10-tkip-words", key, facts.loc(f, c), "little-endian words of %s (index pair k+1, k for every counter value tried)" % base)
            else:
                rep.violation("R10-tkip-words", key, facts.loc(f, c),
                              "join_bytes(%s[%s], %s[%s]) is not the little-endian word (x[2w+1], x[2w])" % (base, facts.expr_str(ea), base, facts.expr_str(eb)))
            continue
        if ba is None or bb is None or ia is None or ib is None or facts.expr_str(ba) != facts.expr_str(bb):
            continue
        n += 1
        base = facts.expr_str(ba)
        key = "from_packet:%s[%d],%s[%d]#%d" % (base, ia, base, ib, n)
        if ba["k"] == "DeclRefExpr" and ba.get("var") in payload_vars:
            if (ia, ib) in HEADER:
                rep.ok("R10-tkip-words", key, facts.loc(f, c), HEADER[(ia, ib)])
            else:
                rep.violation("R10-tkip-words", key, facts.loc(f, c),
                              "join_bytes(%s[%d], %s[%d]) builds a word from TKIP header octets %d (high) and %d (low); the header's words are %s: "
                              "with these operands the mixed key is wrong as soon as the octets differ (TSC >= 65536 for IV32) and frames "
                              "encrypted by a conforming station are not decrypted" %
                              (base, ia, base, ib, ia, ib, "; ".join("%s = octets %s" % (v_, k_) for k_, v_ in sorted(HEADER.items()))))
        elif ia == ib + 1:
            rep.ok("R10-tkip-words", key, facts.loc(f, c), "little-endian word %d of %s" % (ib // 2, base))
        else:
            rep.violation("R10-tkip-words", key, facts.loc(f, c),
                          "join_bytes(%s[%d], %s[%d]) is not the little-endian word (x[k+1], x[k]) every other key / address load of the "
                          "mixing function uses" % (base, ia, base, ib))
    if n < 3:
        rep.analysis_broken("only %d word loads found in RC4Key::from_packet (IV16 and the two halves of IV32 expected at least)" % n)
    # the address mixed into phase 1 is the TRANSMITTER address (802.11: TA = Address 2 in every To-DS / From-DS combination)
    for v in facts.fn_nodes(f):
        if v["k"] == "VarDecl" and v.get("c") and "HWAddress" in ((facts.tyi(f, v.get("t")) or {}).get("s") or ""):
            used = any(c["k"] == "CallExpr" and c.get("cname") == "join_bytes" and
                       any(x["k"] == "DeclRefExpr" and x.get("var") == v["var"] for x in facts.walk(c)) for c in facts.fn_nodes(f))
            if not used:
                continue
            getters = [x.get("cname") for x in facts.walk(v["c"][0]) if x["k"] == "CXXMemberCallExpr" and
                       (x.get("cname") or "").startswith(("addr", "src_addr", "dst_addr", "bssid"))]
            key = "from_packet:transmitter-address"
            if getters == ["addr2"]:
                rep.ok("R10-tkip-words", key, facts.loc(f, v), "phase 1 mixes addr2() (TA)")
            elif getters:
                rep.violation("R10-tkip-words", key, facts.loc(f, v),
                              "phase 1 mixes %s(), not the transmitter address addr2(): for frames relayed by the access point (From-DS with "
                              "a source other than the BSSID) the two differ and the frame is not decrypted" % getters[0])


def r9(db, rep):
    REC = "Tins::RSNHandshakeCapturer"
    n = 0
    for f in sorted(db.functions.values(), key=lambda x: x["id"]):
        if f.get("rec") != REC or not f.get("body") or f.get("kind") in ("ctor", "dtor"):
            continue
        for x in facts.fn_nodes(f):
            if x["k"] != "CXXMemberCallExpr" or not x["c"] or not x["c"][0].get("c"):
                continue
            obj = facts.strip_all(x["c"][0]["c"][0])
            if not (obj["k"] == "MemberExpr" and obj.get("member") == "handshakes_" and obj.get("isfield")):
                continue
            cn = x.get("cname")
            if cn in ("clear", "swap", "erase") or cn == "operator=":
                n += 1
                key = "%s:handshakes_.%s#%d" % (f["qual"].split("::")[-1], cn, n)
                if cn == "erase" and len(x["c"]) == 2:
                    rep.ok("R9-per-station", key, facts.loc(f, x), "erases one entry (`%s`)" % facts.expr_str(x["c"][1])[:40])
                elif f["qual"].endswith("::clear_handshakes") or f["qual"].endswith("::clear"):
                    rep.ok("R9-per-station", key, facts.loc(f, x), "the user-requested reset")
                else:
                    rep.violation("R9-per-station", key, facts.loc(f, x),
                                  "handshakes_.%s() in %s drops the partial handshakes of every station: with handshakes overlapping in time "
                                  "only the first to complete yields keys" % (cn, f["qual"].split("::")[-1]))
    if n < 1:
        rep.analysis_broken("no erase of a completed handshake found in RSNHandshakeCapturer")
