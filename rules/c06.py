"""C06 - TCP stream reassembly (DESIGN.md C06).  Decided clauses:

 R1 acct     "the reported amount of buffered out-of-order data always equals what
             is actually held": typestate analysis of DataTracker's buffered map
             against its byte counter (vlib/accounting.py).
 R2 serial   necessary condition of "for any initial sequence number including
             ones that wrap": no relational operator (<,>,<=,>=) takes two
             sequence-number-valued operands outside the serial-number comparison
             helpers.
 R3 wrap     a walk over the buffered map that does not start at begin() is a
             cyclic walk in sequence space: every advance of its iterator must be
             wrap-protected (past-the-end -> begin()).
Not decided: prefix/exactly-once delivery, overlap resolution (value level).
"""
from vlib import facts, cfg, accounting
from vlib.facts import strip

PID = "C06"
DT = "Tins::TCPIP::DataTracker"

# serial-number comparison helpers: the only places where two sequence numbers
# may meet in a relational operator
SEQ_HELPERS = ("Tins::Internals::seq_compare(unsigned int, unsigned int)",
               "Tins::compare_seq_numbers(unsigned int, unsigned int)")

SEQ_FILES = ("src/tcp_ip/data_tracker.cpp", "src/tcp_ip/flow.cpp", "src/tcp_ip/stream.cpp",
             "src/tcp_ip/stream_follower.cpp", "src/tcp_stream.cpp")

# (function id prefix, reason): relational comparisons of sequence-valued storage that are not orderings
SEQ_EXCEPTIONS = {}


def field_returned_by(db, rec, accessor):
    """name of the data member that the const accessor `rec::accessor()` returns"""
    for m in db.find_method(rec, accessor, inherited=False):
        f = db.fn(m["id"])
        if not f or not f.get("const") or f["params"]:
            continue
        for n in facts.fn_nodes(f):
            if n["k"] == "ReturnStmt" and n.get("c"):
                mm = cfg.member_of_this(n["c"][0])
                if mm:
                    return mm
    return None


def run(db, rep, tier):
    rep.rule("R1-acct", "buffered map vs byte counter: every size change of a held chunk, insertion, erasure and move-out is "
                        "matched by the counter adjustment (typestate on all CFG paths)", 6)
    rep.rule("R2-serial", "no <,>,<=,>= between two sequence-number values outside seq_compare/compare_seq_numbers", 12)
    rep.rule("R3-wrap", "cyclic walks over the sequence-keyed map wrap past-the-end to begin() at every advance", 2)
    rep.rule("R4-reseed", "a flow's expected sequence number is (re)initialised from a SYN only while the flow is in its initial state", 1)
    rep.rule("R5-keep-longest", "legacy follower: of two buffered segments starting at the same sequence number the longer one is kept", 1)
    r1(db, rep)
    r2(db, rep)
    r3(db, rep)
    r3_legacy(db, rep)
    rep.rule("R6-legacy-order", "legacy drain loop: a fragment that is sliced and re-inserted at the current position is in the map before the "
                                "loop iterator is advanced past the erased entry; the sequence helpers are plain modulo-2^32 arithmetic", 3)
    r6_legacy(db, rep)
    r4(db, rep)
    r5(db, rep)
    rep.rule("R7-serial-compare", "Internals::seq_compare is serial-number comparison over the FULL half space: executed on boundary pairs, its "
                                  "sign is that of the 32-bit difference read as a signed number for every distance except exactly 2^31", 1)
    r7_serial(db, rep)
    rep.rule("R8-data-reaches-tracker", "Flow::process_packet hands the payload of EVERY segment that has a TCP layer and a payload to the data "
                                        "tracker unless the user switched data off: nothing else (the flow's state, flags of the segment) "
                                        "can divert it", 1)
    r8_reach(db, rep)
    rep.rule("R9-ctor-siblings", "the IPv4 and the IPv6 constructor of Flow use their parameters for the same members: a tracker that one "
                                 "address family seeds with the initial sequence number is seeded by the other too", 1)
    r9_ctor_siblings(db, rep)
    rep.explanation = ("Also: (R4) DataTracker::sequence_number(x) is called from Flow only under state_ == UNKNOWN - a retransmitted SYN "
                       "cannot rewind a flow that already delivered data; (R5) decision table of TCPStream::safe_insert. "
                       "Decides three structural clauses of C06: (R1) byte-counter accounting of DataTracker's out-of-order "
                       "buffer on every CFG path incl. helper summaries (by-value vs rvalue-reference consumption of moved "
                       "chunks); (R2) sequence numbers are ordered only through the RFC 1982 helpers; (R3) wrap-around of the "
                       "cyclic map walk. Does NOT decide prefix/exactly-once delivery or overlap resolution: those are "
                       "value-level.")
    rep.assumptions += ["std::vector move construction/assignment leaves the source empty",
                        "users do not mutate the map through the non-const buffered_payload() accessor"]


# ---------------------------------------------------------------------------
def r9_ctor_siblings(db, rep):
    REC = "Tins::TCPIP::Flow"
    ctors = [f for f in db.functions.values() if f.get("rec") == REC and f.get("kind") == "ctor" and f.get("body") and
             len(f.get("params", ())) == 3 and not f.get("special")]
    if len(ctors) < 2:
        rep.analysis_broken("Flow: the two address-family constructors were not found (%d)" % len(ctors))
        return

    def uses(f):
        """{member: set of parameter positions its initialiser / body assignment reads}"""
        pos = dict((p_["var"], i) for i, p_ in enumerate(f["params"]))
        out = {}
        for i_ in f.get("inits", []):
            if i_.get("member") and i_.get("written"):
                ps = set(pos[x["var"]] for x in facts.walk(i_["e"]) if x["k"] == "DeclRefExpr" and x.get("var") in pos)
                if ps:
                    out.setdefault(i_["member"], set()).update(ps)
        for x in facts.fn_nodes(f):
            if x["k"] in ("BinaryOperator", "CXXOperatorCallExpr") and x.get("op") == "=":
                l = facts.strip_all(x["c"][0] if x["k"] == "BinaryOperator" else x["c"][1])
                r = x["c"][1] if x["k"] == "BinaryOperator" else x["c"][2]
                if l["k"] == "MemberExpr" and l.get("isfield"):
                    ps = set(pos[y["var"]] for y in facts.walk(r) if y["k"] == "DeclRefExpr" and y.get("var") in pos)
                    if ps:
                        out.setdefault(l["member"], set()).update(ps)
        return out
    ref = uses(ctors[0])
    bad = None
    for f in ctors[1:]:
        u = uses(f)
        for m in sorted(set(ref) | set(u)):
            # the address itself goes to the member of its own family: compared by parameter position only for the others
            if 0 in ref.get(m, set()) or 0 in u.get(m, set()):
                continue
            if ref.get(m, set()) != u.get(m, set()):
                bad = (f if not u.get(m) else ctors[0], m, sorted(ref.get(m, set()) | u.get(m, set())))
    key = "Flow::Flow"
    if bad:
        f_, m, ps = bad
        rep.violation("R9-ctor-siblings", key, facts.loc(f_),
                      "this constructor does not initialise `%s` from its parameter `%s`, its sibling for the other address family does: a "
                      "flow of this family starts from 0 instead of the sequence number it was given, so every segment is buffered as "
                      "future data or dropped as stale" % (m, f_["params"][ps[0]].get("name")))
    else:
        rep.ok("R9-ctor-siblings", key, facts.loc(ctors[0]), "%d constructors use their port / sequence-number parameters for the same members (%s)"
               % (len(ctors), sorted(m for m in ref if 0 not in ref[m])))


def r8_reach(db, rep):
    from vlib import formula
    fs = [f for f in db.fns_named("Tins::TCPIP::Flow::process_packet") if f.get("body")]
    if not fs:
        rep.analysis_broken("Flow::process_packet vanished")
        return
    f = fs[0]
    g = cfg.FnCFG(f)
    sink = [x for x in facts.fn_nodes(f) if x["k"] == "CXXMemberCallExpr" and x.get("cname") == "process_payload"]
    if not sink:
        rep.violation("R8-data-reaches-tracker", "Flow::process_packet", facts.loc(f), "the payload is never handed to the data tracker")
        return
    # the two layer pointers, by what they are initialised with
    layer = {}
    for v in facts.fn_nodes(f):
        if v["k"] == "VarDecl" and v.get("c") and v.get("name"):
            t = facts.expr_str(v["c"][0])
            if "find_pdu" in t:
                tn = ((facts.tyi(f, v.get("t")) or {}).get("s") or "")
                if "TCP" in tn:
                    layer[v["name"]] = "tcp"
                elif "RawPDU" in tn:
                    layer[v["name"]] = "raw"
    roles = {"tcp": lambda a: layer.get(a.strip()) == "tcp", "raw": lambda a: layer.get(a.strip()) == "raw",
             "off": lambda a: "ignore_data_packets" in a}
    try:
        atoms, table = formula.must_table(f, g.pos(sink[0]), lambda a: any(p_(a) for p_ in roles.values()))
    except facts.AnalysisBroken as e:
        rep.analysis_broken("Flow::process_packet: %s" % e)
        return
    role_of = dict((a, r_) for a in atoms for r_, p_ in roles.items() if p_(a))
    if sorted(role_of.values()) != ["off", "raw", "tcp"]:
        rep.analysis_broken("Flow::process_packet: the tests of the TCP layer, the payload and ignore_data_packets were not recognised among %s" % atoms)
        return
    bad = None
    for vals, must in table.items():
        env = dict((role_of[a], v) for a, v in zip(atoms, vals))
        if env["tcp"] and env["raw"] and not env["off"] and not must:
            bad = "a segment with a TCP layer and a payload, data not switched off, can leave process_packet without its payload reaching " \
                  "DataTracker::process_payload (some other condition returns first): bytes the peer sent - e.g. the payload carried by a " \
                  "FIN or RST segment, or data reordered behind it - are never delivered"
    if bad:
        rep.violation("R8-data-reaches-tracker", "Flow::process_packet", facts.loc(f, sink[0]), bad)
    else:
        rep.ok("R8-data-reaches-tracker", "Flow::process_packet", facts.loc(f, sink[0]), "reached on every path when tcp && payload && !ignore_data_packets")


def r7_serial(db, rep):
    from vlib import ieval
    fs = [f for fid, f in db.functions.items() if fid.startswith("Tins::Internals::seq_compare(") and f.get("body")]
    if not fs:
        rep.analysis_broken("Internals::seq_compare vanished")
        return
    f = fs[0]
    a, b = f["params"][0]["var"], f["params"][1]["var"]
    M = 1 << 32
    bases = (0, 1, 0x7fffffff, 0x80000000, 0xfffffff0, 0xffffffff, 0x12345678)
    dists = (0, 1, 2, 0xffff, 0x10000, (1 << 30) - 1, 1 << 30, (1 << 30) + 1, (1 << 31) - 1, (1 << 31) + 1, M - (1 << 30), M - 2, M - 1)
    bad = None
    n = 0
    try:
        for s2 in bases:
            for d in dists:
                s1 = (s2 + d) % M
                want = 0 if d == 0 else (1 if d < (1 << 31) else -1)
                r = ieval.run_body(f, f["body"], {a: s1, b: s2, "__db__": db})
                if r is None:
                    raise ieval.Unknown("no value returned")
                if r >= (1 << 31):
                    r -= M
                got = (r > 0) - (r < 0)
                n += 1
                if got != want and bad is None:
                    bad = ("seq_compare(0x%08x, 0x%08x) is %d, but the first is %s the second by 0x%x (mod 2^32): sequence numbers between 2^30 "
                           "and 2^31 apart - a stale segment far behind the stream position, a position far ahead - are ordered backwards, "
                           "so such a segment is buffered as future data instead of being dropped, or the reverse" %
                           (s1, s2, got, "ahead of" if want > 0 else ("behind" if want < 0 else "equal to"), d if want >= 0 else M - d))
    except ieval.Unknown as e:
        rep.undecided("R7-serial-compare", "seq_compare", facts.loc(f), "outside the finite evaluator: %s" % e)
        return
    if bad:
        rep.violation("R7-serial-compare", "seq_compare", facts.loc(f), bad)
    else:
        rep.ok("R7-serial-compare", "seq_compare", facts.loc(f), "sign of the signed 32-bit difference on all %d boundary pairs" % n)


def r1(db, rep):
    if DT not in db.records:
        rep.analysis_broken("class %s not found" % DT)
        return
    container = field_returned_by(db, DT, "buffered_payload")
    counter = field_returned_by(db, DT, "total_buffered_bytes")
    if not container or not counter:
        rep.analysis_broken("cannot identify the buffered map / byte counter of DataTracker from its accessors")
        return
    spec = accounting.Spec(DT, container, counter)
    funcs = []
    for f in db.methods_of(DT):
        if f.get("implicit") or f.get("kind") in ("dtor",):
            continue
        touches = False
        for n in facts.fn_nodes(f):
            if n["k"] == "MemberExpr" and n.get("isfield") and n.get("member") in (container, counter) and \
                    n.get("mrec") == DT:
                touches = True
                break
        if touches and not (f.get("const")):
            funcs.append(f)
    # helpers first (functions called by others)
    summaries, results = accounting.summarise(db, spec, sorted(funcs, key=lambda f: f["id"]))
    for f in sorted(funcs, key=lambda f: f["id"]):
        a = results.get(f["id"])
        if a is None:
            rep.analysis_broken("accounting analysis failed on %s" % f["id"])
            continue
        # re-run with final summaries so that callers see the helpers' roles
        a = accounting.Analysis(db, spec, f, summaries).run()
        short = f["id"].split("(")[0].split("::")[-1]
        if f.get("kind") == "ctor":
            # constructors: the counter must be initialised to zero / copied together with the map
            continue
        for node, tag, text in a.viol:
            rep.violation("R1-acct", "%s:%s" % (short, tag), facts.loc(f, node), text)
        for node, text in a.undec:
            rep.undecided("R1-acct", "%s:undecided@%s" % (short, facts.expr_str(node)[:40]), facts.loc(f, node), text)
        if not a.viol:
            s = summaries.get(f["id"], {})
            rep.ok("R1-acct", "%s" % short, facts.loc(f), "%d accounting events on all paths consistent; summary=%s"
                   % (a.events, {k: v for k, v in s.items() if v}))
    # the counter is zero-initialised / copied by every constructor
    for f in db.methods_of(DT):
        if f.get("kind") != "ctor" or f.get("implicit"):
            continue
        init = [i for i in f.get("inits", []) if i.get("member") == counter]
        short = "ctor(%d params)" % len(f["params"])
        if init and facts.cval(init[0]["e"]) == 0:
            rep.ok("R1-acct", short, facts.loc(f), "counter initialised to 0 with an empty map")
        elif init and init[0]["e"]["k"] == "ImplicitValueInitExpr":
            rep.ok("R1-acct", short, facts.loc(f), "counter value-initialised with an empty map")
        else:
            rep.violation("R1-acct", short + ":counter-init", facts.loc(f), "constructor does not initialise the byte counter to zero")


# ---------------------------------------------------------------------------
def seq_seed_fields():
    return {
        (DT, "seq_number_"), ("Tins::TCPStream", "client_seq_"), ("Tins::TCPStream", "server_seq_"),
        ("Tins::TCPIP::AckTracker", "ack_number_"), ("Tins::TCPIP::AckedRange", "first_"),
        ("Tins::TCPIP::AckedRange", "last_"),
    }


SEQ_CALLS = {"Tins::TCP::seq() const", "Tins::TCP::ack_seq() const",
             "Tins::TCPIP::DataTracker::sequence_number() const", "Tins::TCPIP::Flow::sequence_number() const",
             "Tins::TCPIP::AckTracker::ack_number() const", "Tins::TCPIP::AckedRange::first() const",
             "Tins::TCPIP::AckedRange::last() const",
             "Tins::add_sequence_numbers(unsigned int, unsigned int) @tcp_stream.cpp",
             "Tins::subtract_sequence_numbers(unsigned int, unsigned int) @tcp_stream.cpp"}

SEQ_PARAM_NAMES_OF = {
    # parameters that carry sequence numbers, by function (resolved ids are matched by prefix)
    "Tins::TCPIP::DataTracker::process_payload(": [0],
    "Tins::TCPIP::DataTracker::advance_sequence(": [0],
    "Tins::TCPIP::DataTracker::store_payload(": [0],
    "Tins::TCPIP::DataTracker::sequence_number(unsigned int)": [0],
    "Tins::TCPIP::Flow::advance_sequence(": [0],
    "Tins::TCPStream::generic_process(": [0, 1],
    "Tins::TCPStream::safe_insert(": [1],
    "Tins::TCPIP::AckTracker::AckTracker(unsigned int": [0],
    "Tins::TCPIP::AckTracker::process_sack(": [],
    "Tins::TCPIP::AckTracker::cleanup_sacked_intervals(": [0, 1],
    "Tins::TCPIP::AckTracker::is_segment_acked(": [0],
    "Tins::TCPIP::AckedRange::AckedRange(": [0, 1],
}


# parameters that are vectors of sequence numbers (SACK edges)
SEQ_VEC_PARAMS = {"Tins::TCPIP::AckTracker::process_sack(": [0]}


def r2(db, rep, files=None, exceptions=None, rule="R2-serial"):
    files = files or SEQ_FILES
    exceptions = exceptions if exceptions is not None else SEQ_EXCEPTIONS
    seeds_f = seq_seed_fields()
    missing = [s for s in seeds_f if s[0] in db.records and
               not any(fl["name"] == s[1] for fl in db.records[s[0]]["fields"])]
    for s in seeds_f:
        if s[0] not in db.records:
            missing.append(s)
    if missing:
        rep.analysis_broken("sequence-number seed declarations vanished: %s" % sorted(set(missing)))
        return
    nfun = 0
    for f in db.functions.values():
        if f["file"] not in files or f.get("implicit"):
            continue
        nfun += 1
        in_helper = f["id"] in SEQ_HELPERS
        tainted = set()
        for pref, idxs in SEQ_PARAM_NAMES_OF.items():
            if f["id"].startswith(pref):
                for i in idxs:
                    if i < len(f["params"]):
                        tainted.add(f["params"][i]["var"])
        if in_helper:
            for p in f["params"]:
                tainted.add(p["var"])
        tainted_vecs = set()
        for pref, idxs in SEQ_VEC_PARAMS.items():
            if f["id"].startswith(pref):
                for i in idxs:
                    if i < len(f["params"]):
                        tainted_vecs.add(f["params"][i]["var"])

        def is_seq(e, depth=0):
            e = strip(e)
            k = e["k"]
            t = facts.ty(f, e)
            if not t or t.get("k") != "int" or t.get("w", 0) < 32:
                if k not in ("CStyleCastExpr", "CXXStaticCastExpr", "CXXFunctionalCastExpr"):
                    return False
            if k == "DeclRefExpr":
                return e.get("var") in tainted
            if k == "MemberExpr" and e.get("isfield"):
                if (e.get("mrec"), e["member"]) in seeds_f:
                    return True
                if e["member"] == "first" and e.get("c"):
                    b = strip(e["c"][0])
                    if b["k"] == "CXXOperatorCallExpr" and b.get("op") == "->":
                        x = strip(b["c"][1])
                        tx = facts.ty(f, x)
                        if tx and "pair<const unsigned int" in tx.get("s", ""):
                            return True
                return False
            if k == "CXXOperatorCallExpr" and e.get("op") == "[]" and len(e.get("c", [])) == 3:
                o = strip(e["c"][1])
                return o["k"] == "DeclRefExpr" and o.get("var") in tainted_vecs
            if k in ("CXXMemberCallExpr", "CallExpr"):
                return e.get("callee") in SEQ_CALLS
            if k == "BinaryOperator" and e["op"] in ("+", "-"):
                return is_seq(e["c"][0], depth + 1) or is_seq(e["c"][1], depth + 1)
            if k in ("CStyleCastExpr", "CXXStaticCastExpr", "CXXFunctionalCastExpr"):
                return is_seq(e["c"][0], depth + 1)
            if k == "ConditionalOperator":
                return is_seq(e["c"][1]) or is_seq(e["c"][2])
            return False

        # propagate through local initialisations / assignments (to fixpoint)
        changed = True
        while changed:
            changed = False
            for n in facts.fn_nodes(f):
                if n["k"] == "VarDecl" and n.get("c") and n["var"] not in tainted and is_seq(n["c"][0]):
                    tainted.add(n["var"])
                    changed = True
                elif n["k"] in ("BinaryOperator", "CompoundAssignOperator") and n.get("op") in ("=", "+=", "-="):
                    l = strip(n["c"][0])
                    if l["k"] == "DeclRefExpr" and l.get("var") not in tainted and is_seq(n["c"][1]) and n["op"] == "=":
                        tainted.add(l["var"])
                        changed = True
        count = 0
        for n in facts.fn_nodes(f):
            if n["k"] == "BinaryOperator" and n["op"] in ("<", ">", "<=", ">="):
                a, b = n["c"][0], n["c"][1]
                if is_seq(a) and is_seq(b):
                    count += 1
                    key = "%s:%s" % (f["id"].split("(")[0], facts.expr_str(n))
                    exc = [why for pref, why in exceptions.items() if f["id"].startswith(pref)]
                    if in_helper:
                        rep.ok(rule, key, facts.loc(f, n), "inside the serial-number comparison helper")
                    elif exc:
                        rep.ok(rule, key, facts.loc(f, n), "listed exception: " + exc[0])
                    else:
                        # difference of two sequence numbers compared with a sequence number is still a violation;
                        rep.violation(rule, key, facts.loc(f, n),
                                      "two sequence numbers are ordered with a plain `%s`: wrong when the 32-bit space wraps; "
                                      "use the serial-number comparison helper" % n["op"])
        # calls of the helper count as discharged comparison sites
        for n in facts.fn_nodes(f):
            if n["k"] == "CallExpr" and n.get("callee") in SEQ_HELPERS:
                rep.ok(rule, "%s:%s" % (f["id"].split("(")[0], facts.expr_str(n)), facts.loc(f, n),
                       "ordered through %s" % n["cname"])
    rep.extra["R2_functions_scanned"] = nfun


# ---------------------------------------------------------------------------
def r3(db, rep):
    """cyclic walks: loops whose iterator over the sequence-keyed map is not
    initialised from begin()"""
    container = field_returned_by(db, DT, "buffered_payload")
    found = 0
    for f in db.methods_of(DT):
        if f.get("implicit") or not f.get("body"):
            continue
        a = accounting.Analysis(db, accounting.Spec(DT, container, "?"), f, {})
        g = a.g
        idx, parent = g.idx, g.parent
        for loop in facts.fn_nodes(f):
            if loop["k"] not in ("WhileStmt", "ForStmt", "DoStmt"):
                continue
            # iterator variables compared with container.end() in the loop condition
            cond = loop["c"][0] if loop["k"] == "WhileStmt" else (loop["c"][2] if loop["k"] == "ForStmt" and len(loop["c"]) > 2 else None)
            if loop["k"] == "WhileStmt" and len(loop["c"]) == 3:
                cond = loop["c"][1]
            itvars = set()
            for n in facts.walk(loop):
                if n["k"] == "CXXOperatorCallExpr" and n.get("op") in ("!=", "=="):
                    sides = [strip(x) for x in n["c"][1:]]
                    for s_, o_ in ((0, 1), (1, 0)):
                        if len(sides) == 2 and sides[s_]["k"] == "DeclRefExpr" and a.is_iter_type(facts.ty(f, sides[s_])):
                            e = sides[o_]
                            if e["k"] == "CXXMemberCallExpr" and e.get("cname") == "end" and \
                                    a.obj(cfg.receiver(e)) == ("container",):
                                itvars.add(sides[s_]["var"])
                break_early = False
            for v in sorted(itvars):
                # how is v initialised?
                init = None
                for n in facts.fn_nodes(f):
                    if n["k"] == "VarDecl" and n.get("var") == v and n.get("c"):
                        init = n["c"][0]
                src = None
                if init is not None:
                    for x in facts.walk(init):
                        if x["k"] == "CXXMemberCallExpr" and a.obj(cfg.receiver(x)) == ("container",):
                            src = x.get("cname")
                key = "%s:%s" % (f["id"].split("(")[0].split("::")[-1], v.split("#")[0])
                if src in ("begin", "cbegin"):
                    found += 1
                    rep.ok("R3-wrap", key, facts.loc(f, loop), "linear scan from begin() to end(): visits every chunk, no wrap needed")
                    continue
                found += 1
                # cyclic walk: every advance inside the loop must be wrap-protected
                bad = []
                nadv = 0
                for n in facts.walk(loop):
                    adv = None
                    if n["k"] == "CXXOperatorCallExpr" and n.get("op") in ("=", "++") and len(n["c"]) >= 2:
                        l = strip(n["c"][1])
                        if l["k"] == "DeclRefExpr" and l.get("var") == v:
                            adv = n
                    if adv is None:
                        continue
                    nadv += 1
                    if n.get("op") == "=":
                        r = strip(n["c"][2])
                        # result of a helper that wraps?
                        rr = r
                        while rr["k"] in ("CXXConstructExpr",) and rr.get("c"):
                            rr = strip(rr["c"][0])
                        if rr["k"] == "CXXMemberCallExpr" and wraps(db, a, rr.get("callee")):
                            continue
                    # otherwise a wrap test must follow on every path before the loop condition is re-evaluated
                    if followed_by_wrap(a, g, f, n, v, loop):
                        continue
                    bad.append(n)
                if bad:
                    rep.violation("R3-wrap", key, facts.loc(f, bad[0]),
                                  "iterator `%s` walks the sequence-keyed map cyclically (starts at %s(), not begin()) but this "
                                  "advance is not wrap-protected: past-the-end must continue at begin(), otherwise chunks whose "
                                  "keys wrapped past 2^32 are never reached" % (v.split("#")[0], src))
                else:
                    rep.ok("R3-wrap", key, facts.loc(f, loop), "cyclic walk from %s(): %d advances, all wrap-protected" % (src, nadv))
    rep.extra["R3_loops"] = found


def wraps(db, a, fid):
    """does function fid return an iterator that is wrapped to begin() when it
    would be end()?  (shape: `if (x == c.end()) x = c.begin();` then `return x`)"""
    f = db.fn(fid)
    if not f or not f.get("body"):
        return False
    a2 = accounting.Analysis(db, a.spec, f, {})
    ret_vars = set()
    for n in facts.fn_nodes(f):
        if n["k"] == "ReturnStmt" and n.get("c"):
            for x in facts.walk(n["c"][0]):
                if x["k"] == "DeclRefExpr" and a2.is_iter_type(facts.ty(f, x)):
                    ret_vars.add(x["var"])
    # `return (x == c.end()) ? c.begin() : x;` - the same wrap written as one expression
    rets = [n for n in facts.fn_nodes(f) if n["k"] == "ReturnStmt" and n.get("c")]

    def is_begin(e):
        return any(y["k"] == "CXXMemberCallExpr" and y.get("cname") == "begin" and a2.obj(cfg.receiver(y)) == ("container",)
                   for y in facts.walk(e))

    def cond_wrap(e):
        e = facts.strip_all(e)
        while e["k"] in ("CXXConstructExpr", "MaterializeTemporaryExpr", "CXXBindTemporaryExpr", "ExprWithCleanups") and len(e.get("c", [])) == 1:
            e = facts.strip_all(e["c"][0])
        if e["k"] != "ConditionalOperator":
            return False
        c0, t_, e_ = e["c"]
        for v in ret_vars:
            for x in facts.walk(c0):
                if x["k"] == "CXXOperatorCallExpr" and x.get("op") in ("==", "!="):
                    fake = {"k": "ParenExpr", "id": -1, "c": [dict(x, op="==")]}
                    if is_end_test(a2, f, fake, v):
                        at_end, other = (t_, e_) if x["op"] == "==" else (e_, t_)
                        o0 = facts.strip_all(other)
                        while o0["k"] in ("CXXConstructExpr", "MaterializeTemporaryExpr") and len(o0.get("c", [])) == 1:
                            o0 = facts.strip_all(o0["c"][0])
                        if is_begin(at_end) and o0["k"] == "DeclRefExpr" and o0.get("var") == v:
                            return True
        return False
    if rets and all(cond_wrap(r_["c"][0]) for r_ in rets):
        return True
    g = a2.g
    for v in ret_vars:
        ok = False
        for n in facts.fn_nodes(f):
            if n["k"] == "IfStmt" and is_end_test(a2, f, n["c"][-2] if len(n["c"]) >= 2 else n["c"][0], v):
                # then-branch assigns begin()
                for x in facts.walk(n):
                    if x["k"] == "CXXOperatorCallExpr" and x.get("op") == "=":
                        l = strip(x["c"][1])
                        if l["k"] == "DeclRefExpr" and l.get("var") == v:
                            for y in facts.walk(x["c"][2]):
                                if y["k"] == "CXXMemberCallExpr" and y.get("cname") in ("begin",) and \
                                        a2.obj(cfg.receiver(y)) == ("container",):
                                    ok = True
        if ok:
            return True
    return False


def is_end_test(a, f, cond, v):
    for n in facts.walk(cond):
        if n["k"] == "CXXOperatorCallExpr" and n.get("op") == "==":
            sides = [strip(x) for x in n["c"][1:]]
            if len(sides) == 2:
                for s_, o_ in ((0, 1), (1, 0)):
                    if sides[s_]["k"] == "DeclRefExpr" and sides[s_].get("var") == v:
                        e = sides[o_]
                        if e["k"] == "CXXMemberCallExpr" and e.get("cname") == "end" and a.obj(cfg.receiver(e)) == ("container",):
                            return True
    return False


def followed_by_wrap(a, g, f, adv, v, loop):
    """an `if (v == end()) v = begin()` inside the loop after the advance on every path"""
    wrap_pos = []
    for n in facts.walk(loop):
        if n["k"] == "IfStmt":
            c = n["c"][-2] if len(n["c"]) >= 2 else n["c"][0]
            conds = [x for x in n["c"] if x is not None]
            if any(is_end_test(a, f, x, v) for x in conds[:1] + conds[:2]):
                p = g.pos(conds[0])
                if p:
                    wrap_pos.append(p)
    if not wrap_pos:
        return False
    ap = g.pos(adv)
    # loop head position = condition of the loop
    head = None
    for x in loop["c"]:
        if isinstance(x, dict) and x["k"] not in ("CompoundStmt", "DeclStmt"):
            head = g.pos(x)
            if head:
                break
    if ap is None or head is None:
        return False
    # is the loop head reachable from the advance without passing a wrap test?
    seen = set()
    stack = [ap[0]]
    avoid_blocks = set(p[0] for p in wrap_pos)
    first = True
    while stack:
        b = stack.pop()
        if b in seen:
            continue
        seen.add(b)
        if not first and b in avoid_blocks:
            continue
        if not first and b == head[0]:
            return False
        first = False
        stack.extend(g.succs(b))
    return True


def r4(db, rep):
    from vlib import cond
    n = 0
    for fid, f in sorted(db.functions.items()):
        if f.get("rec") != "Tins::TCPIP::Flow" or not f.get("body") or f.get("kind") == "ctor":
            continue
        g = None
        for x in facts.fn_nodes(f):
            if x["k"] == "CXXMemberCallExpr" and x.get("cname") == "sequence_number" and len(x["c"]) == 2 and \
                    (x.get("crec") or "").endswith("DataTracker"):
                n += 1
                g = g or cfg.FnCFG(f)
                key = "%s:reseed#%d" % (f["qual"].split("::")[-1], n)
                ok = False
                for op, l, r in cond.guards_facts(g, g.pos(x)):
                    if op == "==" and r is not None:
                        t = facts.expr_str(l) + " " + facts.expr_str(r)
                        if "state_" in t and "UNKNOWN" in t:
                            ok = True
                        if "state_" in t and facts.cval(r) == 0 or facts.cval(l) == 0 and "state_" in t:
                            ok = True
                if ok:
                    rep.ok("R4-reseed", key, facts.loc(f, x), "only while state_ == UNKNOWN")
                else:
                    rep.violation("R4-reseed", key, facts.loc(f, x),
                                  "the expected sequence number is reset from the segment without testing that the flow is still in its "
                                  "initial state: a retransmitted SYN rewinds a flow that already delivered data, which is then delivered again")
    if n < 1:
        rep.analysis_broken("no call of DataTracker::sequence_number(x) in Flow")


def r5(db, rep):
    from vlib import ieval
    fs = db.fns_named("Tins::TCPStream::safe_insert")
    if not fs:
        rep.analysis_broken("TCPStream::safe_insert vanished")
        return
    f = fs[0]
    key = "safe_insert:table"
    pnew = f["params"][2]["var"]
    stored = None
    for x in facts.fn_nodes(f):
        if x["k"] == "VarDecl" and x.get("c") and (facts.tyi(f, x.get("t")) or {}).get("k") == "ref":
            stored = x["var"]
    if stored is None:
        rep.analysis_broken("safe_insert: reference to the stored slot not found")
        return

    def effects(stmt, env, tf):
        """(kind, what) effects of the statements executed under the given inputs (early returns respected)"""
        out = []
        for kind, node in ieval.trace(f, stmt, dict(env, __termfn__=tf)):
            for x in facts.walk(node):
                if x["k"] == "CXXDeleteExpr":
                    a = facts.strip_all(x["c"][0])
                    out.append(("delete", "stored" if a.get("var") == stored else "new" if a.get("var") == pnew else "?"))
                if x["k"] == "BinaryOperator" and x.get("op") == "=" and strip(x["c"][0]).get("var") == stored:
                    out.append(("store", "new" if facts.strip_all(x["c"][1]).get("var") == pnew else "?"))
        return out
    bad = None
    try:
        for have in (0, 1):
            for s_old, s_new in ((5, 9), (9, 5), (7, 7)):
                def tf(x, have=have, s_old=s_old, s_new=s_new):
                    if x["k"] == "DeclRefExpr" and x.get("var") == stored:
                        return have
                    if x["k"] == "CXXMemberCallExpr" and x.get("cname") == "payload_size":
                        o = facts.strip_all([y for y in facts.walk(x["c"][0]) if y["k"] == "DeclRefExpr"][0]) if x["c"] else None
                        return s_old if o is not None and o.get("var") == stored else s_new
                    return None
                eff = effects(f["body"], {}, tf)
                kept = "new" if ("store", "new") in eff else "stored"
                if not have:
                    if eff != [("store", "new")]:
                        bad = "an empty slot is not simply filled: %s" % eff
                elif s_new > s_old and kept != "new":
                    bad = "a %d-byte segment arriving for a position that holds a %d-byte one is discarded: the extra bytes never reach the stream" % (s_new, s_old)
                elif s_new < s_old and kept != "stored":
                    bad = "a shorter retransmission replaces the longer buffered segment"
                elif have and kept == "new" and ("delete", "stored") not in eff:
                    bad = "the replaced segment is not freed"
                elif have and kept == "stored" and ("delete", "new") not in eff:
                    bad = "the discarded segment is not freed"
                if bad:
                    break
            if bad:
                break
    except ieval.Unknown as e:
        rep.undecided("R5-keep-longest", key, facts.loc(f), "outside the evaluator: %s" % e)
        return
    if bad:
        rep.violation("R5-keep-longest", key, facts.loc(f), bad)
    else:
        rep.ok("R5-keep-longest", key, facts.loc(f), "empty slot filled; otherwise the longer payload is kept and the other one freed (6 cells)")


def r3_legacy(db, rep):
    """the legacy follower's drain loop walks its sequence-keyed fragment map from find(my_seq): every advance must continue
    at begin() when it falls off the end (segments whose sequence numbers wrapped past 2^32 sort first)"""
    fs = db.fns_named("Tins::TCPStream::generic_process")
    if not fs:
        rep.analysis_broken("TCPStream::generic_process vanished")
        return
    f = fs[0]

    def end_of(e, contvar):
        e = strip(e)
        return e["k"] == "CXXMemberCallExpr" and e.get("cname") == "end" and e["c"][0].get("c") and \
            facts.strip_all(e["c"][0]["c"][0]).get("var") == contvar

    def wrap_if(fn_, n, v, contvar):
        """`if (v == cont.end()) v = cont.begin();`"""
        if n["k"] != "IfStmt":
            return False
        real = [x for x in n["c"] if x is not None]
        c = strip(real[0])
        if not (c["k"] == "CXXOperatorCallExpr" and c.get("op") == "==" or c["k"] == "BinaryOperator" and c.get("op") == "=="):
            return False
        sides = [strip(x) for x in c["c"][-2:]]
        okc = any(sides[i]["k"] == "DeclRefExpr" and sides[i].get("var") == v and end_of(sides[1 - i], contvar) for i in (0, 1))
        if not okc:
            return False
        for x in facts.walk(real[1]):
            if x["k"] in ("CXXOperatorCallExpr", "BinaryOperator") and (x.get("op") == "=" or x.get("cname") == "operator="):
                l = strip(x["c"][-2])
                if l["k"] == "DeclRefExpr" and l.get("var") == v and any(
                        y["k"] == "CXXMemberCallExpr" and y.get("cname") == "begin" and y["c"][0].get("c") and
                        facts.strip_all(y["c"][0]["c"][0]).get("var") == contvar for y in facts.walk(x["c"][-1])):
                    return True
        return False

    def helper_wraps(callee, argpos):
        g_ = db.fn(callee)
        if g_ is None or not g_.get("body") or argpos >= len(g_["params"]):
            return False
        cv = g_["params"][argpos]["var"]
        rets = [x for x in facts.fn_nodes(g_) if x["k"] == "ReturnStmt" and x.get("c")]
        for r in rets:
            rv = [y.get("var") for y in facts.walk(r["c"][0]) if y["k"] == "DeclRefExpr" and y.get("var")]
            if not rv:
                return False
            gg = cfg.FnCFG(g_)
            wr = [x for x in facts.fn_nodes(g_) if wrap_if(g_, x, rv[0], cv)]
            if not wr:
                return False
            # the wrap test lies on every path to the return (after the last advance of the returned iterator)
            if gg.reached_from_entry_avoiding(gg.pos(r), [gg.pos([y for y in wr[0]["c"] if y is not None][0])]) is not None:
                return False
        return bool(rets)
    n = 0
    idx, par = facts.index_fn(f)
    for loop in facts.fn_nodes(f):
        if loop["k"] not in ("WhileStmt", "ForStmt", "DoStmt"):
            continue
        real = [x for x in loop["c"] if x is not None]
        condn = real[0] if loop["k"] == "WhileStmt" else None
        if condn is None:
            continue
        its = []
        for x in facts.walk(condn):
            if x["k"] in ("CXXOperatorCallExpr", "BinaryOperator") and x.get("op") == "!=":
                sides = [strip(y) for y in x["c"][-2:]]
                for i in (0, 1):
                    o = sides[1 - i]
                    if sides[i]["k"] == "DeclRefExpr" and o["k"] == "CXXMemberCallExpr" and o.get("cname") == "end" and o["c"][0].get("c"):
                        cvn = facts.strip_all(o["c"][0]["c"][0])
                        if cvn["k"] == "DeclRefExpr":
                            its.append((sides[i]["var"], cvn["var"], sides[i].get("name")))
        for v, contvar, vname in its:
            decl = [x for x in facts.fn_nodes(f) if x["k"] == "VarDecl" and x.get("var") == v and x.get("c")]
            src = None
            if decl:
                for y in facts.walk(decl[0]["c"][0]):
                    if y["k"] == "CXXMemberCallExpr" and y["c"][0].get("c") and facts.strip_all(y["c"][0]["c"][0]).get("var") == contvar:
                        src = y.get("cname")
            if src in ("begin", "cbegin"):
                # a walk from begin() is a plain linear walk - unless it is the DRAIN loop, whose condition orders the keys
                # against the current position in serial arithmetic: that one has to start AT the position (find /
                # lower_bound), because begin() is the numerically smallest key, which after a 2^32 wrap is a future segment
                lc_ = [c_ for c_ in loop["c"] if c_ is not None][0] if loop["k"] == "WhileStmt" else None
                if lc_ is not None and any(y["k"] == "CallExpr" and y.get("cname") in ("compare_seq_numbers", "seq_compare") and
                                           any(z["k"] == "DeclRefExpr" and z.get("var") == v for z in facts.walk(y)) for y in facts.walk(lc_)):
                    n += 1
                    rep.violation("R3-wrap", "generic_process:%s" % vname, facts.loc(f, decl[0]),
                                  "the drain loop starts at begin() of the sequence-keyed fragment map instead of at the current position: "
                                  "the map is ordered by raw 32-bit value, so once a segment from beyond the 2^32 wrap is buffered begin() is "
                                  "that future segment, the loop ends at once and the data at the current position is never delivered")
                continue
            bad = None
            nadv = 0
            for x in facts.walk(loop):
                adv = False
                if x["k"] in ("CXXOperatorCallExpr", "BinaryOperator") and (x.get("op") == "=" or x.get("cname") == "operator=") and \
                        strip(x["c"][-2])["k"] == "DeclRefExpr" and strip(x["c"][-2]).get("var") == v:
                    adv = True
                    rhs = facts.strip_all(x["c"][-1])
                    while rhs["k"] in ("CXXConstructExpr",) and rhs.get("c"):
                        rhs = facts.strip_all(rhs["c"][0])
                    if rhs["k"] == "CallExpr" and rhs.get("callee"):
                        args = rhs["c"][1:]
                        ap = [i for i, a in enumerate(args) if facts.strip_all(a).get("var") == contvar]
                        if ap and helper_wraps(rhs["callee"], ap[0]):
                            nadv += 1
                            continue
                elif x["k"] in ("CXXOperatorCallExpr", "UnaryOperator") and x.get("op") == "++" and \
                        strip(x["c"][-1])["k"] == "DeclRefExpr" and strip(x["c"][-1]).get("var") == v:
                    adv = True
                if not adv:
                    continue
                nadv += 1
                # a wrap statement must directly follow in the same block
                p = par.get(x["id"])
                while p is not None and p["k"] not in ("CompoundStmt",):
                    x, p = p, par.get(p["id"])
                sib = p.get("c", []) if p is not None else []
                i = [j for j, y in enumerate(sib) if y is x]
                if not (i and i[0] + 1 < len(sib) and wrap_if(f, sib[i[0] + 1], v, contvar)):
                    bad = x
            n += 1
            key = "generic_process:%s" % vname
            if bad is not None:
                rep.violation("R3-wrap", key, facts.loc(f, bad),
                              "iterator `%s` walks the sequence-keyed fragment map cyclically (starts at %s(), not begin()) but this advance "
                              "is not wrap-protected: buffered segments whose sequence numbers wrapped past 2^32 are never reached" % (vname, src))
            else:
                rep.ok("R3-wrap", key, facts.loc(f, loop), "cyclic walk from %s(): %d advances, all wrap-protected" % (src, nadv))
    if n < 1:
        rep.analysis_broken("TCPStream::generic_process: cyclic drain loop not recognised")


def r6_legacy(db, rep):
    from vlib import ieval
    fs = db.fns_named("Tins::TCPStream::generic_process")
    if not fs:
        rep.analysis_broken("TCPStream::generic_process vanished")
        return
    f = fs[0]
    g = cfg.FnCFG(f)
    idx, par = facts.index_fn(f)
    n = 0
    for x in facts.fn_nodes(f):
        if x["k"] == "CXXMemberCallExpr" and x.get("cname") == "safe_insert":
            # inside a loop?  then the iterator advance of the same block must come after it
            p = par.get(x["id"])
            blk = None
            inloop = False
            while p is not None:
                if p["k"] == "CompoundStmt" and blk is None:
                    blk = p
                if p["k"] in ("WhileStmt", "ForStmt", "DoStmt"):
                    inloop = True
                    break
                p = par.get(p["id"])
            if not inloop or blk is None:
                continue
            adv = [y for y in facts.walk(blk) if y["k"] in ("CXXOperatorCallExpr", "BinaryOperator") and
                   (y.get("op") == "=" or y.get("cname") == "operator=") and "erase_iterator" in facts.expr_str(y["c"][-1])]
            n += 1
            key = "generic_process:reinsert#%d" % n
            if not adv:
                rep.ok("R6-legacy-order", key, facts.loc(f, x), "no iterator advance in this block")
                continue
            if all(g.before_on_all_paths(g.pos(x), g.pos(a)) for a in adv):
                rep.ok("R6-legacy-order", key, facts.loc(f, x), "re-inserted before the iterator is advanced")
            else:
                rep.violation("R6-legacy-order", key, facts.loc(f, x),
                              "the loop iterator is advanced past the erased entry BEFORE the sliced fragment is re-inserted at the current "
                              "position: the walk does not see it, and bytes that are complete and in order stay undelivered")
    if n < 1:
        rep.analysis_broken("generic_process: re-insertion inside the drain loop not found")
    M = 1 << 32
    for nm, fn_ in (("add_sequence_numbers", lambda a, b: (a + b) % M), ("subtract_sequence_numbers", lambda a, b: (a - b) % M)):
        hs = [h for fid, h in db.functions.items() if ("::" + nm + "(") in fid and h.get("body") and len(h["params"]) == 2 and h["file"] == f["file"]]
        key = "%s:wrap" % nm
        if not hs:
            # the helper is gone: the arithmetic is written in place on uint32_t operands, which wraps modulo 2^32 by the
            # language (the operand types are checked by C06.R2's serial-comparison rule and the compiler)
            rep.ok("R6-legacy-order", key, facts.loc(f), "no %s() helper: plain uint32_t arithmetic at its former call sites" % nm)
            continue
        h = hs[0]
        bad = None
        try:
            for a, b in ((5, 7), (M - 1, 1), (M - 16, 32), (0, 1), (M - 2, 1), (16, 32), (M - 1, M - 1), (0, M - 1)):
                v = ieval.run_body(h, h["body"], {h["params"][0]["var"]: a, h["params"][1]["var"]: b})
                if v is None or (v % M) != fn_(a, b):
                    bad = "%s(0x%x, 0x%x) is 0x%x, modulo-2^32 arithmetic gives 0x%x" % (nm, a, b, (v or 0) % M, fn_(a, b))
                    break
        except ieval.Unknown as e:
            rep.analysis_broken("%s: outside the finite evaluator: %s" % (nm, e))
            continue
        if bad:
            rep.violation("R6-legacy-order", key, facts.loc(h), bad + ": segment ends computed across the wrap are off, stale data is sliced with a negative length")
        else:
            rep.ok("R6-legacy-order", key, facts.loc(h), "wraps modulo 2^32 on the boundary cells")
