"""C17 - capture files and the capture loop (DESIGN.md C17).  Implemented:
 R1 no-escape    every function whose address flows into a pcap_handler slot lets no
                 exception out (escape set = {} given C01.R4's parser escape sets).
 R4 loop-shape   every handler marks the frame as processed on every path; the
                 per-packet loop repeats only while no packet was produced AND the
                 handler ran; a negative pcap result yields a null packet.
Not decided here: byte/timestamp round trip, BPF agreement.
"""
from vlib import facts, cfg, exc, cond
from vlib.facts import strip
from rules import c01

PID = "C17"
NEXT = "Tins::BaseSniffer::next_packet"


def handlers(db):
    """functions whose address is taken inside BaseSniffer::next_packet"""
    fs = db.fns_named(NEXT)
    if not fs:
        raise facts.AnalysisBroken("BaseSniffer::next_packet vanished")
    f = fs[0]
    d = dispatcher(db, f)
    idx, parent = facts.index_fn(d)
    out = []
    for n in facts.fn_nodes(d):
        if n["k"] == "DeclRefExpr" and n.get("fn"):
            p = parent.get(n["id"])
            if p is not None and p["k"] == "UnaryOperator" and p.get("op") == "&":
                out.append((n["fn"], facts.loc(d, n)))
    # ... or inside a constant table the dispatcher looks the callback up in
    for gl, rows in handler_tables(db, d):
        for v, fns in rows:
            for fn_ in fns:
                out.append((fn_, "%s:%s" % (gl.get("file"), gl.get("line"))))
    return f, out


def handler_tables(db, d):
    """[(global, [(link type value, [function ids])])] for the constant file-scope arrays of {integer, &function} rows that
    dispatcher d reads"""
    out = []
    seen = set()
    for n in facts.fn_nodes(d):
        if n["k"] == "DeclRefExpr" and n.get("glob") and n.get("var") not in seen:
            seen.add(n["var"])
            gl = db.globals.get(n["var"])
            if gl is None or not gl.get("const") or not gl.get("init") or gl["init"]["k"] != "InitListExpr":
                continue
            rows = []
            for r in gl["init"].get("c", []):
                if r is None or r["k"] != "InitListExpr":
                    continue
                vals = [facts.cval(x) for x in r.get("c", []) if x is not None and facts.cval(x) is not None]
                fns = [x["fn"] for x in facts.walk(r) if x["k"] == "DeclRefExpr" and x.get("fn")]
                if len(vals) == 1 and fns:
                    rows.append((int(vals[0]), fns))
            if rows:
                out.append((gl, rows))
    return out


def dispatcher(db, f):
    """the function that picks the pcap callback for a link type: next_packet itself, or the library function it calls
    for that (the one that takes addresses of functions)"""
    def n_addr(fn_):
        idx, parent = facts.index_fn(fn_)
        return sum(1 for n in facts.fn_nodes(fn_) if n["k"] == "DeclRefExpr" and n.get("fn") and
                   (parent.get(n["id"]) or {}).get("k") == "UnaryOperator" and parent[n["id"]].get("op") == "&") + \
            sum(len(rows) for _, rows in handler_tables(db, fn_))
    if n_addr(f) > 0:
        return f
    best = f
    for c in facts.fn_nodes(f):
        if c["k"] in ("CallExpr", "CXXMemberCallExpr") and c.get("callee") and not c.get("ext"):
            h = db.fn(c["callee"])
            if h is not None and h.get("body") and (h.get("file") or "").startswith(("src/", "include/tins")) and n_addr(h) > n_addr(best):
                best = h
    return best


def run(db, rep, tier):
    rep.rule("R1-no-escape", "no exception can propagate out of a function installed as pcap callback", 9)
    rep.rule("R4-loop-shape", "handlers always mark the frame processed; next_packet loops only while (no packet AND handler ran); "
                              "negative pcap result -> null packet", 11)
    f, hs = handlers(db)
    if len(hs) < 9:
        rep.analysis_broken("expected >= 9 pcap handler instantiations in next_packet, found %d" % len(hs))
    ex = exc.Exc(db, boundary=exc.layer_boundary, discharge=c01.make_discharge(db))
    seen = set()
    for fid, site in hs:
        if fid in seen:
            continue
        seen.add(fid)
        h = db.fn(fid)
        if h is None:
            rep.analysis_broken("handler %s has no body in the database" % fid)
            continue
        es = ex.escapes(fid)
        key = fid.split("(")[0]
        if es:
            for t, (s, chain) in sorted(es.items()):
                rep.violation("R1-no-escape", "%s throws %s" % (key, t), facts.loc(h),
                              "%s raised at %s propagates out of the pcap callback (via %s) into libpcap's C frames and out of "
                              "next_packet()/range iteration/sniff_loop" % (t, s, " -> ".join(x.split("(")[0] for x in chain[-4:])))
        else:
            rep.ok("R1-no-escape", key, facts.loc(h), "escape set empty: every parsing call sits in a try whose handlers cover "
                   "what the parser can throw")
        # R4: packet_processed = true on every path
        g = cfg.FnCFG(h)
        def sets_flag(fn, n, txt):
            if n["k"] == "BinaryOperator" and n["op"] == "=":
                l = strip(n["c"][0])
                return l["k"] == "MemberExpr" and l.get("member") == "packet_processed" and facts.cval(n["c"][1]) == 1
            return False
        # in the handler itself or in a helper it calls that always does it (facts.lifted_sites)
        sets = [g.pos(site) for site, _, _ in facts.lifted_sites(db, h, sets_flag)]
        w = g.reaches_exit_avoiding((g.entry, -1), [p for p in sets if p], normal_only=False)
        if not sets or w is not None:
            rep.violation("R4-loop-shape", "%s:marks-processed" % key, facts.loc(h),
                          "handler can return without setting packet_processed = true: next_packet() then reports end of "
                          "capture although frames remain")
        else:
            rep.ok("R4-loop-shape", "%s:marks-processed" % key, facts.loc(h), "packet_processed = true on every path")
    rep.rule("R2-link-types", "every link type the capture-file writer can announce for a layer class has a reader arm that creates that class", 8)
    link_types(db, rep, dispatcher(db, f))
    rep.rule("R3-read-bounds", "a pcap handler reads the captured bytes itself only under a guard on the captured length", 9)
    for fid in sorted(seen):
        h = db.fn(fid)
        if h is not None:
            read_bounds(db, rep, h)
    loop_shape(db, rep, f)
    pkthdr(db, rep)
    carry_timestamp(db, rep)
    sniff_loop_shape(db, rep)
    iterator_protocol(db, rep)
    writer_timestamp(db, rep)
    rep.rule("R9-writer-handles", "every PacketWriter constructor gives its pcap handle and dumper a value before anything reads them (the "
                                  "destructor closes whatever they hold): directly, or through the member it delegates to", 2)
    writer_handles(db, rep)
    rep.explanation = ("Decides the 'never lets an exception escape from the per-packet loop' clause for the pcap callbacks and "
                       "the structural part of 'skips malformed frames, ends cleanly': escape sets of all %d installed handlers, "
                       "the processed-flag protocol, the handlers' own reads of the frame (R3) and the shape of next_packet's loop. Round-trip of bytes/timestamps and BPF "
                       "agreement are not decided." % len(seen))
    rep.assumptions += ["libpcap invokes the handler at most once per pcap_loop(...,1,...) call",
                        "allocation failure ignored"]


SPECIAL_HANDLERS = {          # hand-written handlers and the classes they create
    "Tins::sniff_loop_eth_handler": {"Tins::EthernetII", "Tins::Dot3"},
    "Tins::sniff_loop_raw_handler": {"Tins::IP", "Tins::IPv6"},
    "Tins::sniff_loop_dot11_handler": {"Tins::Dot11"},
}


def link_types(db, rep, f):
    """writer table DataLinkType<T>::type  vs  the reader's switch over pcap_datalink()"""
    from vlib import table as tbl
    sws = [n for n in facts.fn_nodes(f) if n["k"] == "SwitchStmt"]
    tabs = handler_tables(db, f)
    if not sws and not tabs:
        rep.analysis_broken("next_packet: switch over the link type not found")
        return
    arms = {}
    for gl, rows in tabs:
        # a table of {link type, callback} rows searched for the row whose link type equals pcap_datalink(): the row tested
        # and the row the callback is taken from are the same one (same index expression everywhere the table is subscripted)
        unevaluated = set(id(y) for x in facts.fn_nodes(f) if x["k"] == "UnaryExprOrTypeTraitExpr" for y in facts.walk(x))
        subs = [x for x in facts.fn_nodes(f) if x["k"] == "ArraySubscriptExpr" and id(x) not in unevaluated and
                any(y["k"] == "DeclRefExpr" and y.get("var") == gl["id"] for y in facts.walk(x["c"][0]))]
        idxs = set(facts.expr_str(x["c"][1]) for x in subs)
        tested = [x for x in facts.fn_nodes(f) if x["k"] == "BinaryOperator" and x.get("op") == "==" and
                  any(y in subs for y in facts.walk(x))]
        if len(idxs) != 1 or not tested or not all(facts.strip_all(x["c"][1])["k"] == "DeclRefExpr" for x in subs):
            rep.violation("R2-link-types", "table:%s" % gl["name"], "%s:%s" % (gl.get("file"), gl.get("line")),
                          "the callback table is subscripted with %s and tested %d time(s) with ==: the row whose link type is compared "
                          "must be the row the callback is taken from" % (sorted(idxs), len(tested)))
            return
        for v, fns in rows:
            arms.setdefault(int(v), set()).update(fns)
    if not sws:
        sws = [{"k": "SwitchStmt", "c": [{"k": "CompoundStmt", "c": []}]}]

    def visit(lbl, vals):
        inner = lbl
        while inner is not None and inner["k"] in ("CaseStmt", "DefaultStmt"):
            if inner["k"] == "CaseStmt":
                vals = vals + [facts.cval(inner["c"][0])]
            inner = inner["c"][-1] if inner.get("c") else None
        return vals, inner
    body = [x for x in sws[0]["c"] if x is not None][-1]
    cur_vals = []
    for st in body.get("c", []):
        if st["k"] in ("CaseStmt", "DefaultStmt"):
            cur_vals, first = visit(st, [])
            stmts = [first] if first is not None else []
        else:
            stmts = [st]
        for s_ in stmts:
            for x in facts.walk(s_):
                if x["k"] == "DeclRefExpr" and x.get("fn"):
                    for v in cur_vals:
                        arms.setdefault(int(v), set()).add(x["fn"])
    n = 0
    for rn, r in sorted(db.records.items()):
        if not rn.startswith("Tins::DataLinkType<"):
            continue
        cls = rn[len("Tins::DataLinkType<"):-1]
        tv = [s_ for s_ in r.get("statics", []) if s_["name"] == "type" and "v" in s_]
        if not tv:
            continue
        n += 1
        v = tv[0]["v"]
        key = "DataLinkType<%s>" % cls.split("::")[-1]
        site = "%s:%s" % (r["file"], r["line"])
        hs = arms.get(v)
        if not hs:
            rep.violation("R2-link-types", key, site,
                          "a capture written with DataLinkType<%s> announces link type %d, for which BaseSniffer::next_packet has no arm: "
                          "reading the file back throws unknown_link_type" % (cls.split("::")[-1], v))
            continue
        made = set()
        for h in hs:
            q = h.split("(")[0]
            if q in SPECIAL_HANDLERS:
                made |= SPECIAL_HANDLERS[q]
            elif q.startswith("Tins::sniff_loop_handler<"):
                made.add(q[len("Tins::sniff_loop_handler<"):-1])
        fam = {cls} | set(db.all_bases(cls))
        if made & fam or any(cls in db.all_bases(m) for m in made):
            rep.ok("R2-link-types", key, site, "link type %d -> %s" % (v, sorted(x.split("::")[-1] for x in made)))
        else:
            rep.violation("R2-link-types", key, site, "link type %d is read back as %s, not as %s" % (v, sorted(made), cls))
    if n < 8:
        rep.analysis_broken("only %d DataLinkType specialisations found" % n)


def read_bounds(db, rep, h):
    """the handler's own accesses to the frame (3rd parameter): passing (bytes, caplen) on is the parsers' business
    (C01); a direct read needs a dominating comparison of the captured length"""
    from vlib import cond
    key = h["id"].split("(")[0]
    if len(h["params"]) < 3:
        rep.analysis_broken("%s: not a pcap handler signature" % key)
        return
    pb = h["params"][2]["var"]
    ph = h["params"][1]["var"]
    g = cfg.FnCFG(h)
    tainted = {pb}
    for n in facts.fn_nodes(h):
        if n["k"] == "VarDecl" and n.get("c") and any(x["k"] == "DeclRefExpr" and x.get("var") in tainted for x in facts.walk(n["c"][0])):
            t = facts.tyi(h, n.get("t")) or {}
            if t.get("k") == "ptr":
                tainted.add(n["var"])
    idx, par = facts.index_fn(h)
    bad = None
    n_reads = 0
    for n in facts.fn_nodes(h):
        acc = None
        if n["k"] == "MemberExpr" and n.get("arrow") and n.get("isfield"):
            b = facts.strip_all(n["c"][0])
            if b["k"] == "DeclRefExpr" and b.get("var") in tainted:
                acc = n
        if n["k"] == "UnaryOperator" and n.get("op") == "*" or n["k"] == "ArraySubscriptExpr":
            b = facts.strip_all(n["c"][0])
            if b["k"] == "DeclRefExpr" and b.get("var") in tainted:
                acc = n
        if acc is None:
            continue
        n_reads += 1
        guarded = False
        for op, l, r in cond.guards_facts(g, g.pos(acc)):
            txt = facts.expr_str(l) + (facts.expr_str(r) if r is not None else "")
            if "caplen" in txt and op in (">=", ">", "<", "<=", "!=", "=="):
                guarded = True
        if not guarded:
            bad = acc
            break
    if bad is not None:
        rep.violation("R3-read-bounds", key, facts.loc(h, bad),
                      "the handler reads `%s` from the captured frame without any check of h->caplen: a zero-length frame in a capture file is read out of bounds"
                      % facts.expr_str(bad)[:40])
    else:
        rep.ok("R3-read-bounds", key, facts.loc(h), "%d direct read(s) of the frame, all under a caplen guard; otherwise (bytes, caplen) is handed to a parser" % n_reads)


def loop_shape(db, rep, f):
    g = cfg.FnCFG(f)
    loops = [n for n in facts.fn_nodes(f) if n["k"] in ("WhileStmt", "DoStmt")]
    if len(loops) != 1:
        rep.analysis_broken("next_packet: expected exactly one while / do-while loop, found %d" % len(loops))
        return
    loop = loops[0]
    if loop["k"] == "DoStmt":
        # do { ... } while (C): the same loop, entered unconditionally (a fresh sniff_data satisfies C anyway)
        condn = [x for x in loop["c"] if x is not None][-1]
    else:
        condn = loop["c"][0] if len(loop["c"]) == 2 else loop["c"][1]
    atoms = cond.facts_of(f, condn, True)
    # an "ended" flag: a boolean local that the loop body sets from `<capture call> < 0` and the loop condition tests negated;
    # the null packet is then returned after the loop under that flag
    ended = None
    for a_ in facts.walk([x for x in loop["c"] if x is not None][0] if loop["k"] == "DoStmt" else loop["c"][-1]):
        if a_["k"] == "BinaryOperator" and a_.get("op") == "=" and facts.strip_all(a_["c"][0])["k"] == "DeclRefExpr":
            rv = facts.strip_all(a_["c"][1])
            if rv["k"] == "BinaryOperator" and rv.get("op") == "<" and facts.cval(rv["c"][1]) == 0 and \
                    any(y["k"] in ("CallExpr", "CXXMemberCallExpr") and not y.get("callee") for y in facts.walk(rv["c"][0])):
                ended = facts.strip_all(a_["c"][0]).get("var")
    if ended is not None:
        atoms = [(op, l, r) for op, l, r in atoms if not (op == "false" and facts.strip_all(l).get("var") == ended)]
    has_pdu0 = any(op == "==" and "pdu" in facts.expr_str(l) and facts.cval(r) == 0 for op, l, r in atoms if r is not None) or \
        any(op == "false" and "pdu" in facts.expr_str(l) for op, l, r in atoms)
    has_proc = any(op == "true" and "packet_processed" in facts.expr_str(l) for op, l, r in atoms)
    if has_pdu0 and has_proc and len(atoms) == 2:
        rep.ok("R4-loop-shape", "next_packet:loop-condition", facts.loc(f, loop), "loop continues iff pdu == 0 && packet_processed")
    else:
        rep.violation("R4-loop-shape", "next_packet:loop-condition", facts.loc(f, loop),
                      "loop condition is not `no packet produced AND handler ran` (atoms: %s)" %
                      [(op, facts.expr_str(l)) for op, l, r in atoms])
    # body: flag reset before the capture call, negative result returns a null packet
    body = [x for x in loop["c"] if x is not None][0] if loop["k"] == "DoStmt" else loop["c"][-1]
    reset = [n for n in facts.walk(body) if n["k"] == "BinaryOperator" and n["op"] == "=" and
             "packet_processed" in facts.expr_str(n["c"][0]) and facts.cval(n["c"][1]) == 0]
    calls = [n for n in facts.walk(body) if n["k"] in ("CallExpr", "CXXMemberCallExpr") and not n.get("callee")]
    if reset and calls and g.before_on_all_paths(g.pos(reset[0]), g.pos(calls[0])):
        rep.ok("R4-loop-shape", "next_packet:flag-reset", facts.loc(f, reset[0]), "packet_processed cleared before each capture call")
    else:
        rep.violation("R4-loop-shape", "next_packet:flag-reset", facts.loc(f, loop),
                      "packet_processed is not cleared before the capture call: a timeout/EOF without a frame is taken for a "
                      "malformed frame and the loop never ends")
    ok = False
    for n in facts.walk(body):
        if n["k"] == "IfStmt":
            at = cond.facts_of(f, n["c"][-2] if len(n["c"]) > 2 and n["c"][-1]["k"] != "ReturnStmt" else n["c"][0], True)
            for c_ in n["c"]:
                pass
            conds = [c_ for c_ in n["c"] if c_ is not None and c_["k"] not in ("CompoundStmt", "ReturnStmt")]
            at = cond.facts_of(f, conds[0], True) if conds else []
            if any(op == "<" and facts.cval(r) == 0 for op, l, r in at if r is not None):
                for r_ in facts.walk(n):
                    if r_["k"] == "ReturnStmt":
                        for x in facts.walk(r_):
                            if x["k"] in ("CXXConstructExpr", "CXXTemporaryObjectExpr") and x.get("c") and facts.cval(x["c"][0]) == 0:
                                ok = True
    if not ok and ended is not None:
        # flag form: `while (!ended && ...) { ended = call(...) < 0; }  if (ended) return PtrPacket(0, ...);`
        in_cond = any(op == "false" and facts.strip_all(l).get("var") == ended for op, l, r in cond.facts_of(f, condn, True))
        for n in facts.fn_nodes(f):
            if n["k"] == "IfStmt" and not any(y is n for y in facts.walk(loop)) and (n.get("l") or 0) >= (loop.get("l") or 0):
                conds = [c_ for c_ in n["c"] if c_ is not None and c_["k"] not in ("CompoundStmt", "ReturnStmt")]
                at = cond.facts_of(f, conds[0], True) if conds else []
                if in_cond and any(op == "true" and facts.strip_all(l).get("var") == ended for op, l, r in at):
                    for r_ in facts.walk(n):
                        if r_["k"] == "ReturnStmt":
                            for x in facts.walk(r_):
                                if x["k"] in ("CXXConstructExpr", "CXXTemporaryObjectExpr") and x.get("c") and facts.cval(x["c"][0]) == 0:
                                    ok = True
    if ok:
        rep.ok("R4-loop-shape", "next_packet:negative-result", facts.loc(f, loop), "negative pcap result returns PtrPacket(0, ...)")
    else:
        rep.violation("R4-loop-shape", "next_packet:negative-result", facts.loc(f, loop),
                      "a negative result of the capture call does not end the iteration with a null packet")


PKTHDR_FIELDS = {"pcap_dump": ("ts", "caplen", "len"), "pcap_offline_filter": ("caplen", "len")}


def pkthdr(db, rep):
    """R5: a pcap_pkthdr built by libtins and handed to libpcap has every field
    libpcap reads assigned (from something other than the constant 0) on every
    path to the call.  `len` is what the BPF `len` / `greater` / `less`
    primitives test, `caplen` bounds the loads, `ts`+both go to the file."""
    rep.rule("R5-pkthdr", "every pcap_pkthdr libtins hands to pcap_dump / pcap_offline_filter has ts (dump only), caplen and len assigned "
                          "from the frame on every path to the call", 5)
    n = 0
    for f in sorted(db.functions.values(), key=lambda x: x["id"]):
        if not f.get("body") or not f["file"].startswith("src/"):
            continue
        hdrs = {}
        for x in facts.fn_nodes(f):
            if x["k"] == "VarDecl":
                t = facts.tyi(f, x.get("t")) or {}
                if t.get("k") == "rec" and t.get("name") == "pcap_pkthdr":
                    hdrs[x["var"]] = x
        if not hdrs:
            continue
        g = cfg.FnCFG(f)
        for call in facts.fn_nodes(f):
            if call["k"] != "CallExpr" or call.get("cname") not in PKTHDR_FIELDS:
                continue
            used = None
            for a in call["c"][1:]:
                a0 = facts.strip_all(a)
                if a0["k"] == "UnaryOperator" and a0.get("op") == "&":
                    v = facts.strip_all(a0["c"][0])
                    if v["k"] == "DeclRefExpr" and v.get("var") in hdrs:
                        used = v["var"]
            if used is None:
                continue
            for field in PKTHDR_FIELDS[call["cname"]]:
                n += 1
                key = "%s:%s:%s" % (f["qual"].replace("Tins::", ""), call["cname"], field)
                want_txt = "%s.%s" % (hdrs[used].get("name"), field)

                def is_set(fn, x, txt, field=field, want_txt=want_txt):
                    if (x["k"] == "BinaryOperator" and x.get("op") == "=") or \
                            (x["k"] == "CXXOperatorCallExpr" and x.get("cname") == "operator="):
                        ops = x["c"][-2:]
                        l = strip(ops[0])
                        return l["k"] == "MemberExpr" and l.get("member") == field and txt(l) == want_txt and facts.cval(ops[1]) != 0
                    return False
                # assigned in this function, or in a helper that is handed the header and always assigns it
                lifted = facts.lifted_sites(db, f, is_set)
                sets = [node for site, node, fn_ in lifted]
                pos = [g.pos(site) for site, node, fn_ in lifted]
                pos = [q for q in pos if q]
                if not pos or g.reached_from_entry_avoiding(g.pos(call), pos) is not None:
                    rep.violation("R5-pkthdr", key, facts.loc(f, call),
                                  "%s() can be reached with header.%s never assigned from the frame (it stays 0 / indeterminate): %s"
                                  % (call["cname"], field,
                                     {"len": "BPF `len`, `greater` and `less` tests and the on-file original length are wrong",
                                      "caplen": "libpcap sees no captured bytes",
                                      "ts": "the frame's timestamp is not written"}[field]))
                elif field == "caplen" and caplen_overshoots(f, call, sets):
                    rep.violation("R5-pkthdr", key, facts.loc(f, sets[0]),
                                  "header.caplen = `%s` is not bounded by the number of bytes actually handed to libpcap (`%s`): libpcap "
                                  "reads caplen bytes from that buffer, so a larger value reads past its end"
                                  % (facts.expr_str(sets[0]["c"][-1])[:80], caplen_overshoots(f, call, sets)))
                else:
                    rep.ok("R5-pkthdr", key, facts.loc(f, call), "header.%s = %s on every path to the call"
                           % (field, facts.expr_str(sets[0]["c"][-1])))
    if n == 0:
        rep.analysis_broken("no pcap_pkthdr built by libtins was found")


PACKET_SOURCES = ("Tins::Packet", "Tins::RefPacket", "Tins::PtrPacket", "Tins::Timestamp")


def carry_timestamp(db, rep):
    """R6: every constructor / assignment operator of Packet that receives a
    timestamp source (a Timestamp, or another packet object) stores a value
    computed from that parameter in ts_ on every path (assignment operators:
    on every path on which they store the layer pointer)."""
    rep.rule("R6-carry-timestamp", "every Packet constructor / assignment operator that receives a timestamp or another packet object "
                                   "stores that timestamp in ts_", 9)
    r = db.records.get("Tins::Packet")
    if r is None or not any(x["name"] == "ts_" for x in r["fields"]):
        rep.analysis_broken("Tins::Packet or its ts_ member vanished")
        return
    for m in r["methods"]:
        f = db.fn(m["id"])
        if f is None or not f.get("body"):
            continue
        is_ctor = f.get("kind") == "ctor"
        if not is_ctor and f.get("special") not in ("copy_assign", "move_assign"):
            continue
        srcs = []
        for prm in f["params"]:
            t = facts.tyi(f, prm.get("t")) or {}
            while t.get("k") in ("ref", "ptr") and t.get("to"):
                t = t["to"]
            if t.get("k") == "rec" and (t.get("name") in PACKET_SOURCES or (t.get("name") or "").startswith("Tins::PacketWrapper<")):
                srcs.append(prm)
        if not srcs:
            continue
        def tname(prm):
            t = facts.tyi(f, prm.get("t")) or {}
            suf = ""
            while t.get("k") in ("ref", "ptr") and t.get("to"):
                suf = {"ref": "&", "ptr": "*"}[t["k"]] + suf
                if t.get("rvalue"):
                    suf = "&" + suf
                t = t["to"]
            return (t.get("name") or t.get("k") or "?").replace("Tins::", "") + suf
        key = "Packet::%s(%s)" % ("Packet" if is_ctor else "operator=", ", ".join(tname(prm) for prm in f["params"]))
        if f.get("special"):
            key += ":" + f["special"]
        vars_ = set(prm["var"] for prm in srcs)

        def from_src(e):
            return any(x["k"] == "DeclRefExpr" and x.get("var") in vars_ for x in facts.walk(e))
        good = None
        for i in f.get("inits", []):
            if i.get("member") == "ts_" and i.get("written") and from_src(i["e"]):
                good = ("init", i["e"])
        stores = []
        for x in facts.fn_nodes(f):
            if x["k"] in ("BinaryOperator", "CXXOperatorCallExpr") and (x.get("op") == "=" or x.get("cname") == "operator="):
                ops = x["c"][-2:]
                l = facts.strip_all(ops[0])
                if l["k"] == "MemberExpr" and l.get("member") == "ts_" and facts.strip_all(l["c"][0])["k"] == "CXXThisExpr" and from_src(ops[1]):
                    stores.append(x)
            if x["k"] == "CallExpr" and x.get("cname") == "swap" and len(x["c"]) == 3:
                a, b = facts.strip_all(x["c"][1]), facts.strip_all(x["c"][2])
                for u, w in ((a, b), (b, a)):
                    if u["k"] == "MemberExpr" and u.get("member") == "ts_" and facts.strip_all(u["c"][0])["k"] == "CXXThisExpr" and from_src(w):
                        stores.append(x)
        site = facts.loc(f)
        nd = null_deref_of_source(f, srcs)
        if nd is not None:
            rep.violation("R6-carry-timestamp", key + ":empty-source", facts.loc(f, nd),
                          "`%s` is evaluated without a test that the source packet holds a layer: copying an empty Packet (the end / "
                          "exhausted SnifferIterator holds one) dereferences a null pointer" % facts.expr_str(nd)[:60])
        if good:
            rep.ok("R6-carry-timestamp", key, site, "ts_ initialised from `%s`" % facts.expr_str(good[1]))
            continue
        if stores:
            g = cfg.FnCFG(f)
            # anchor: the store of the layer pointer; ts_ must be stored on every path that stores pdu_
            pd = []
            for x in facts.fn_nodes(f):
                if x["k"] == "BinaryOperator" and x.get("op") == "=":
                    l = facts.strip_all(x["c"][0])
                    if l["k"] == "MemberExpr" and l.get("member") == "pdu_" and facts.strip_all(l["c"][0])["k"] == "CXXThisExpr":
                        pd.append(x)
            spos = [q for q in (g.pos(x) for x in stores) if q]
            bad = None
            if is_ctor or not pd:
                if g.reaches_exit_avoiding((g.entry, -1), spos, normal_only=True) is not None and is_ctor:
                    bad = "a path through the constructor leaves ts_ default-constructed"
            for x in pd:
                if g.reaches_exit_avoiding(g.pos(x), spos, normal_only=True) is not None and \
                        g.reached_from_entry_avoiding(g.pos(x), spos) is not None:
                    bad = "a path stores the layer pointer but not the timestamp"
            if bad:
                rep.violation("R6-carry-timestamp", key, site, bad)
            else:
                rep.ok("R6-carry-timestamp", key, site, "ts_ = `%s`" % facts.expr_str(stores[0]["c"][-1]))
            continue
        rep.violation("R6-carry-timestamp", key, site,
                      "the new Packet does not take the timestamp of `%s`: ts_ is never stored from it (a capture moved or copied "
                      "through this member reports timestamp 0 / another time)" % srcs[0]["name"])


def caplen_overshoots(f, call, sets):
    """the data argument of the libpcap call is `&X[0]` / `X.data()` of a byte container X (or a pointer parameter that comes
    with a size parameter): every store to caplen must be X.size() (resp. that size parameter), possibly cast or under min().
    Returns a description of the bound when a store is something else, else None."""
    data = facts.strip_all(call["c"][-1])
    bound = None
    for y in facts.walk(data):
        if y["k"] == "DeclRefExpr" and y.get("var"):
            t = facts.ty(f, y) or {}
            if t.get("k") == "rec" or (t.get("k") == "ref" and (t.get("to") or {}).get("k") == "rec"):
                bound = ("cont", y["var"], y.get("name"))
            elif t.get("k") == "ptr" and y.get("parm"):
                ps = [p for p in f["params"] if (facts.tyi(f, p.get("t")) or {}).get("k") == "int"]
                if ps:
                    bound = ("param", ps[0]["var"], ps[0]["name"])
    if bound is None:
        return None

    def bounded(e):
        e0 = facts.strip_all(facts.inline_locals(f, e))
        if bound[0] == "param":
            return e0["k"] == "DeclRefExpr" and e0.get("var") == bound[1]
        if e0["k"] == "CXXMemberCallExpr" and e0.get("cname") == "size" and e0["c"][0].get("c") and \
                facts.strip_all(e0["c"][0]["c"][0]).get("var") == bound[1]:
            return True
        if e0["k"] == "CallExpr" and e0.get("cname") == "min":
            return any(bounded(a) for a in e0["c"][1:])
        if e0["k"] == "ConditionalOperator":
            return False
        return False
    for st in sets:
        if not bounded(st["c"][-1]):
            return "%s%s" % (bound[2], ".size()" if bound[0] == "cont" else "")
    return None


def null_deref_of_source(f, srcs):
    """in a Packet member copying from another Packet: a member call through the source's layer pointer that is not
    dominated by a test of that pointer"""
    pk = []
    for prm in srcs:
        t = facts.tyi(f, prm.get("t")) or {}
        while t.get("k") in ("ref", "ptr") and t.get("to"):
            t = t["to"]
        if t.get("name") == "Tins::Packet":
            pk.append(prm["var"])
    if not pk:
        return None
    g = cfg.FnCFG(f)

    def src_ptr(e):
        e0 = facts.strip_all(e)
        if e0["k"] == "CXXMemberCallExpr" and e0.get("cname") == "pdu" and e0["c"][0].get("c"):
            return facts.strip_all(e0["c"][0]["c"][0]).get("var") in pk
        if e0["k"] == "MemberExpr" and e0.get("member") == "pdu_" and e0.get("c"):
            return facts.strip_all(e0["c"][0]).get("var") in pk
        return False
    nodes = list(facts.fn_nodes(f))
    for i in f.get("inits", []):
        nodes += list(facts.walk(i["e"]))
    for x in nodes:
        if x["k"] == "CXXMemberCallExpr" and x["c"] and x["c"][0]["k"] == "MemberExpr" and x["c"][0].get("arrow") and \
                x["c"][0].get("c") and src_ptr(x["c"][0]["c"][0]):
            pos = g.pos(x)
            ok = False
            if pos is not None:
                for op, l, r in cond.guards_facts(g, pos):
                    if op == "true" and src_ptr(l):
                        ok = True
                    if op == "!=" and r is not None and ((src_ptr(l) and facts.cval(r) == 0) or (src_ptr(r) and facts.cval(l) == 0)):
                        ok = True
            if not ok:
                return x
    return None


SNIFF_TU = """#include <tins/tins.h>
static bool verif_cb(Tins::PDU&) { return true; }
template void Tins::BaseSniffer::sniff_loop<bool (*)(Tins::PDU&)>(bool (*)(Tins::PDU&), uint32_t);
"""


def sniff_loop_shape(db, rep):
    """sniff_loop: the handlers that swallow malformed_packet / pdu_not_found thrown by the user's callback sit INSIDE the
    per-packet loop, and so does the packet countdown"""
    rep.rule("R7-sniff-loop", "sniff_loop swallows the callback's malformed_packet / pdu_not_found per packet: the try block is inside the loop, "
                              "so one throwing frame does not end the capture", 1)
    try:
        d2 = facts.extract_standalone(db, "c17sniff", SNIFF_TU)
    except facts.AnalysisBroken as e:
        rep.analysis_broken("sniff_loop does not instantiate: %s" % str(e)[:200])
        return
    fs = [f for fid, f in d2.functions.items() if fid.startswith("Tins::BaseSniffer::sniff_loop<") and f.get("body")]
    if not fs:
        rep.analysis_broken("BaseSniffer::sniff_loop instantiation not found")
        return
    f = fs[0]
    idx, par = facts.index_fn(f)
    tries = [x for x in facts.fn_nodes(f) if x["k"] == "CXXTryStmt"]
    key = "BaseSniffer::sniff_loop"
    if not tries:
        rep.violation("R7-sniff-loop", key, facts.loc(f), "no handler for the callback's exceptions any more: they escape from sniff_loop")
        return
    for t in tries:
        p = par.get(t["id"])
        inloop = False
        while p is not None:
            if p["k"] in ("ForStmt", "WhileStmt", "DoStmt", "CXXForRangeStmt"):
                inloop = True
            p = par.get(p["id"])
        holds_loop = any(x["k"] in ("ForStmt", "WhileStmt", "DoStmt", "CXXForRangeStmt") for x in facts.walk(t))
        if not inloop or holds_loop:
            rep.violation("R7-sniff-loop", key, facts.loc(f, t),
                          "the try block encloses the packet loop instead of one callback invocation: the first frame on which the callback "
                          "throws malformed_packet / pdu_not_found silently ends the whole capture")
            return
    rep.ok("R7-sniff-loop", key, facts.loc(f, tries[0]), "exceptions of one callback invocation are swallowed inside the loop")


def writer_handles(db, rep):
    REC = "Tins::PacketWriter"
    r = db.records.get(REC)
    if not r:
        rep.analysis_broken("PacketWriter vanished")
        return
    ptrs = [fl["name"] for fl in r.get("fields", []) if (facts.tyi(r, fl.get("t")) or {}).get("k") == "ptr"]
    if not ptrs:
        rep.analysis_broken("PacketWriter has no pointer members any more")
        return

    def first_access(f, P, depth=0):
        """'write' / 'read' / None: what happens first (source order) to this->P in f, following calls on *this"""
        idx, parent = facts.index_fn(f)
        for i in f.get("inits", []):
            if i.get("member") == P and i.get("written"):
                return "write"
        for x in facts.fn_nodes(f):
            if x["k"] == "MemberExpr" and x.get("member") == P and x.get("isfield") and \
                    (not x.get("c") or facts.strip_all(x["c"][0])["k"] == "CXXThisExpr"):
                p_ = parent.get(x["id"])
                while p_ is not None and p_["k"] in ("ParenExpr",):
                    p_ = parent.get(p_["id"])
                if p_ is not None and p_["k"] == "BinaryOperator" and p_.get("op") == "=" and facts.strip_all(p_["c"][0]) is x:
                    return "write"
                return "read"
            if depth < 3 and x["k"] in ("CXXMemberCallExpr", "CXXOperatorCallExpr") and x.get("callee"):
                h = db.fn(x["callee"])
                onthis = any(y["k"] == "CXXThisExpr" for y in facts.walk(x["c"][0] if x["k"] == "CXXMemberCallExpr" else x["c"][1]))
                if h is not None and h.get("body") and h.get("rec") == REC and h is not f and onthis:
                    a = first_access(h, P, depth + 1)
                    if a is not None:
                        return a
        return None
    n = 0
    for fid, f in sorted(db.functions.items()):
        if f.get("rec") != REC or f.get("kind") != "ctor" or not f.get("body") or f.get("special") == "copy_ctor":
            continue
        for P in ptrs:
            n += 1
            a = first_access(f, P)
            key = "PacketWriter(%s):%s" % ("&&" if f.get("special") == "move_ctor" else "%d" % len(f["params"]), P)
            if a == "write":
                rep.ok("R9-writer-handles", key, facts.loc(f), "`%s` is written before it is read" % P)
            else:
                rep.violation("R9-writer-handles", key, facts.loc(f),
                              "the constructor %s `%s`%s: the indeterminate pointer ends up in this object or (through the swap of the move "
                              "assignment it delegates to) in the moved-from writer, whose destructor hands it to pcap_dump_close / pcap_close"
                              % ("reads" if a == "read" else "never initialises", P, " before giving it a value" if a == "read" else ""))
    if n < 2:
        rep.analysis_broken("PacketWriter constructors not found")


def writer_timestamp(db, rep):
    """PacketWriter::write(Packet&): the packet's own timestamp reaches the record on EVERY path - no path hands the layer to
    the overload that stamps it with the current time (a capture time of exactly 0.000000 is a capture time too)"""
    ws = [f for fid, f in db.functions.items() if fid.startswith("Tins::PacketWriter::write(Tins::Packet &") and f.get("body")]
    key = "PacketWriter::write(Packet&)"
    if not ws:
        rep.analysis_broken("PacketWriter::write(Packet&) vanished")
        return
    f = ws[0]
    g = cfg.FnCFG(f)
    timed, now = [], []
    for c in facts.fn_nodes(f):
        if c["k"] == "CXXMemberCallExpr" and c.get("cname") == "write" and c.get("callee"):
            h = db.fn(c["callee"])
            np_ = len((h or {}).get("params", ())) if h else len(c["c"]) - 1
            if np_ >= 2:
                timed.append(c)
            elif "Packet" not in (c.get("callee") or ""):
                now.append(c)
    if now:
        rep.violation("R6-carry-timestamp", key, facts.loc(f, now[0]),
                      "a path through write(Packet&) hands the layer to write(PDU&), which stamps the record with the CURRENT time: the "
                      "packet's own timestamp is lost for the packets that take it (e.g. a capture time of exactly 0.000000)")
    elif timed and g.reaches_exit_avoiding((g.entry, -1), [g.pos(t_) for t_ in timed if g.pos(t_)], normal_only=True) is None and \
            any(x["k"] == "CXXMemberCallExpr" and x.get("cname") == "timestamp" for x in facts.fn_nodes(f)):
        rep.ok("R6-carry-timestamp", key, facts.loc(f, timed[0]), "every path writes the record with the packet's own timestamp")
    else:
        rep.violation("R6-carry-timestamp", key, facts.loc(f), "write(Packet&) does not write the record with the packet's timestamp on every path")


def iterator_protocol(db, rep):
    """SnifferIterator: construction from a sniffer and both increments fetch a packet; running out of packets turns the
    iterator into the end iterator; equality is identity of the sniffer pointer; != is its negation"""
    rep.rule("R8-iterator", "range iteration: SnifferIterator fetches a packet on construction and on every increment, becomes the end "
                            "iterator when next_packet() yields none, and compares by its sniffer pointer", 6)
    REC = "Tins::SnifferIterator"
    ms = dict()
    for f in db.functions.values():
        if f.get("rec") == REC and f.get("body"):
            ms.setdefault(f["qual"].split("::")[-1] + ("/%d" % len(f["params"])), f)
    if not ms:
        rep.analysis_broken("SnifferIterator has no analysable members")
        return

    def calls(f, name):
        return [x for x in facts.fn_nodes(f) if x["k"] == "CXXMemberCallExpr" and x.get("cname") == name]

    def verdict(key, f, ok, good, bad):
        (rep.ok if ok else rep.violation)("R8-iterator", "SnifferIterator::" + key, facts.loc(f), good if ok else bad)
    adv = ms.get("advance/0")
    if adv is None:
        rep.analysis_broken("SnifferIterator::advance vanished")
        return
    g = cfg.FnCFG(adv)
    fetch = [x for x in facts.fn_nodes(adv) if x["k"] in ("CXXOperatorCallExpr", "BinaryOperator") and
             any(y["k"] == "CXXMemberCallExpr" and y.get("cname") == "next_packet" for y in facts.walk(x)) and "pkt_" in facts.expr_str(x["c"][-2])]
    clear = [x for x in facts.fn_nodes(adv) if x["k"] == "BinaryOperator" and x.get("op") == "=" and
             strip(x["c"][0]).get("member") == "sniffer_" and facts.cval(x["c"][1]) == 0]
    okc = False
    if fetch and clear:
        for op, l, r in cond.guards_facts(g, g.pos(clear[0])):
            if op == "false" and "pkt_" in facts.expr_str(l):
                okc = True
            if op == "==" and r is not None and "pkt_" in facts.expr_str(l) and facts.cval(r) == 0:
                okc = True      # `pkt_.pdu() == 0`, the same test spelled out
    verdict("advance", adv, bool(fetch) and okc and g.reaches_exit_avoiding((g.entry, -1), [g.pos(fetch[0])], normal_only=True) is None,
            "pkt_ = next_packet() on every path; sniffer_ cleared exactly when no packet came",
            "advance() does not (always) fetch the next packet, or does not turn into the end iterator when there is none: range "
            "iteration repeats a packet or never terminates")
    for nm, what in (("operator++/0", "pre-increment"), ("operator++/1", "post-increment")):
        f = ms.get(nm)
        if f is None:
            continue
        gg = cfg.FnCFG(f)
        c = calls(f, "advance")
        if not c and nm == "operator++/1" and ms.get("operator++/0") is not None:
            # post-increment through the pre-increment of this very object (`++*this`), which is judged above
            c = [x for x in facts.fn_nodes(f) if x["k"] == "CXXOperatorCallExpr" and x.get("op") == "++" and
                 x.get("callee") == ms["operator++/0"]["id"] and
                 any(y["k"] == "CXXThisExpr" for y in facts.walk(x["c"][1]))]
        if nm == "operator++/1":
            fetchers = [x for x in facts.fn_nodes(f) if x["k"] in ("CXXConstructExpr", "CXXTemporaryObjectExpr") and x.get("crec") == REC and
                        x.get("c") and "BaseSniffer" in ((facts.ty(f, facts.strip_all(x["c"][0])) or {}).get("s") or "")]
            if fetchers:
                verdict(nm, f, False, "", "post-increment builds an iterator from the sniffer pointer - a constructor that itself fetches a "
                                          "frame - on top of advancing: every `it++` consumes two frames and one of them is lost")
                continue
        verdict(nm, f, bool(c) and gg.reaches_exit_avoiding((gg.entry, -1), [gg.pos(c[0])], normal_only=True) is None,
                "%s advances" % what, "%s does not call advance(): the loop never moves to the next packet" % what)
    for nm, f in ms.items():
        if f.get("kind") == "ctor" and len(f["params"]) == 1 and (facts.tyi(f, f["params"][0].get("t")) or {}).get("k") == "ptr":
            gg = cfg.FnCFG(f)
            c = calls(f, "advance")
            okk = False
            if c:
                gf = cond.guards_facts(gg, gg.pos(c[0]))
                okk = all((op == "true" and "sniffer_" in facts.expr_str(l)) or
                          (op == "!=" and r is not None and "sniffer_" in facts.expr_str(l) and facts.cval(r) == 0) for op, l, r in gf) and len(gf) >= 1
            verdict("ctor", f, okk, "fetches the first packet when given a sniffer",
                    "begin() does not fetch the first packet (or tries to without a sniffer)")
    eq = ms.get("operator==/1")
    if eq is not None:
        rets = [x for x in facts.fn_nodes(eq) if x["k"] == "ReturnStmt" and x.get("c")]
        e = strip(rets[0]["c"][0]) if len(rets) == 1 else None
        okk = e is not None and e["k"] == "BinaryOperator" and e.get("op") == "==" and \
            all("sniffer_" in facts.expr_str(x) for x in e["c"])
        verdict("operator==", eq, okk, "compares the sniffer pointers", "operator== is not `sniffer_ == rhs.sniffer_`: the loop's end test is wrong")
    ne = ms.get("operator!=/1")
    if ne is not None:
        rets = [x for x in facts.fn_nodes(ne) if x["k"] == "ReturnStmt" and x.get("c")]
        e = strip(rets[0]["c"][0]) if len(rets) == 1 else None
        okk = e is not None and ((e["k"] == "UnaryOperator" and e.get("op") == "!" and "==" in facts.expr_str(e)) or
                                 (e["k"] == "BinaryOperator" and e.get("op") == "!=" and all("sniffer_" in facts.expr_str(x) for x in e["c"])))
        verdict("operator!=", ne, okk, "the negation of operator==", "operator!= is not the negation of operator==")
