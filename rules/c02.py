"""C02 - serialization is total, size-exact, layers never overwrite each other.
Rules implemented (DESIGN.md C02):
 R2 cache-pair   cached option/tag sizes are adjusted wherever the list is mutated,
                 for the same element, with one linear form (add = remove = bytes
                 written per element by the serialiser).
 (further rules are added below as they are implemented)
"""
from vlib import facts, cfg, cachepair
from vlib.facts import strip

PID = "C02"

# (class, container field, counter field): confirmed by reading; a vanished field is exit 2
CACHE_PAIRS = [
    ("Tins::DHCP", "options_", "size_"),
    ("Tins::DHCPv6", "options_", "options_size_"),
    ("Tins::ICMPv6", "options_", "options_size_"),
    ("Tins::Dot11", "options_", "options_size_"),
    ("Tins::PPPoE", "tags_", "tags_size_"),
]


def run(db, rep, tier):
    rep.rule("R2-cache-pair", "every mutation of an option/tag list is paired on all paths with the adjustment of its cached "
                              "size, for the same element, before an erase, with one linear per-element form", 20)
    r2(db, rep, "R2-cache-pair")
    rep.explanation = ("Decides the cached-size clause of C02 (sizes reported by header_size() stay equal to what the option "
                       "lists serialise to under any add/remove history): pairing on all CFG paths, same element, correct "
                       "order for removals, and agreement of the per-element linear form between add, remove and the "
                       "serialiser's per-element writer.")


def r2(db, rep, rule):
    for rec, cont, cnt in CACHE_PAIRS:
        r = db.records.get(rec)
        if not r or not any(f["name"] == cont for f in r["fields"]) or not any(f["name"] == cnt for f in r["fields"]):
            rep.analysis_broken("cache pair %s::%s/%s vanished" % (rec, cont, cnt))
            continue
        cp = cachepair.ClassPair(db, rec, cont, cnt).analyse()
        short = rec.split("::")[-1]
        for verdict, key, site, text in cp.results:
            k = "%s::%s" % (short, key)
            getattr(rep, verdict)(rule, k, site, text)
        # per-element writer form
        wf = writer_form(db, rec, cont)
        forms = cp.form_agreement()
        if wf is not None:
            forms.setdefault(wf[0].key(), []).append(("write", wf[1], wf[2], wf[0]))
        if len(forms) == 1:
            (k, lst), = forms.items()
            rep.ok(rule, "%s::form" % short, lst[0][1], "one per-element form `%s` used by %s"
                   % (lst[0][3], sorted(set("%s@%s" % (x[0], x[2]) for x in lst))))
        elif len(forms) > 1:
            # majority form is the reference; report the deviants
            ref = max(forms.items(), key=lambda kv: len(kv[1]))
            for k, lst in forms.items():
                if k == ref[0]:
                    continue
                for kind, site, fn, form in lst:
                    rep.violation(rule, "%s::form:%s@%s" % (short, kind, fn), site,
                                  "per-element size form `%s` (%s in %s) differs from `%s` used by %s: the cached size drifts "
                                  "from the bytes the list serialises to" % (form, kind, fn, ref[1][0][3],
                                  sorted(set("%s@%s" % (x[0], x[2]) for x in ref[1]))))
        else:
            rep.analysis_broken("no add/remove size forms found for %s" % rec)


def writer_form(db, rec, cont):
    """Linear form of the bytes written per element by the serialiser: either a
    helper `write_option(const option&, OutputMemoryStream&)`-like method of the
    class, or the body of the loop over the container in write_serialization."""
    # helper taking (element, stream)
    for f in db.functions.values():
        if f.get("rec") != rec or not f.get("body"):
            continue
        ps = f["params"]
        if len(ps) == 2:
            t0, t1 = facts.tyi(f, ps[0]["t"]), facts.tyi(f, ps[1]["t"])
            s1 = (t1 or {}).get("s", "")
            s0 = (t0 or {}).get("s", "")
            if "OutputMemoryStream" in s1 and "PDUOption" in s0:
                form = stream_bytes(db, f, f["body"], ps[1]["var"],
                                    lambda r: strip(r)["k"] == "DeclRefExpr" and strip(r).get("var") == ps[0]["var"])
                if form is not None:
                    return form, facts.loc(f), f["id"].split("(")[0].split("::")[-1]
    # loop in write_serialization over the container
    for f in db.functions.values():
        if f.get("rec") != rec or f["name"] != "write_serialization" or not f.get("body"):
            continue
        svar = None
        for n in facts.fn_nodes(f):
            if n["k"] == "VarDecl" and "OutputMemoryStream" in (facts.tyi(f, n.get("t")) or {}).get("s", ""):
                svar = n["var"]
        for loop in facts.fn_nodes(f):
            if loop["k"] != "ForStmt":
                continue
            itv = None
            for n in facts.walk(loop["c"][0]) if loop["c"][0] else []:
                if n["k"] == "VarDecl":
                    for x in facts.walk(n):
                        if x["k"] == "CXXMemberCallExpr" and x.get("cname") in ("begin", "cbegin"):
                            r = cfg.receiver(x)
                            if r is not None and cachepair.is_field(r, set([rec]), cont):
                                itv = n["var"]
            if itv is None or svar is None:
                continue

            def is_elem(r, itv=itv):
                r = strip(r)
                if r["k"] == "CXXOperatorCallExpr" and r.get("op") in ("->", "*") and len(r["c"]) >= 2:
                    x = strip(r["c"][1])
                    return x["k"] == "DeclRefExpr" and x.get("var") == itv
                return False
            form = stream_bytes(db, f, loop["c"][-1], svar, is_elem)
            if form is not None:
                return form, facts.loc(f, loop), "write_serialization-loop"
    return None


def stream_bytes(db, f, body, svar, is_elem):
    """Sum of the byte counts of the stream writes in `body` (straight-line);
    None when a write's size is outside the language."""
    F = cachepair.Form()
    n_w = 0
    for n in facts.walk(body):
        if n["k"] != "CXXMemberCallExpr":
            continue
        r = cfg.receiver(n)
        if r is None or strip(r)["k"] != "DeclRefExpr" or strip(r).get("var") != svar:
            continue
        cname = n.get("cname")
        a = cfg.args(n)
        if cname in ("write", "write_be", "write_le") and len(a) == 1:
            t = facts.ty(f, strip(a[0]))
            # template write<T>(const T&): size of the argument's (decayed) type
            callee = n.get("callee", "")
            pt = None
            for fn in [db.fn(callee)] if db.fn(callee) else []:
                pt = facts.tyi(fn, fn["params"][0]["t"])
            tt = pt.get("to") if pt and pt.get("k") == "ref" else (pt or t)
            if tt and tt.get("k") in ("int", "bool", "enum") and tt.get("w"):
                F.const += max(1, tt["w"] // 8)
            elif tt and tt.get("k") == "rec" and tt.get("size"):
                F.const += tt["size"]
            else:
                return None
            n_w += 1
        elif cname == "write" and len(a) == 2:
            lf = cachepair.linear_form(f, a[1], is_elem)
            for k_, c_ in lf.atoms.items():
                F.add_atom(k_, c_)
            F.const += lf.const
            n_w += 1
        elif cname in ("fill", "skip") and a:
            lf = cachepair.linear_form(f, a[0], is_elem)
            for k_, c_ in lf.atoms.items():
                F.add_atom(k_, c_)
            F.const += lf.const
            n_w += 1
    if n_w == 0:
        return None
    return F
