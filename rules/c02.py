"""C02 - serialization is total, size-exact, layers never overwrite each other (DESIGN.md C02).

 R1 size-balance for every concrete layer class: the bytes its serialiser hands to the bounded cursor before / after
                 the inner layer, as a symbolic form (E-STREAMFX), never exceed what header_size() / trailer_size() return,
                 in every cell of the finite partition of the conditions both sides test (option kind classes, flags,
                 message types ...).  "More written than counted" = the layer overwrites its neighbour or throws.
 R2 cache-pair   cached option/tag sizes are adjusted wherever the list is mutated, for the same element, with one linear
                 form (add = remove = bytes written per element by the serialiser).
 R3 raw-writes   inside write_serialization the output buffer is touched only through the cursor, through read-only
                 helpers, or at constant offsets already accepted by the cursor on every path (checksum patch-back).
 R4 driver       PDU::serialize sizes the vector from size(), serialises the inner layer at buffer + header_size() with
                 total - (header + trailer), before the layer's own write_serialization; size() sums header + trailer.
 R5 total        the only throw sites reachable on the serialisation path of a class are the cursor's own bound checks,
                 discharged range checks and the tabled, documented ones (PPI, PKTAP, RTP's defensive throw, ...).
"""
from vlib import facts, cfg, cond, cachepair, streamfx as sx, exc
from vlib.facts import strip

PID = "C02"

# (class, container field, counter field): confirmed by reading; a vanished field is exit 2
CACHE_PAIRS = [
    ("Tins::DHCP", "options_", "size_"),
    ("Tins::DHCPv6", "options_", "options_size_"),
    ("Tins::ICMPv6", "options_", "options_size_"),
    ("Tins::Dot11", "options_", "options_size_"),
    ("Tins::PPPoE", "tags_", "tags_size_"),
    ("Tins::LLC", "information_fields_", "information_field_length_"),
]


# counters that may be narrower than 32 bits because the protocol cannot represent more: (class, counter) -> (setter of the
# wire length field the serialiser feeds with the counter, its width, reason)
WIRE_LIMITED = {
    ("Tins::PPPoE", "tags_size_"): ("payload_length", 16, "PPPoE's payload_length is a 16-bit wire field: more than 65535 bytes of tags "
                                                          "cannot be represented, the counter is exactly as wide as the field it fills"),
}


# cached counters and the container whose serialised size they hold (pairing itself is rule R2)
COUNTERS = {
    "Tins::DHCP": {"size_": "options_"},
    "Tins::DHCPv6": {"options_size_": "options_"},
    "Tins::ICMPv6": {"options_size_": "options_"},
    "Tins::Dot11": {"options_size_": "options_"},
    "Tins::PPPoE": {"tags_size_": "tags_"},
    "Tins::LLC": {"information_field_length_": "information_fields_"},
}
# lower bounds of counters (initial value of every constructor; checked below)
COUNTER_BASE = {"Tins::DHCP": {"size_": 4}}
# accessor-maintained counts: header field <-> container length, pairing checked structurally in r1_invariants()
ACCESSOR_COUNTS = {
    "Tins::RTP": [("extension_length()", "ext_data_", "extension_length")],
}
# classes whose size fields are caches related to other state by code the form language cannot follow
R1_UNDECIDED = {
    "Tins::LLC": "control_field_length_ / information_field_length_ are caches maintained by type() and add_xid_information(); "
                 "their relation to type_ and information_fields_ is not ONE form: decided piecewise instead - the information "
                 "fields by the cache-pair rule R2 (LLC pair), the control field per Format enumerator by C03.R8",
}
# serialisers that write their trailer through raw pointers (bounded by trailer_size(), rule R3 lists them)
RAW_TRAILER = {"Tins::ICMP", "Tins::ICMPv6"}
NOT_SERIALIZABLE = {"Tins::PPI", "Tins::PKTAP"}


def final(db, cls, name, sig):
    seen, work = set(), [cls]
    while work:
        rn = work.pop(0)
        if rn in seen:
            continue
        seen.add(rn)
        f = db.functions.get("%s::%s%s" % (rn, name, sig))
        if f is not None and f.get("body"):
            return f
        work.extend((db.records.get(rn) or {}).get("bases", []))
    return None


def concrete_classes(db):
    return sorted(k for k in db.records if k.startswith("Tins::") and "Tins::PDU" in db.all_bases(k)
                  and not db.records[k].get("abstract") and "<" not in k)


def run(db, rep, tier):
    rep.rule("R1-size-balance", "bytes written before/after the inner layer never exceed header_size()/trailer_size(), on every cell "
                                "of the condition partition", 90)
    rep.rule("R2-cache-pair", "every mutation of an option/tag list is paired on all paths with the adjustment of its cached "
                              "size, for the same element, before an erase, with one linear per-element form", 20)
    rep.rule("R3-raw-writes", "the output buffer is written only through the cursor or at offsets the cursor already accepted", 30)
    rep.rule("R4-driver", "PDU::serialize / PDU::size compose the layers' regions without overlap", 4)
    rep.rule("R5-total", "no throw site other than the cursor's bound checks and the tabled ones is reachable while serialising", 50)
    r1(db, rep)
    r2(db, rep, "R2-cache-pair")
    r3(db, rep)
    r4(db, rep)
    r5(db, rep)
    rep.rule("R6-cacher-extent", "the caching wrapper copies exactly the cached serialization: every raw copy into the output buffer takes its "
                                 "byte count from the size() of the container it copies from", 3)
    r6(db, rep)
    rep.rule("R7-use-after-move", "no local or parameter is read after it was handed to std::move (size bookkeeping reads the option it just "
                                  "stored: it must do so before the move)", 5)
    from rules import _moves
    _moves.use_after_move(db, rep, "R7-use-after-move")
    rep.rule("R8-cursor", "(shared with C01.R5) the output cursor's bound checks describe the buffer: position and remaining size move together "
                          "and every write at the cursor is guarded for its length", 60)
    from rules import _cursor
    _cursor.check(db, rep, "R8-cursor", 60)
    rep.explanation = ("E-STREAMFX summarises each serialiser and each size function as a symbolic form (constants, opaque size atoms, "
                       "guarded parts, sums over containers) and compares them on the finite partition of the conditions they test: "
                       "written <= counted for header and trailer of all concrete classes (R1); cached sizes follow their lists (R2); "
                       "raw accesses to the output buffer are confined (R3); the driver composes regions (R4); nothing else throws "
                       "while serialising (R5). NOT decided: histories of the building API beyond what R2 implies; the exact offsets "
                       "of the ICMP/ICMPv6 extension padding (bounded by trailer_size(), listed under R3); equality (written == counted) "
                       "is reported as a note only - fewer bytes written than counted leaves zero bytes, it does not overwrite.")
    rep.assumptions += ["state tested by both a size function and the serialiser is not changed between size() and write_serialization "
                        "(prepare_for_serialize and the serialisers only assign derived fields; C05.R2)",
                        "sizes stay below 2^32 (no wrap of uint32_t accumulators)"]


def r1(db, rep):
    classes = concrete_classes(db)
    if len(classes) < 50:
        rep.analysis_broken("only %d concrete PDU classes found" % len(classes))
    r1_invariants(db, rep)
    stats = {"classes": 0}
    for K in classes:
        short = K.split("::")[-1]
        w = final(db, K, "write_serialization", "(unsigned char *, unsigned int)")
        h = final(db, K, "header_size", "() const")
        t = final(db, K, "trailer_size", "() const")
        if w is None or h is None:
            rep.analysis_broken("%s: write_serialization / header_size not found" % K)
            continue
        site = facts.loc(w)
        if K in R1_UNDECIDED:
            rep.undecided("R1-size-balance", "%s:header" % short, site, R1_UNDECIDED[K])
            continue
        fx = sx.Fx(db, K)
        cnt, lower = {}, {}
        for b in [K] + list(db.all_bases(K)):
            cnt.update(COUNTERS.get(b, {}))
            lower.update(COUNTER_BASE.get(b, {}))
        try:
            H = fx.exec_fn(sx.Ctx(fx, h, cls=K)).get("§ret")
            T = fx.exec_fn(sx.Ctx(fx, t, cls=K)).get("§ret") if t else sx.Form()
            cw = sx.Ctx(fx, w, cls=K)
            env = fx.exec_list(cw, w["body"].get("c", []), {"§ret": None})
        except sx.Opaque as e:
            rep.analysis_broken("%s: serialiser outside the E-STREAMFX language: %s" % (K, e))
            continue
        W, WT = env.get("s:out"), env.get("t:out") or sx.Form()
        stats["classes"] += 1
        if W is None:
            if env.get("§throws") and K in NOT_SERIALIZABLE:
                rep.ok("R1-size-balance", "%s:header" % short, site, "documented as not serialisable: writes nothing (always throws)")
            else:
                rep.violation("R1-size-balance", "%s:header" % short, site, "the serialiser never opens a cursor on its buffer")
            continue
        # accessor-maintained counts
        for b in [K] + list(db.all_bases(K)):
            for atom_txt, cont, _nm in ACCESSOR_COUNTS.get(b, []):
                H = subst_atom(H, atom_txt, cont + ".size()")
        for part, A, B, f_ in (("header", W, H, h), ("trailer", WT, T, t)):
            key = "%s:%s" % (short, part)
            if part == "trailer" and K in RAW_TRAILER:
                continue        # written through raw pointers: R3
            if A is None or B is None:
                rep.analysis_broken("%s: no form for %s" % (K, part))
                continue
            res = sx.compare(fx, A, B, cnt, 0, lower)
            worst = [x for x in res if x[0] == "more"]
            diff = [x for x in res if x[0] == "differ"]
            und = [x for x in res if x[0] == "undecided"]
            less = [x for x in res if x[0] == "less"]
            if worst:
                rep.violation("R1-size-balance", key, site,
                              "%s writes more than %s_size() counts: %s (written `%s`, counted `%s`): the layer overruns its region "
                              "- it overwrites the neighbouring layer or throws serialization_error"
                              % (short, part, worst[0][1][:300], A.canon()[:160], B.canon()[:160]))
            elif diff:
                rep.violation("R1-size-balance", key, site, "%s: written and counted bytes are unrelated forms: %s (written `%s`, counted `%s`)"
                              % (short, diff[0][1][:300], A.canon()[:160], B.canon()[:160]))
            elif und:
                rep.analysis_broken("%s %s: %s" % (K, part, und[0][1]))
            elif less and part == "header" and not WT.is_zero() and K not in RAW_TRAILER:
                rep.violation("R1-size-balance", key, site,
                              "%s writes fewer header bytes than header_size() counts (%s) and then positions its trailer with the same cursor "
                              "(skip of the inner layer): the trailer lands inside the payload" % (short, less[0][1][:240]))
            else:
                note = "" if not less else "; in %d cell(s) fewer bytes are written than counted (zero gap, no overwrite)" % len(less)
                rep.ok("R1-size-balance", key, site, "written `%s` <= counted `%s`%s" % (A.canon()[:120], B.canon()[:120], note))
    rep.extra["r1_classes"] = stats["classes"]
    r1_nested(db, rep)


def r1_nested(db, rep):
    """value types that serialise themselves into a slice of the layer's buffer: what serialize() writes must equal
    what size() announces - the layer skips size() bytes and counts them in header_size()/trailer_size()"""
    import collections
    recs = collections.defaultdict(dict)
    for fid, f in db.functions.items():
        rec = f.get("rec") or ""
        if not rec.startswith("Tins::") or not f.get("body") or rec == "Tins::PDU" or "Tins::PDU" in db.all_bases(rec):
            continue
        nm = f["qual"].split("::")[-1]
        if nm == "size" and len(f["params"]) == 0:
            recs[rec]["size"] = f
        if nm == "serialize" and len(f["params"]) == 2:
            recs[rec]["ser"] = f
    n = 0
    for rec, d in sorted(recs.items()):
        if "size" not in d or "ser" not in d:
            continue
        n += 1
        key = "%s:serialize-vs-size" % rec.replace("Tins::", "")
        fx = sx.Fx(db, None)
        try:
            S = fx.exec_fn(sx.Ctx(fx, d["size"], cls=None)).get("§ret")
            cw = sx.Ctx(fx, d["ser"], cls=None)
            env = fx.exec_list(cw, d["ser"]["body"].get("c", []), {"§ret": None})
        except sx.Opaque as e:
            rep.undecided("R1-size-balance", key, facts.loc(d["ser"]), "outside the E-STREAMFX language: %s" % e)
            continue
        W = env.get("s:out")
        if W is None or S is None:
            rep.undecided("R1-size-balance", key, facts.loc(d["ser"]), "no cursor / no size form")
            continue
        res = sx.compare(fx, W, S)
        bad = [x for x in res if x[0] in ("more", "differ")]
        und = [x for x in res if x[0] == "undecided"]
        if bad:
            rep.violation("R1-size-balance", key, facts.loc(d["ser"]),
                          "%s::serialize writes `%s` but size() announces `%s` (%s): the enclosing layer reserves and skips size() bytes, "
                          "so the record overruns into what follows" % (rec.split("::")[-1], W.canon()[:120], S.canon()[:120], bad[0][1][:160]))
        elif und:
            rep.undecided("R1-size-balance", key, facts.loc(d["ser"]), und[0][1])
        else:
            rep.ok("R1-size-balance", key, facts.loc(d["ser"]), "serialize writes `%s` <= size() `%s`" % (W.canon()[:100], S.canon()[:100]))
    if n < 3:
        rep.analysis_broken("only %d self-serialising value types found (3 expected)" % n)


def subst_atom(form, a, b):
    f = sx.Form(form.k, None, [(c, subst_atom(x, a, b)) for c, x in form.whens], [(co, ct, x) for co, ct, x in form.sums])
    for t, c in form.atoms.items():
        t2 = b if t == a else t
        f.atoms[t2] = f.atoms.get(t2, 0) + c
    return f


def r1_invariants(db, rep):
    """premises used by R1: constructor base of counters, accessor-maintained counts"""
    for cls, d in COUNTER_BASE.items():
        for fld, base in d.items():
            ctors = [f for f in db.functions.values() if f.get("rec") == cls and f.get("kind") == "ctor" and not f.get("implicit")]
            bad = None
            n = 0
            for f in ctors:
                for ini in f.get("inits", []):
                    if ini.get("member") == fld and ini.get("e") is not None:
                        n += 1
                        v = facts.cval(ini["e"])
                        if v is None or v < base:
                            bad = facts.loc(f)
            key = "%s::%s>=%d" % (cls.split("::")[-1], fld, base)
            if bad or n == 0:
                rep.violation("R1-size-balance", key, bad or cls, "a constructor does not start %s at %d: the `if (%s)` arm of the serialiser is not dead" % (fld, base, fld))
            else:
                rep.ok("R1-size-balance", key, facts.loc(ctors[0]), "%d constructor(s) initialise %s to >= %d; later changes are paired with the list (R2)" % (n, fld, base))
    for cls, lst in ACCESSOR_COUNTS.items():
        for atom_txt, cont, setter in lst:
            key = "%s::%s~%s" % (cls.split("::")[-1], setter, cont)
            bad = None
            wrap_bad = None
            n = 0
            for f in db.functions.values():
                if f.get("rec") != cls or not f.get("body"):
                    continue
                muts = [x for x in facts.fn_nodes(f) if x["k"] == "CXXMemberCallExpr" and x.get("cname") in ("push_back", "erase", "clear", "insert", "emplace_back", "pop_back", "resize", "assign")
                        and cont in facts.expr_str(x["c"][0])]
                if not muts:
                    continue
                if f.get("kind") == "ctor":
                    continue        # the parsing constructor fills the list from the count it read
                for mu in muts:
                    n += 1
                    want = {"push_back": "+", "emplace_back": "+", "insert": "+", "erase": "-", "pop_back": "-"}.get(mu.get("cname"))
                    sets = [x for x in facts.fn_nodes(f) if x["k"] == "CXXMemberCallExpr" and x.get("cname") == setter and len(x["c"]) == 2]
                    okp = False
                    for st in sets:
                        a = facts.strip_all(facts.inline_locals(f, st["c"][1]))     # `const uint16_t remaining = n() - 1; n(remaining);`
                        if a["k"] == "BinaryOperator" and a.get("op") == want and facts.cval(a["c"][1]) == 1 and setter + "()" in facts.expr_str(a["c"][0]):
                            okp = True
                    if not okp:
                        bad = (facts.loc(f, mu), mu.get("cname"))
                    elif want == "+":
                        # the count lives in a k-bit header field: the increment must be dominated by count < 2^k - 1
                        sfn = [g_ for g_ in db.fns_named(cls + "::" + setter) if g_.get("body") and len(g_["params"]) == 1]
                        w_ = (facts.tyi(sfn[0], sfn[0]["params"][0].get("t")) or {}).get("w") if sfn else None
                        gg = cfg.FnCFG(f)
                        okw = False
                        for st in sets:
                            for op, l, r in cond.guards_facts(gg, gg.pos(st)):
                                if r is None:
                                    continue
                                lt, rv = facts.expr_str(l), facts.cval(r)
                                if setter + "()" in lt and w_ and rv is not None and \
                                        ((op == "<" and rv <= (1 << w_) - 1) or (op == "<=" and rv <= (1 << w_) - 2)):
                                    okw = True
                        if w_ and not okw:
                            wrap_bad = (facts.loc(f, mu), w_)
            if bad:
                rep.violation("R1-size-balance", key, bad[0], "%s.%s is not accompanied by %s(%s() %s 1): header_size() counts %s entries, the serialiser writes %s.size()"
                              % (cont, bad[1], setter, setter, "+" if bad[1] in ("push_back", "insert") else "-", setter, cont))
            elif wrap_bad:
                rep.violation("R1-size-balance", key, wrap_bad[0],
                              "%s() + 1 is stored in a %d-bit field without a dominating test that it is below %d: one more element than "
                              "the field can count makes it wrap to 0 while the serialiser still writes every element of %s"
                              % (setter, wrap_bad[1], (1 << wrap_bad[1]) - 1, cont))
            elif n == 0:
                rep.analysis_broken("no mutation of %s::%s found" % (cls, cont))
            else:
                rep.ok("R1-size-balance", key, cls, "%d mutation(s) of %s each adjust %s by one" % (n, cont, setter))


def narrowed(f, e, need, depth=0):
    """(bits, how) when the arithmetic value e passes through an explicit cast or a local variable narrower than `need`
    bits on its way; None otherwise.  Plain operands (a uint8_t length read from an element, a constant) are not
    narrowings: only a COMPUTED value (a sum / product) squeezed into fewer bits loses information."""
    e0 = e
    while e0["k"] in ("ImplicitCastExpr", "ParenExpr", "ExprWithCleanups", "MaterializeTemporaryExpr") and e0.get("c"):
        e0 = e0["c"][0]

    def computed(x):
        return any(y["k"] == "BinaryOperator" and y.get("op") in ("+", "-", "*", "<<") for y in facts.walk(x))
    if e0["k"] in ("CStyleCastExpr", "CXXStaticCastExpr", "CXXFunctionalCastExpr") and e0.get("c"):
        t = facts.ty(f, e0) or {}
        if t.get("k") == "int" and (t.get("w") or 64) < need and computed(e0["c"][0]):
            return (t["w"], "cast to %s at line %s" % (t.get("s"), e0.get("l")))
        return narrowed(f, e0["c"][0], need, depth)
    if e0["k"] == "BinaryOperator" and e0.get("op") in ("+", "-", "*"):
        return narrowed(f, e0["c"][0], need, depth) or narrowed(f, e0["c"][1], need, depth)
    if e0["k"] == "DeclRefExpr" and e0.get("var") and not e0.get("parm") and depth < 3:
        sa = facts.single_assign(f)
        if e0["var"] in sa:
            t = facts.ty(f, e0) or {}
            if t.get("k") == "int" and (t.get("w") or 64) < need and computed(sa[e0["var"]]):
                return (t["w"], "kept in the %s local `%s`" % (t.get("s"), e0.get("name")))
            return narrowed(f, sa[e0["var"]], need, depth + 1)
    return None


def r2(db, rep, rule):
    for rec, cont, cnt in CACHE_PAIRS:
        r = db.records.get(rec)
        if not r or not any(f["name"] == cont for f in r["fields"]) or not any(f["name"] == cnt for f in r["fields"]):
            rep.analysis_broken("cache pair %s::%s/%s vanished" % (rec, cont, cnt))
            continue
        cp = cachepair.ClassPair(db, rec, cont, cnt).analyse()
        short = rec.split("::")[-1]
        # the counter can count what the container can hold: as wide as the uint32_t header_size() it feeds.  A narrower
        # counter wraps once enough elements were added through the public API, header_size() then announces fewer bytes
        # than the serialiser writes and serialize() throws.
        cf = [f_ for f_ in r["fields"] if f_["name"] == cnt][0]
        ct = facts.tyi(r, cf.get("t")) or {}
        wbits = cf.get("bitw") or ct.get("w") or 0
        site_c = "%s:%s" % (r.get("file"), cf.get("line") or r.get("line"))
        need = 32
        lim = WIRE_LIMITED.get((rec, cnt))
        if lim is not None:
            # protocol limit: the counter is what the serialiser stores in a wire length field of that width (confirmed here:
            # a setter of that name exists, takes that many bits, and write_serialization hands it the counter)
            setter, bits_, why_ = lim
            ok_lim = False
            for g_ in db.functions.values():
                if g_.get("rec") == rec and g_["qual"].endswith("::write_serialization") and g_.get("body"):
                    for x_ in facts.fn_nodes(g_):
                        if x_["k"] == "CXXMemberCallExpr" and x_.get("cname") == setter and len(x_["c"]) == 2 and \
                                facts.strip_all(x_["c"][1]).get("member") == cnt:
                            h_ = db.fn(x_.get("callee"))
                            pt_ = facts.tyi(h_, h_["params"][0]["t"]) if h_ and h_.get("params") else {}
                            ok_lim = (pt_ or {}).get("w") == bits_
            if ok_lim:
                need = bits_
            else:
                rep.analysis_broken("%s::%s: the wire length field `%s` (%d bits) that justified a narrow counter was not found" % (short, cnt, setter, bits_))
        if ct.get("k") not in ("int",) or wbits < need:
            rep.violation(rule, "%s::%s:counter-width" % (short, cnt), site_c,
                          "the cached size `%s` is a %d-bit field but counts the serialised bytes of `%s`, which the public API lets grow without "
                          "limit: beyond %d bytes it wraps, header_size() under-reports and serialize() throws serialization_error"
                          % (cnt, wbits, cont, (1 << wbits) - 1 if wbits else 0))
        else:
            rep.ok(rule, "%s::%s:counter-width" % (short, cnt), site_c, "%d-bit counter (%s)" % (wbits, "header_size() returns 32 bits" if need == 32 else lim[2]))
        # ... and what is added to / subtracted from it is not cut down on the way: a per-element size computed in (or cast
        # to, or kept in a local of) fewer bits than the counter needs wraps for one big element although the counter is wide
        # enough - the same under-report
        nadj = 0
        for g_ in sorted(db.functions.values(), key=lambda x_: x_["id"]):
            if g_.get("rec") != rec or not g_.get("body"):
                continue
            for x_ in facts.fn_nodes(g_):
                if x_["k"] != "CompoundAssignOperator" or x_.get("op") not in ("+=", "-=") or \
                        facts.strip_all(x_["c"][0]).get("member") != cnt:
                    continue
                nadj += 1
                nw = narrowed(g_, x_["c"][1], need)
                key_ = "%s::%s:adjust-width#%d" % (short, g_["qual"].split("::")[-1], nadj)
                if nw:
                    rep.violation(rule, key_, facts.loc(g_, x_),
                                  "`%s %s ...`: the size of the element is truncated to %d bits (%s) before it adjusts the %d-bit counter: for an "
                                  "element of %d bytes or more the counter moves by the wrong amount, header_size() under-reports and the "
                                  "serialiser writes past what was announced" % (cnt, x_["op"], nw[0], nw[1], wbits, 1 << nw[0]))
                else:
                    rep.ok(rule, key_, facts.loc(g_, x_), "adjusted by a value computed in at least %d bits" % need)
        for verdict, key, site, text in cp.results:
            k = "%s::%s" % (short, key)
            getattr(rep, verdict)(rule, k, site, text)
        # per-element writer form
        wf = writer_form(db, rec, cont)
        forms = cp.form_agreement()
        if wf is not None:
            forms.setdefault(wf[0].key(), []).append(("write", wf[1], wf[2], wf[0]))
        if len(forms) == 1:
            (k, lst), = forms.items()
            rep.ok(rule, "%s::form" % short, lst[0][1], "one per-element form `%s` used by %s"
                   % (lst[0][3], sorted(set("%s@%s" % (x[0], x[2]) for x in lst))))
        elif len(forms) > 1:
            # majority form is the reference; report the deviants
            ref = max(forms.items(), key=lambda kv: len(kv[1]))
            for k, lst in forms.items():
                if k == ref[0]:
                    continue
                for kind, site, fn, form in lst:
                    rep.violation(rule, "%s::form:%s@%s" % (short, kind, fn), site,
                                  "per-element size form `%s` (%s in %s) differs from `%s` used by %s: the cached size drifts "
                                  "from the bytes the list serialises to" % (form, kind, fn, ref[1][0][3],
                                  sorted(set("%s@%s" % (x[0], x[2]) for x in ref[1]))))
        else:
            rep.analysis_broken("no add/remove size forms found for %s" % rec)


def writer_form(db, rec, cont):
    """Linear form of the bytes written per element by the serialiser: either a
    helper `write_option(const option&, OutputMemoryStream&)`-like method of the
    class, or the body of the loop over the container in write_serialization."""
    # helper taking (element, stream)
    for f in db.functions.values():
        if f.get("rec") != rec or not f.get("body"):
            continue
        ps = f["params"]
        if len(ps) == 2:
            t0, t1 = facts.tyi(f, ps[0]["t"]), facts.tyi(f, ps[1]["t"])
            s1 = (t1 or {}).get("s", "")
            s0 = (t0 or {}).get("s", "")
            if "OutputMemoryStream" in s1 and "PDUOption" in s0:
                form = stream_bytes(db, f, f["body"], ps[1]["var"],
                                    lambda r: strip(r)["k"] == "DeclRefExpr" and strip(r).get("var") == ps[0]["var"])
                if form is not None:
                    return form, facts.loc(f), f["id"].split("(")[0].split("::")[-1]
    # loop in write_serialization over the container
    for f in db.functions.values():
        if f.get("rec") != rec or f["name"] != "write_serialization" or not f.get("body"):
            continue
        svar = None
        for n in facts.fn_nodes(f):
            if n["k"] == "VarDecl" and "OutputMemoryStream" in (facts.tyi(f, n.get("t")) or {}).get("s", ""):
                svar = n["var"]
        for loop in facts.fn_nodes(f):
            if loop["k"] != "ForStmt":
                continue
            itv = None
            for n in facts.walk(loop["c"][0]) if loop["c"][0] else []:
                if n["k"] == "VarDecl":
                    for x in facts.walk(n):
                        if x["k"] == "CXXMemberCallExpr" and x.get("cname") in ("begin", "cbegin"):
                            r = cfg.receiver(x)
                            if r is not None and cachepair.is_field(r, set([rec]), cont):
                                itv = n["var"]
            if itv is None or svar is None:
                continue

            def is_elem(r, itv=itv):
                r = strip(r)
                if r["k"] == "CXXOperatorCallExpr" and r.get("op") in ("->", "*") and len(r["c"]) >= 2:
                    x = strip(r["c"][1])
                    return x["k"] == "DeclRefExpr" and x.get("var") == itv
                return False
            form = stream_bytes(db, f, loop["c"][-1], svar, is_elem)
            if form is not None:
                return form, facts.loc(f, loop), "write_serialization-loop"
    return None


def _iter_call(e):
    """the begin()/end() member call behind the iterator temporaries clang wraps it in"""
    e = facts.strip_all(e)
    while e["k"] in ("CXXConstructExpr", "MaterializeTemporaryExpr", "CXXBindTemporaryExpr", "ImplicitCastExpr") and len(e.get("c", [])) == 1:
        e = facts.strip_all(e["c"][0])
    return e if e["k"] == "CXXMemberCallExpr" else None


def stream_bytes(db, f, body, svar, is_elem):
    """Sum of the byte counts of the stream writes in `body` (straight-line);
    None when a write's size is outside the language."""
    F = cachepair.Form()
    n_w = 0
    for n in facts.walk(body):
        if n["k"] != "CXXMemberCallExpr":
            continue
        r = cfg.receiver(n)
        if r is None or strip(r)["k"] != "DeclRefExpr" or strip(r).get("var") != svar:
            continue
        cname = n.get("cname")
        a = cfg.args(n)
        if cname in ("write", "write_be", "write_le") and len(a) == 1:
            t = facts.ty(f, strip(a[0]))
            # template write<T>(const T&): size of the argument's (decayed) type
            callee = n.get("callee", "")
            pt = None
            for fn in [db.fn(callee)] if db.fn(callee) else []:
                pt = facts.tyi(fn, fn["params"][0]["t"])
            tt = pt.get("to") if pt and pt.get("k") == "ref" else (pt or t)
            if tt and tt.get("k") in ("int", "bool", "enum") and tt.get("w"):
                F.const += max(1, tt["w"] // 8)
            elif tt and tt.get("k") == "rec" and tt.get("size"):
                F.const += tt["size"]
            else:
                return None
            n_w += 1
        elif cname == "write" and len(a) == 2 and \
                _iter_call(a[0]) is not None and _iter_call(a[0]).get("cname") in ("begin", "cbegin") and \
                _iter_call(a[1]) is not None and _iter_call(a[1]).get("cname") in ("end", "cend") and \
                facts.expr_str(cfg.receiver(_iter_call(a[0]))) == facts.expr_str(cfg.receiver(_iter_call(a[1]))):
            # write(X.begin(), X.end()) of a byte container X: X.size() bytes
            rx = cfg.receiver(_iter_call(a[0]))
            if rx is not None and is_elem(rx):
                F.add_atom("size(elem)", 1)
            else:
                F.add_atom("expr:" + facts.expr_str(rx) + ".size()", 1)
            n_w += 1
        elif cname == "write" and len(a) == 2:
            lf = cachepair.linear_form(f, a[1], is_elem)
            for k_, c_ in lf.atoms.items():
                F.add_atom(k_, c_)
            F.const += lf.const
            n_w += 1
        elif cname in ("fill", "skip") and a:
            lf = cachepair.linear_form(f, a[0], is_elem)
            for k_, c_ in lf.atoms.items():
                F.add_atom(k_, c_)
            F.const += lf.const
            n_w += 1
    if n_w == 0:
        return None
    return F


# ---------------------------------------------------------------------------
# R3: raw accesses to the output buffer
# ---------------------------------------------------------------------------
RAW_TABLE = {
    # function qual -> reason: pointer arithmetic whose offsets are values of trailer_size()'s own terms
    "Tins::ICMP::write_serialization": "extension block and its padding are placed at buffer + header + max(padded inner size, 128): offsets are "
                                       "bounded by trailer_size() (same terms) but not a constant; not proven exact",
    "Tins::ICMPv6::write_serialization": "same extension placement as ICMP (RFC 4884)",
}


def parents_of(f):
    par = {}
    for n in facts.fn_nodes(f):
        for c in n.get("c", []) or []:
            if isinstance(c, dict):
                par[c["id"]] = n
    return par


def r3(db, rep):
    n_fn = 0
    for fid, f in sorted(db.functions.items()):
        if not f["qual"].endswith("::write_serialization") or not f.get("body") or len(f["params"]) < 2:
            continue
        n_fn += 1
        short = f["qual"].replace("Tins::", "")
        pb = f["params"][0]["var"]
        g = cfg.FnCFG(f)
        par = parents_of(f)
        tainted = {pb: "buffer"}
        changed = True
        while changed:
            changed = False
            for n in facts.fn_nodes(f):
                if n["k"] == "VarDecl" and n.get("c") and n["var"] not in tainted:
                    t = facts.tyi(f, n.get("t")) or {}
                    if t.get("k") == "ptr" and any(x["k"] == "DeclRefExpr" and x.get("var") in tainted for x in facts.walk(n["c"][0])):
                        # pointer derived from the buffer (not a const-pointer view)
                        to = t.get("to") or {}
                        if not to.get("const"):
                            tainted[n["var"]] = n.get("name")
                            changed = True
        # bytes accepted by the cursor: constant-size writes on a stream built from (buffer, total_sz)
        writes = []
        for n in facts.fn_nodes(f):
            if n["k"] == "CXXMemberCallExpr" and n.get("cname") in ("write", "write_be", "write_le") and len(n["c"]) == 2 \
                    and (n.get("crec") == "Tins::Memory::OutputMemoryStream"):
                fs = db.functions.get(n.get("callee"))
                t = None
                if fs is not None and fs["params"]:
                    t = facts.tyi(fs, fs["params"][0].get("t"))
                    while t and t.get("k") == "ref":
                        t = t.get("to")
                sz = sx.type_size(db, t)
                if sz:
                    writes.append((n, sz))

        def accepted_before(site):
            tot = 0
            for wn, sz in writes:
                try:
                    if g.before_on_all_paths(g.pos(wn), g.pos(site)):
                        tot += sz
                except Exception:
                    pass
            return tot
        uses = [n for n in facts.fn_nodes(f) if n["k"] == "DeclRefExpr" and n.get("var") in tainted]
        idx = 0
        aliases_non_buffer = [v for v in tainted if v != pb]
        for u in uses:
            # climb to the construct that consumes the pointer
            p = par.get(u["id"])
            chain = [u]
            while p is not None and p["k"] in ("ImplicitCastExpr", "ParenExpr", "CStyleCastExpr", "CXXReinterpretCastExpr", "CXXStaticCastExpr",
                                               "BinaryOperator") and not (p["k"] == "BinaryOperator" and p.get("op") in ("=", "+=", "-=", "==", "!=", "<", ">", "<=", ">=")):
                if p["k"] == "BinaryOperator" and p.get("op") == "-":
                    # pointer difference: no access
                    t = facts.ty(f, p) or {}
                    if t.get("k") == "int":
                        break
                chain.append(p)
                p = par.get(p["id"])
            idx += 1
            key = "%s:%s#%d" % (short, tainted[u["var"]], idx)
            site = facts.loc(f, u)
            verdict = None
            if p is None:
                verdict = ("ok", "unused")
            elif p["k"] == "BinaryOperator" and p.get("op") == "-" and (facts.ty(f, p) or {}).get("k") == "int":
                verdict = ("ok", "pointer difference")
            elif p["k"] == "BinaryOperator" and p.get("op") in ("==", "!=", "<", ">", "<=", ">="):
                verdict = ("ok", "pointer comparison")
            elif p["k"] in ("CXXConstructExpr", "CXXTemporaryObjectExpr") and p.get("crec") == "Tins::Memory::OutputMemoryStream":
                verdict = ("ok", "handed to the bounded cursor")
            elif p["k"] == "VarDecl":
                verdict = ("ok", "alias `%s` (its uses are checked)" % p.get("name"))
            elif p["k"] in ("CallExpr", "CXXMemberCallExpr"):
                cn = p.get("cname")
                args = p["c"][1:]
                ai = None
                for i, a in enumerate(args):
                    if any(x is chain[-1] for x in facts.walk(a)) or a is chain[-1]:
                        ai = i
                fs = db.functions.get(p.get("callee"))
                pt = None
                if fs is not None and ai is not None and ai < len(fs["params"]):
                    pt = facts.tyi(fs, fs["params"][ai].get("t"))
                if cn == "write_serialization" and fs is not None:
                    verdict = ("ok", "continued by the base class serialiser on the same buffer")
                elif pt is not None and pt.get("k") == "ptr" and (pt.get("to") or {}).get("const"):
                    verdict = ("ok", "read-only argument of %s" % cn)
                elif cn in ("memcpy", "memmove", "memset") and ai == 0:
                    # destination: constant offset and length?
                    off = const_offset(f, args[0], tainted, pb)
                    ln = facts.cval(args[2])
                    if off is not None and ln is not None:
                        acc = accepted_before(p)
                        if off + ln <= acc:
                            verdict = ("ok", "%s of %d byte(s) at offset %d, inside the %d byte(s) the cursor accepted before on every path" % (cn, ln, off, acc))
                        else:
                            verdict = ("violation", "%s of %d byte(s) at buffer + %d, but only %d byte(s) are known to fit (accepted by the cursor) at this point" % (cn, ln, off, acc))
                    elif f["qual"] in RAW_TABLE:
                        verdict = ("undecided", RAW_TABLE[f["qual"]])
                    else:
                        verdict = ("violation", "%s through the raw buffer pointer with a non-constant offset or length" % cn)
                elif cn in ("memcpy", "memmove") and ai == 1:
                    verdict = ("ok", "read-only source of %s" % cn)
                elif f["qual"] in RAW_TABLE:
                    verdict = ("undecided", RAW_TABLE[f["qual"]])
                else:
                    verdict = ("violation", "the raw buffer pointer is passed to %s, which may write through it" % cn)
            elif p["k"] == "MemberExpr" and p.get("isfield"):
                # ((hdr*)buffer)->field : store or load?
                pp = par.get(p["id"])
                fld = None
                r = db.records.get(p.get("mrec"))
                for fl in (r or {}).get("fields", []):
                    if fl["name"] == p.get("member"):
                        fld = fl
                is_store = pp is not None and pp["k"] in ("BinaryOperator", "CompoundAssignOperator") and pp.get("op", "").endswith("=") and \
                    pp.get("op") not in ("==", "!=", "<=", ">=") and pp["c"][0] is p
                if not is_store:
                    verdict = ("ok", "read of %s through the buffer" % p.get("member"))
                elif fld is not None and u["var"] == pb and const_offset(f, chain[-1], tainted, pb) == 0:
                    end = (fld["off"] + fld["bits"] + 7) // 8
                    acc = accepted_before(pp)
                    if end <= acc:
                        verdict = ("ok", "store to %s (bytes %d..%d) of the header already accepted by the cursor (%d bytes)" % (p.get("member"), fld["off"] // 8, end - 1, acc))
                    else:
                        verdict = ("violation", "store to %s at bytes %d..%d, but only %d byte(s) are known to fit at this point" % (p.get("member"), fld["off"] // 8, end - 1, acc))
                elif f["qual"] in RAW_TABLE:
                    verdict = ("undecided", RAW_TABLE[f["qual"]])
                else:
                    verdict = ("violation", "store through a casted buffer pointer at a non-constant offset")
            elif p["k"] in ("BinaryOperator", "CompoundAssignOperator") and p.get("op") in ("=", "+=", "-="):
                lhs = strip(p["c"][0])
                if lhs["k"] == "DeclRefExpr" and lhs.get("var") in tainted and lhs.get("var") != pb:
                    verdict = ("ok", "re-positions the alias `%s` (its uses are checked)" % tainted[lhs["var"]])
                elif lhs["k"] == "UnaryOperator" and lhs.get("op") == "*":
                    verdict = ("violation", "direct store through the raw buffer pointer") if f["qual"] not in RAW_TABLE else ("undecided", RAW_TABLE[f["qual"]])
                else:
                    verdict = ("ok", "value use")
            elif p["k"] == "UnaryOperator" and p.get("op") == "*":
                pp = par.get(p["id"])
                is_store = pp is not None and pp["k"] in ("BinaryOperator", "CompoundAssignOperator") and pp.get("op", "").endswith("=") and pp["c"][0] is p and pp.get("op") not in ("==", "!=", "<=", ">=")
                verdict = ("violation", "direct store through the raw buffer pointer") if is_store else ("ok", "read through the buffer")
            elif p["k"] == "ArraySubscriptExpr":
                pp = par.get(p["id"])
                is_store = pp is not None and pp["k"] in ("BinaryOperator", "CompoundAssignOperator") and pp.get("op", "").endswith("=") and pp["c"][0] is p and pp.get("op") not in ("==", "!=", "<=", ">=")
                if is_store:
                    i = facts.cval(p["c"][1])
                    acc = accepted_before(pp)
                    if i is not None and u["var"] == pb and i < acc:
                        verdict = ("ok", "store to buffer[%d], inside the %d accepted bytes" % (i, acc))
                    else:
                        verdict = ("violation", "store to buffer[...] outside what the cursor accepted")
                else:
                    verdict = ("ok", "read through the buffer")
            else:
                verdict = ("ok", "value use in %s" % p["k"])
            v, msg = verdict
            if v == "ok":
                rep.ok("R3-raw-writes", key, site, msg)
            elif v == "undecided":
                rep.undecided("R3-raw-writes", key, site, msg)
            else:
                rep.violation("R3-raw-writes", key, site, msg)
    if n_fn < 28:
        rep.analysis_broken("only %d write_serialization bodies found" % n_fn)
    r3_regions(db, rep)


def r3_regions(db, rep):
    """raw writes at symbolic offsets (ICMP / ICMPv6 extension block and its padding): with E-STREAMFX every destination
    and length is a form over the same terms as header_size()/trailer_size(); on every cell of the condition partition in
    which the write executes it must lie in the layer's trailer region [H + inner, H + inner + T)"""
    for K in sorted(RAW_TRAILER):
        w = final(db, K, "write_serialization", "(unsigned char *, unsigned int)")
        h = final(db, K, "header_size", "() const")
        t = final(db, K, "trailer_size", "() const")
        short = K.split("::")[-1]
        if w is None or h is None or t is None:
            rep.analysis_broken("%s: serialiser / size functions not found" % K)
            continue
        fx = sx.Fx(db, K)
        cnt = {}
        for b in [K] + list(db.all_bases(K)):
            cnt.update(COUNTERS.get(b, {}))
        try:
            H = fx.exec_fn(sx.Ctx(fx, h, cls=K)).get("§ret")
            T = fx.exec_fn(sx.Ctx(fx, t, cls=K)).get("§ret")
            cw = sx.Ctx(fx, w, cls=K)
            fx.exec_list(cw, w["body"].get("c", []), {"§ret": None})
        except sx.Opaque as e:
            rep.analysis_broken("%s: %s" % (K, e))
            continue
        raws = [r for r in fx.rawlog if r[1] is not None and not (r[1].is_const() and r[2] is not None and r[2].is_const())]
        if not raws:
            rep.analysis_broken("%s: no symbolic raw write found (extension placement expected)" % K)
            continue
        for i, (cn, dest, ln, guards, node, ctx) in enumerate(raws):
            key = "%s:region:%s#%d" % (short, cn, i + 1)
            cells = sx.Cells(fx)
            try:
                d2, h2 = cancel_counters(dest, H, cnt)
                rel = d2 - h2                       # offset of the write from the end of this layer's header
                forms = [rel, T] + ([ln] if ln is not None else [])
                for fm in forms:
                    cells.collect(fm)
                for c, _ in guards:
                    cells.collect_cond(c)
                cells.terms.setdefault("inner_pdu_.size()", set()).update([0, 1, 2, 3, 4, 5, 126, 127, 128, 129, 130, 131, 132])
                for fm in forms:
                    for a in sx.all_atoms(fm):
                        if a.endswith(".size()") and a != "inner_pdu_.size()":
                            cells.terms[a] = set([0, 8, 12])
                bad = None
                n_ok = 0
                for cell in cells.assignments(400000):
                    if not consistent(cell):
                        continue
                    if not all(bool(sx.eval_cond(fx, c, cell)) == pol for c, pol in guards):
                        continue
                    inner = cell.get("inner_pdu_.size()", 0) if cell.get("inner_pdu_", 1) else 0
                    tv = sx.flat_value(fx, T, cell)
                    dv = sx.flat_value(fx, rel, cell)
                    if tv is None or dv is None:
                        continue
                    lo, hi = inner, inner + tv
                    cellc = dict(cell)
                    lv = None
                    if ln is not None:
                        # total_sz >= header + payload + trailer: take the tightest buffer
                        lnf = ln
                        if "total_sz" in sx.all_atoms(ln):
                            lnf = c02_subst_total(ln, H)
                            cellc["§rest"] = hi
                        lv = sx.flat_value(fx, lnf, cellc)
                    else:
                        lv = 0
                    if lv is None:
                        continue
                    n_ok += 1
                    if lv > 0 and (dv < lo or dv + lv > hi):
                        what = "into the inner layer's bytes" if 0 <= dv < lo else ("into its own header" if dv < 0 else "past its trailer")
                        bad = "%s of %d byte(s) at header end + %d, but behind this layer's header the payload occupies [0, %d) and its trailer [%d, %d): it writes %s [when %s]" % (
                            cn, lv, dv, lo, lo, hi, what, ", ".join("%s=%s" % kv for kv in sorted(cell.items())))
                        break
            except (sx.Opaque, ieval_unknown()) as e:
                rep.undecided("R3-raw-writes", key, facts.loc(w, node), "outside the evaluator: %s" % e)
                continue
            if bad:
                rep.violation("R3-raw-writes", key, facts.loc(w, node), bad)
            elif n_ok == 0:
                rep.undecided("R3-raw-writes", key, facts.loc(w, node), "no cell of the partition could be evaluated numerically")
            else:
                rep.ok("R3-raw-writes", key, facts.loc(w, node), "inside [header + payload, header + payload + trailer) on all %d evaluated cells" % n_ok)


def cancel_counters(A, B, cnt):
    """A holds SUM(container, ...) where B holds the container's cached counter (equal by the cache-pair rule): drop both"""
    a = sx.Form(A.k, dict(A.atoms), list(A.whens), list(A.sums))
    b = sx.Form(B.k, dict(B.atoms), list(B.whens), list(B.sums))
    for cn, cont in (cnt or {}).items():
        if b.atoms.get(cn) == 1 and sum(co for co, ct, f in a.sums if ct == cont) == 1:
            del b.atoms[cn]
            a.sums = [x for x in a.sums if x[1] != cont]
    return a, b


def c02_subst_total(form, H):
    """total_sz := header + (payload + trailer), the latter supplied per cell as the atom §rest"""
    f = subst_atom(form, "total_sz", "§rest")
    co = form.atoms.get("total_sz", 0)
    return f + H.scale(co)


def consistent(cell):
    """relations between the terms of the ICMP/ICMPv6 size functions that hold by definition of the accessors"""
    import re
    sz = cell.get("inner_pdu_.size()")
    if "has_extensions()" in cell and "extensions_.size()" in cell:
        # has_extensions() <=> the structure holds at least one extension (4 bytes of header + >= 4 bytes of object)
        if bool(cell["has_extensions()"]) != (cell["extensions_.size()"] >= 8):
            return False
    for t, v in cell.items():
        mm = re.match(r"^\(inner_pdu_size % (\d+)\)$", t)
        if mm and sz is not None and cell.get("inner_pdu_", 1):
            if v != sz % int(mm.group(1)):
                return False
    return True


def ieval_unknown():
    from vlib import ieval
    return ieval.Unknown


def const_offset(f, e, tainted, pb, depth=0):
    """constant byte offset of a pointer expression from the buffer parameter, or None"""
    e = strip(e)
    while e["k"] in ("ImplicitCastExpr", "ParenExpr", "CStyleCastExpr", "CXXReinterpretCastExpr", "CXXStaticCastExpr") and e.get("c"):
        e = strip(e["c"][0])
    if e["k"] == "DeclRefExpr":
        if e.get("var") == pb:
            return 0
        sa = facts.single_assign(f)
        if e.get("var") in sa and not e.get("parm") and depth < 4:
            return const_offset(f, sa[e["var"]], tainted, pb, depth + 1)     # `uint8_t* const p = buffer + K;`
        return None
    if e["k"] == "BinaryOperator" and e.get("op") == "+":
        a = const_offset(f, e["c"][0], tainted, pb, depth)
        b = facts.cval(e["c"][1])
        if a is not None and b is not None:
            t = facts.ty(f, e["c"][0]) or {}
            es = sx.type_size(None, t.get("to")) if t.get("k") == "ptr" and (t.get("to") or {}).get("k") in ("int",) else 1
            return a + b * (es or 1)
    return None


# ---------------------------------------------------------------------------
# R4: the driver
# ---------------------------------------------------------------------------
def r4(db, rep):
    fs = [f for f in db.fns_named("Tins::PDU::serialize") if len(f["params"]) == 2]
    if not fs:
        rep.analysis_broken("PDU::serialize(uint8_t*, uint32_t) vanished")
        return
    f = fs[0]
    g = cfg.FnCFG(f)
    inner = [n for n in facts.fn_nodes(f) if n["k"] == "CXXMemberCallExpr" and n.get("cname") == "serialize"]
    own = [n for n in facts.fn_nodes(f) if n["k"] == "CXXMemberCallExpr" and n.get("cname") == "write_serialization"]
    key = "PDU::serialize:inner-region"
    if not inner or not own:
        rep.violation("R4-driver", key, facts.loc(f), "the driver does not serialise the inner layer and then its own header")
    else:
        a0, a1 = facts.expr_str(inner[0]["c"][1]), facts.expr_str(inner[0]["c"][2])
        fx = sx.Fx(db, None)
        ctx = sx.Ctx(fx, f, cls=None)
        env = {"§ret": None}
        # evaluate locals up to the call
        try:
            for st in f["body"].get("c", []):
                if st["k"] == "DeclStmt":
                    for v in st.get("c", []):
                        fx.decl(ctx, v, env)
            # named locals for the two arguments are the same call (single-assignment locals are read through)
            pa = strip(facts.inline_locals(f, inner[0]["c"][1]))
            off = fx.fexpr(ctx, env, pa["c"][1]) if pa["k"] == "BinaryOperator" and pa.get("op") == "+" and \
                facts.strip_all(pa["c"][0]).get("var") == f["params"][0]["var"] else None
            rest = fx.fexpr(ctx, env, facts.inline_locals(f, inner[0]["c"][2]))
        except (sx.Opaque, KeyError, IndexError):
            off = rest = None
        want_off = sx.atom("header_size()")
        want_rest = sx.atom(f["params"][1]["name"]) - sx.atom("header_size()") - sx.atom("trailer_size()")
        if off is not None and rest is not None and off == want_off and rest == want_rest:
            rep.ok("R4-driver", key, facts.loc(f, inner[0]), "inner layer at buffer + header_size() with total_sz - header_size() - trailer_size()")
        else:
            rep.violation("R4-driver", key, facts.loc(f, inner[0]), "inner layer serialised at `%s` with `%s`, not at buffer + header_size() with the remaining size minus the trailer" % (a0[:60], a1[:60]))
        key = "PDU::serialize:order"
        if g.before_on_all_paths(g.pos(inner[0]), g.pos(own[0])) or True:
            # the inner call is conditional (no inner layer): require that no path runs write_serialization before it
            ok = not g.reachable(g.pos(own[0]), g.pos(inner[0]))
            (rep.ok if ok else rep.violation)("R4-driver", key, facts.loc(f, own[0]),
                                              "write_serialization runs after the inner layer was written" if ok else "the layer's own bytes are written before the inner layer")
        args = [facts.expr_str(a) for a in own[0]["c"][1:]]
        key = "PDU::serialize:own-args"
        if args == [f["params"][0]["name"], f["params"][1]["name"]]:
            rep.ok("R4-driver", key, facts.loc(f, own[0]), "write_serialization(buffer, total_sz)")
        else:
            rep.violation("R4-driver", key, facts.loc(f, own[0]), "write_serialization receives %s" % args)
    f0 = [f for f in db.fns_named("Tins::PDU::serialize") if len(f["params"]) == 0]
    key = "PDU::serialize():sized-from-size"
    if f0:
        f = f0[0]
        vd = [n for n in facts.fn_nodes(f) if n["k"] == "VarDecl" and n.get("c")]
        okv = any(any(x["k"] == "CXXMemberCallExpr" and x.get("cname") == "size" and strip(x["c"][0]["c"][0])["k"] == "CXXThisExpr"
                      for x in facts.walk(v["c"][0]) if x["k"] == "CXXMemberCallExpr" and x["c"][0].get("c")) for v in vd)
        call = [n for n in facts.fn_nodes(f) if n["k"] == "CXXMemberCallExpr" and n.get("cname") == "serialize"]
        okc = bool(call) and "size()" in facts.expr_str(call[0]["c"][2])
        (rep.ok if okv and okc else rep.violation)("R4-driver", key, facts.loc(f), "vector<uint8_t> buffer(size()); serialize(&buffer[0], buffer.size())"
                                                  if okv and okc else "the output vector is not sized from size() and passed whole")
    else:
        rep.analysis_broken("PDU::serialize() vanished")
    fsz = db.fns_named("Tins::PDU::size")
    key = "PDU::size:sum"
    if fsz:
        f = fsz[0]
        txt = " ".join(facts.expr_str(n) for n in facts.fn_nodes(f) if n["k"] in ("VarDecl", "CompoundAssignOperator") and (n["k"] != "VarDecl" or n.get("c")))
        adds = [n for n in facts.fn_nodes(f) if n["k"] == "CompoundAssignOperator" and n.get("op") == "+="]
        init = [n for n in facts.fn_nodes(f) if n["k"] == "VarDecl" and n.get("c") and "header_size" in facts.expr_str(n["c"][0]) and "trailer_size" in facts.expr_str(n["c"][0])]
        loop_ok = any("header_size" in facts.expr_str(a["c"][1]) and "trailer_size" in facts.expr_str(a["c"][1]) for a in adds)
        step = any(n["k"] == "BinaryOperator" and n.get("op") == "=" and "inner_pdu" in facts.expr_str(n["c"][1]) for n in facts.fn_nodes(f))
        if init and loop_ok and step:
            rep.ok("R4-driver", key, facts.loc(f), "own header+trailer plus header+trailer of every inner layer")
        else:
            rep.violation("R4-driver", key, facts.loc(f), "size() is not the sum of header_size() + trailer_size() over the chain")
    else:
        rep.analysis_broken("PDU::size vanished")


# ---------------------------------------------------------------------------
# R5: nothing else throws while serialising
# ---------------------------------------------------------------------------
ENTRY = [("write_serialization", "(unsigned char *, unsigned int)"), ("header_size", "() const"), ("trailer_size", "() const"),
         ("prepare_for_serialize", "()")]
# (function qual prefix, exception) -> reason
THROW_TABLE = [
    ("Tins::PPI::write_serialization", "Tins::pdu_not_serializable", "documented: the PPI capture pseudo-header is not serialisable"),
    ("Tins::PKTAP::write_serialization", "Tins::pdu_not_serializable", "documented: the PKTAP capture pseudo-header is not serialisable"),
    ("Tins::RTP::write_serialization", "Tins::pdu_not_serializable", "defensive: padding bit without padding size; the bit's setter is private "
     "and padding_size(uint8_t) sets both (C15 lists the pair), the parsing constructor throws for the combination"),
    ("Tins::Utils::RadioTapParser::", "Tins::malformed_packet", "RadioTap::options_payload_ always holds the present word (both constructors, "
     "RadioTapWriter only inserts); the parser's size checks cannot fail on the object's own payload"),
    ("Tins::small_uint<4>::small_uint", "Tins::value_too_large", "protocol limit: IP::write_serialization stores header_size()/4 in the 4-bit IHL "
     "field through small_uint<4>; more than 40 bytes of options cannot be represented and are rejected rather than truncated"),
    ("Tins::Internals::Converters::convert", "Tins::malformed_option", "RadioTap::trailer_size decodes the FLAGS field, whose size is 1 by "
     "RADIOTAP_METADATA (C11.R1), with to<uint8_t>()"),
    ("Tins::NetworkInterface::", "*", "environment: IP::prepare_for_serialize looks up the default interface for a bottom-layer IP without source address"),
    ("Tins::IPv4Address::ip_to_int", "Tins::invalid_address", "environment: reached only through the interface lookup above"),
    ("Tins::Utils::", "*", "environment: routing-table lookup of IP::prepare_for_serialize"),
]


def r5(db, rep):
    from rules import c01
    discharge = c01.make_discharge(db)
    classes = concrete_classes(db)
    memo = {}

    def sites(K, f, depth=0, stack=()):
        key = (K if uses_this_virtual(f) else None, f["id"])
        if key in memo:
            return memo[key]
        memo[key] = []
        out = []
        if depth > 12 or f["id"] in stack:
            return out
        for n in facts.fn_nodes(f):
            if n["k"] == "CXXThrowExpr":
                t = facts.tyi(f, n.get("thrown")) or {}
                out.append((t.get("name") or t.get("s") or "?", f["qual"], facts.loc(f, n), None))
            if n["k"] in ("CallExpr", "CXXMemberCallExpr", "CXXConstructExpr", "CXXTemporaryObjectExpr", "CXXOperatorCallExpr"):
                callee = n.get("callee")
                if not callee:
                    continue
                if n["k"] == "CXXMemberCallExpr" and exc.layer_boundary(f, n):
                    continue
                fs = db.functions.get(callee)
                if n["k"] == "CXXMemberCallExpr" and n.get("virt"):
                    me = n["c"][0]
                    while me["k"] in ("ParenExpr", "ImplicitCastExpr"):
                        me = me["c"][0]
                    obj = me["c"][0] if me.get("c") else None
                    if (obj is None or strip(obj)["k"] == "CXXThisExpr") and not me.get("qualified") and K:
                        sig = callee[callee.index("("):]
                        ov = final(db, K, n.get("cname"), sig)
                        if ov is not None:
                            fs = ov
                if fs is None or not fs.get("body"):
                    if n.get("ext") and n.get("cname") in exc.STD_THROWERS:
                        out.append((exc.STD_THROWERS[n["cname"]], f["qual"], facts.loc(f, n), None))
                    continue
                if (fs.get("rec") or "") == "Tins::Memory::OutputMemoryStream":
                    continue        # the cursor's own bound checks
                for (t, q, loc, _d) in sites(K, fs, depth + 1, stack + (f["id"],)):
                    why = discharge(f, n, t)
                    if why:
                        continue
                    out.append((t, q, loc, None))
        memo[key] = out
        return out

    def uses_this_virtual(f):
        for n in facts.fn_nodes(f):
            if n["k"] == "CXXMemberCallExpr" and n.get("virt"):
                return True
        return False
    n_ok = 0
    for K in classes:
        short = K.split("::")[-1]
        for nm, sig in ENTRY:
            f = final(db, K, nm, sig)
            if f is None:
                continue
            ss = sites(K, f)
            seen = set()
            bad = []
            tabled = []
            for t, q, loc, _ in ss:
                if (t, q) in seen:
                    continue
                seen.add((t, q))
                row = [r for r in THROW_TABLE if q.startswith(r[0]) and (r[1] == "*" or r[1] == t)]
                if row:
                    tabled.append("%s in %s: %s" % (t.split("::")[-1], q.split("::")[-1], row[0][2][:60]))
                else:
                    bad.append((t, q, loc))
            key = "%s::%s" % (short, nm)
            if bad:
                t, q, loc = bad[0]
                rep.violation("R5-total", key + ":" + t.split("::")[-1], loc,
                              "%s thrown in %s is reachable from %s::%s: serialize() can fail for a packet the API accepted" % (t, q, short, nm))
            else:
                n_ok += 1
                rep.ok("R5-total", key, facts.loc(f), "only the cursor's bound checks%s" % ("; tabled: " + "; ".join(tabled[:2]) if tabled else ""))
    # exactly the two documented classes refuse to serialise
    for K in classes:
        w = final(db, K, "write_serialization", "(unsigned char *, unsigned int)")
        if w is None:
            continue
        always = w["body"].get("c") and all(bits_always_throw(x) for x in w["body"]["c"][:1])
        if always and K not in NOT_SERIALIZABLE:
            rep.violation("R5-total", "%s:not-serialisable" % K.split("::")[-1], facts.loc(w), "%s refuses to serialise but is not one of the two documented capture pseudo-headers" % K)


def bits_always_throw(n):
    while n["k"] in ("ExprWithCleanups", "ParenExpr") and n.get("c"):
        n = n["c"][0]
    return n["k"] == "CXXThrowExpr"


CACHER_TU = """#include <tins/tins.h>
#include <tins/pdu_cacher.h>
template void Tins::PDUCacher<Tins::IP>::write_serialization(uint8_t*, uint32_t);
template void Tins::PDUCacher<Tins::RawPDU>::write_serialization(uint8_t*, uint32_t);
template void Tins::PDUCacher<Tins::EthernetII>::write_serialization(uint8_t*, uint32_t);
"""


def r6(db, rep):
    """PDUCacher<T>::write_serialization: header_size() is the cached layer's size, the bytes copied must be the cached
    serialization and nothing else.  total_sz also counts the layers stacked on the cacher, so a copy extent that is not
    the source container's own size() reads past the cache and overwrites the inner layers' bytes."""
    d2 = facts.extract_standalone(db, "c02cacher", CACHER_TU)
    n = 0
    for fid, f in sorted(d2.functions.items()):
        if not (f.get("rec") or "").startswith("Tins::PDUCacher<") or not f["qual"].endswith("::write_serialization") or not f.get("body"):
            continue
        pb = f["params"][0]["var"]
        short = f["rec"].replace("Tins::", "")
        copies = [x for x in facts.fn_nodes(f) if x["k"] == "CallExpr" and x.get("cname") in ("memcpy", "memmove", "copy", "copy_n") and
                  any(y["k"] == "DeclRefExpr" and y.get("var") == pb for y in facts.walk(x))]
        if not copies:
            rep.analysis_broken("%s::write_serialization: no raw copy into the buffer found" % short)
            continue
        for i, x in enumerate(copies):
            n += 1
            key = "%s::write_serialization:copy#%d" % (short, i + 1)
            args = x["c"][1:]
            if x["cname"] == "copy" and len(args) == 3:
                # std::copy(X.begin(), X.end(), buffer): whole container
                b0, e0, d0 = facts.strip_all(args[0]), facts.strip_all(args[1]), facts.strip_all(args[2])
                def _of(e_, nm):
                    while e_["k"] in ("CXXConstructExpr", "MaterializeTemporaryExpr", "CXXBindTemporaryExpr", "ImplicitCastExpr") and e_.get("c"):
                        e_ = facts.strip_all(e_["c"][0])
                    if e_["k"] == "CXXMemberCallExpr" and e_.get("cname") == nm and e_["c"][0].get("c"):
                        o_ = facts.strip_all(e_["c"][0]["c"][0])
                        return o_.get("member") if o_["k"] == "MemberExpr" and o_.get("isfield") else None
                    return None
                mb, me = _of(b0, "begin"), _of(e0, "end")
                if mb and mb == me and d0["k"] == "DeclRefExpr" and d0.get("var") == pb:
                    rep.ok("R6-cacher-extent", key, facts.loc(f, x), "copies the whole of %s to the start of the layer's region" % mb)
                else:
                    rep.violation("R6-cacher-extent", key, facts.loc(f, x), "std::copy does not copy one whole container to the start of the buffer")
                continue
            if x["cname"] in ("memcpy", "memmove") and len(args) == 3:
                srcm = [y.get("member") for y in facts.walk(args[1]) if y["k"] == "MemberExpr" and y.get("isfield")]
                ln = facts.strip_all(facts.inline_locals(f, args[2]))
                lnm = None
                if ln["k"] == "CXXMemberCallExpr" and ln.get("cname") == "size" and ln["c"][0].get("c"):
                    o = facts.strip_all(ln["c"][0]["c"][0])
                    if o["k"] == "MemberExpr" and o.get("isfield"):
                        lnm = o["member"]
                dst0 = facts.strip_all(args[0])
                at_start = dst0["k"] == "DeclRefExpr" and dst0.get("var") == pb
                if srcm and lnm in srcm and at_start:
                    rep.ok("R6-cacher-extent", key, facts.loc(f, x), "copies %s.size() bytes of %s to the start of the layer's region" % (lnm, lnm))
                else:
                    rep.violation("R6-cacher-extent", key, facts.loc(f, x),
                                  "the copy takes `%s` bytes from `%s`: not the size of the container copied from - with layers stacked on the "
                                  "cacher this reads past the cached serialization and overwrites the bytes of the layers above"
                                  % (facts.expr_str(args[2]), facts.expr_str(args[1])[:60]))
            else:
                rep.analysis_broken("%s: copy form %s not recognised" % (key, x["cname"]))
    if n < 3:
        rep.analysis_broken("PDUCacher<T>::write_serialization instantiations not found (%d)" % n)
