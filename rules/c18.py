"""C18 - no hidden shared mutable state (decided completely, DESIGN.md C18).

glob-class : every object with static storage duration defined by libtins is
             (i) const without mutable sub-objects, or (ii) never written
             outside its own initialiser, or (iii) a registry object whose only
             writers are the user-invoked registration functions.
libc-deny  : no library function on the thread-private API surface calls a
             non-re-entrant libc entry.
hmac-out   : OpenSSL HMAC() is never given a null output buffer (the null form
             returns a pointer to a static array).
ir-store   : (thorough) the LLVM IR of every TU agrees: no `store` to a libtins
             global outside its initialiser / the registry writers.
"""
import os
import re
import subprocess
from concurrent.futures import ThreadPoolExecutor

from vlib import facts
from vlib.facts import strip

PID = "C18"

# (iii) registry objects: configuration state written only by register_allocator,
# which the documentation requires to be called before parsing starts.
REGISTRY = [
    (re.compile(r"^(t:)?g:Tins::Internals::PDUAllocator(<.*>)?::(allocators|pdu_types)$"),
     re.compile(r"^Tins::Internals::PDUAllocator<.*>::register_allocator\("),
     "user-invoked protocol registration table (Allocators::register_allocator); readers are the parse path"),
]

DENY = set("""strtok inet_ntoa gethostbyname gethostbyaddr localtime gmtime asctime ctime rand srand strerror
setlocale getservbyname getservbyport getprotobyname getprotobynumber ttyname readdir tmpnam ether_ntoa ether_aton
getpwnam getpwuid getgrnam getgrgid getlogin crypt setenv putenv unsetenv getenv basename dirname lgamma drand48
lrand48 mrand48 erand48 random srandom strsignal ecvt fcvt gcvt getmntent l64a hcreate hsearch nl_langinfo
wcstombs mblen mbtowc wctomb""".split())

# files whose functions talk to the operating system / network and are not part
# of "parsing, building, copying, serializing, reassembling and decrypting"
DENY_EXEMPT_FILES = {
    "src/packet_sender.cpp": "socket I/O; PacketSender objects own OS resources, outside the listed operations",
    "src/network_interface.cpp": "queries the OS interface table",
    "src/utils/routing_utils.cpp": "queries the OS routing table",
    "src/utils/resolve_utils.cpp": "DNS/ARP resolution over the network",
}

CONST_CONTAINER_READS = {"find", "end", "begin", "count", "size", "empty", "lower_bound", "upper_bound",
                         "cbegin", "cend", "equal_range", "max_size"}


def classify_ref(f, n, parent):
    """'read' or a description of the write/escape for a reference n to a global"""
    cur = n
    while True:
        p = parent.get(cur["id"])
        if p is None:
            return "escapes (top-level use)"
        k = p["k"]
        if k == "ParenExpr":
            cur = p
            continue
        if k == "ImplicitCastExpr":
            ck = p.get("ck")
            if ck == "LValueToRValue":
                return "read"
            if ck == "ArrayToPointerDecay":
                cur = p
                continue
            if ck == "NoOp":
                t = facts.ty(f, p)
                if t and t.get("const"):
                    return "read"
                cur = p
                continue
            if ck in ("DerivedToBase", "UncheckedDerivedToBase"):
                cur = p
                continue
            return "escapes through cast %s" % ck
        if k == "ArraySubscriptExpr":
            if p["c"][0] is cur or strip(p["c"][0]) is strip(cur):
                cur = p
                continue
            return "read"  # used as index
        if k == "MemberExpr":
            if p.get("isfield"):
                cur = p
                continue
            # method call on the object
            gp = parent.get(p["id"])
            if gp is not None and gp["k"] == "CXXMemberCallExpr":
                callee = gp.get("callee", "")
                if callee.endswith(" const") or gp.get("cname") in CONST_CONTAINER_READS:
                    return "read"
                return "non-const member call %s" % gp.get("cname")
            return "member function taken"
        if k == "CXXOperatorCallExpr":
            # operator[] on map inserts; others: treat const operators as read
            callee = p.get("callee", "")
            if callee.endswith(" const"):
                return "read"
            if p.get("op") in ("==", "!=", "<", ">", "<=", ">=", "<<") and p["c"][1] is not cur:
                return "read"
            return "non-const operator%s" % p.get("op")
        if k in ("BinaryOperator", "CompoundAssignOperator"):
            op = p.get("op")
            if op in ("=", "+=", "-=", "*=", "/=", "|=", "&=", "^=", "<<=", ">>=", "%="):
                if p["c"][0] is cur:
                    return "assigned with %s" % op
                return "read"
            return "read"
        if k == "UnaryOperator":
            op = p.get("op")
            if op in ("++", "--"):
                return "modified with %s" % op
            if op == "&":
                # address taken: fine only if it becomes pointer-to-const
                t = facts.ty(f, p)
                if t and t.get("k") == "ptr" and t.get("to") and t["to"].get("const"):
                    return "read"
                gp = parent.get(p["id"])
                if gp is not None and gp["k"] == "ImplicitCastExpr":
                    t2 = facts.ty(f, gp)
                    if t2 and t2.get("k") == "ptr" and t2.get("to") and t2["to"].get("const"):
                        return "read"
                return "address taken (non-const)"
            if op == "*":
                cur = p
                continue
            return "read"
        if k in ("CXXConstructExpr", "CXXTemporaryObjectExpr"):
            # copy: parameter is const ref normally
            return "read"
        if k in ("CallExpr", "CXXMemberCallExpr"):
            # passed as an argument: look at the declared parameter type through the implicit cast
            t = facts.ty(f, cur)
            return "passed by non-const reference/pointer to %s" % p.get("cname", "?") if cur.get("lv") else "read"
        if k in ("ReturnStmt",):
            return "returned by non-const reference"
        if k in ("VarDecl",):
            t = facts.tyi(f, p.get("t"))
            if t and t.get("k") == "ref" and not (t.get("to") or {}).get("const"):
                return "bound to non-const reference"
            return "read"
        if k in ("ConditionalOperator",):
            cur = p
            continue
        if k in ("IfStmt", "WhileStmt", "ForStmt", "DoStmt", "SwitchStmt", "CompoundStmt", "CXXForRangeStmt",
                 "DeclStmt", "UnaryExprOrTypeTraitExpr"):
            return "read"
        if k in ("CStyleCastExpr", "CXXStaticCastExpr", "CXXFunctionalCastExpr", "CXXConstCastExpr",
                 "CXXReinterpretCastExpr"):
            t = facts.ty(f, p)
            if t and t.get("k") in ("int", "bool", "enum", "float"):
                return "read"
            if t and t.get("k") in ("ptr", "ref") and (t.get("to") or {}).get("const"):
                return "read"
            return "cast to non-const %s" % (t or {}).get("s")
        return "used in %s" % k


def run(db, rep, tier):
    rep.level = "other"
    analyse(db, rep, tier)
    # positive controls: the same analysis must fire on the fixture TU
    from vlib import report
    fx = facts.extract_fixture("c18_fixture")
    r2 = report.Report(PID, tier)
    analyse(fx, r2, "quick")
    got = set((o["rule"], o["key"]) for o in r2.obls if o["verdict"] == "violation")
    silent = set(o["key"] for o in r2.obls if o["verdict"] == "ok")
    want = [("glob-class", "g:Fx::hidden_counter @c18_fixture.cpp"), ("glob-class", "l:Fx::render(unsigned int)::buf"),
            ("glob-class", "l:Fx::table_lookup(unsigned int)::table"), ("glob-class", "l:Fx::table_lookup(unsigned int)::ready"),
            ("glob-class", "g:Fx::const_with_mutable @c18_fixture.cpp"), ("glob-class", "t:g:Fx::Reg::slots"),
            ("glob-class", "t:l:Fx::bump()::calls"),
            ("libc-deny", "Fx::addr(in_addr) calls inet_ntoa"), ("libc-deny", "Fx::tok(char *) calls strtok")]
    for w in want:
        if w not in got:
            rep.analysis_broken("positive control %s/%s did not fire on the fixture" % w)
    if "l:Fx::read_only_table(unsigned int)::squares" not in silent:
        rep.analysis_broken("negative control (never-written local static) was reported on the fixture")
    rep.extra["positive_controls"] = len(want)
    rep.extra["negative_controls"] = 1


def analyse(db, rep, tier):
    rep.rule("glob-class", "every static-storage object is const w/o mutable parts, or never written outside its "
                           "initialiser, or a listed registry with only its registration writers", 100)
    rep.rule("libc-deny", "no non-re-entrant libc entry is called from the thread-private API surface", 1)
    rep.rule("hmac-out", "OpenSSL HMAC() output buffer argument is never a null pointer constant", 2)
    if tier == "thorough":
        rep.rule("ir-store", "LLVM IR cross-view: stores to libtins globals only in initialisers / registry writers", 10)

    nonconst = {}
    for gid, g in sorted(db.globals.items()):
        t = facts.tyi(g, g["t"])
        is_const = bool(g.get("const") or g.get("constexpr") or (t and t.get("const")))
        site = "%s:%d" % (g["file"], g["line"])
        if g.get("tls"):
            rep.ok("glob-class", gid, site, "thread_local: private to each thread")
            continue
        if is_const and not g.get("has_mutable"):
            # a CONST POINTER to a non-const object is only half of (i): the pointer never changes, the object it designates
            # is shared by every thread all the same.  Handing it to anything that takes a pointer to non-const is a write.
            pt = (t or {}).get("to") if (t or {}).get("k") == "ptr" else None
            if pt is not None and not pt.get("const") and pt.get("k") not in ("fn", "func", "function"):
                hit = None

                def is_use(f_, x):
                    if x["k"] != "DeclRefExpr":
                        return False
                    if x.get("var") == gid:
                        return True
                    # a function-local static is referred to by its local id inside its function
                    return gid.startswith("l:" + f_["id"] + "::") and x.get("name") == g.get("name") and \
                        str(x.get("var") or "").startswith(str(g.get("name")) + "#%s:" % g.get("line"))
                for f_ in db.functions.values():
                    if not f_.get("body"):
                        continue
                    for c_ in facts.fn_nodes(f_):
                        if c_["k"] in ("CallExpr", "CXXMemberCallExpr") and any(
                                is_use(f_, x) for a_ in c_["c"][1:] for x in facts.walk(a_)):
                            for a_ in c_["c"][1:]:
                                if any(is_use(f_, x) for x in facts.walk(a_)):
                                    at = facts.ty(f_, facts.strip(a_, casts=False)) or facts.ty(f_, a_) or {}
                                    if at.get("k") == "ptr" and not (at.get("to") or {}).get("const"):
                                        hit = (f_, c_)
                if hit:
                    rep.violation("glob-class", gid, site,
                                  "`%s` is a const pointer with static storage to a NON-const %s, and %s() receives it as a pointer to "
                                  "non-const (%s): one object, created once, is modified by every thread that comes through here - "
                                  "results of concurrent calls on thread-private objects mix" %
                                  (g.get("name"), (pt.get("s") or "object"), hit[1].get("cname"), facts.loc(hit[0], hit[1])))
                    continue
            rep.ok("glob-class", gid, site, "(i) const-qualified %s, no mutable sub-object" % (t or {}).get("s", "?")[:60])
            continue
        nonconst[gid] = g

    # writers of the non-const objects (AST view over every function in the DB)
    writers = dict((gid, []) for gid in nonconst)
    readers = dict((gid, 0) for gid in nonconst)
    nfun = 0
    for f in db.functions.values():
        nfun += 1
        hits = None
        for n in facts.fn_nodes(f):
            if n.get("glob") and n["k"] in ("DeclRefExpr", "MemberExpr"):
                v = n.get("var")
                if v in nonconst:
                    if hits is None:
                        hits = []
                    hits.append(n)
                elif v and v.endswith("#%d:%d" % (0, 0)):
                    pass
        # function-local statics are referenced by their local var id; map through decl site
        if hits is None and not any(g.get("fn") == f["id"] for g in nonconst.values()):
            continue
        idx, parent = facts.index_fn(f)
        local_ids = {}
        for g in nonconst.values():
            if g.get("fn") == f["id"]:
                for n in facts.fn_nodes(f):
                    if n["k"] == "VarDecl" and n.get("static") and n.get("name") == g["name"]:
                        local_ids[n["var"]] = g["id"]
        for n in facts.fn_nodes(f):
            if n["k"] not in ("DeclRefExpr", "MemberExpr"):
                continue
            v = n.get("var")
            gid = v if v in nonconst else local_ids.get(v)
            if gid is None:
                continue
            c = classify_ref(f, n, parent)
            if c == "read":
                readers[gid] += 1
            else:
                writers[gid].append((f["id"], facts.loc(f, n), c))

    for gid, g in sorted(nonconst.items()):
        site = "%s:%d" % (g["file"], g["line"])
        t = facts.tyi(g, g["t"])
        ws = writers[gid]
        if g.get("dependent") and not any(pat.match(gid) for pat, _, _ in REGISTRY):
            rep.violation("glob-class", gid, site, "writable static-storage object inside a template pattern (%s): its "
                          "uses are in uninstantiated code and cannot be shown read-only" % g["name"])
            continue
        if g.get("has_mutable") and (g.get("const") or (t and t.get("const"))):
            rep.violation("glob-class", gid, site, "const object of type %s has `mutable` sub-objects: const access "
                          "from several threads may write it" % (t or {}).get("s"))
            continue
        reg = None
        for pat, wpat, why in REGISTRY:
            if pat.match(gid):
                reg = (wpat, why)
        if reg:
            bad = [w for w in ws if not reg[0].match(w[0])]
            if bad:
                rep.violation("glob-class", gid, site, "registry object written outside its registration function: %s at %s (%s)"
                              % (bad[0][0], bad[0][1], bad[0][2]))
            else:
                rep.ok("glob-class", gid, site, "(iii) registry: %s; writers=%s, read sites=%d"
                       % (reg[1], sorted(set(w[0].split("(")[0] for w in ws)), readers[gid]))
            continue
        if ws:
            rep.violation("glob-class", gid, site, "non-const static-storage object of type %s is written/escapes in %s at %s (%s)%s"
                          % ((t or {}).get("s"), ws[0][0], ws[0][1], ws[0][2],
                             " and %d more sites" % (len(ws) - 1) if len(ws) > 1 else ""))
        elif g.get("local") and not g.get("const_init") and db.config != "cxx11":
            rep.violation("glob-class", gid, site, "function-local static with dynamic initialisation is not "
                          "guarded before C++11")
        else:
            rep.ok("glob-class", gid, site, "(ii) declared non-const (%s) but no write/escape in any of %d functions; %d read sites"
                   % ((t or {}).get("s", "?")[:50], nfun, readers[gid]))

    # libc deny-list and HMAC
    ncalls = 0
    for f in db.functions.values():
        for n in facts.fn_nodes(f):
            if n["k"] != "CallExpr" or not n.get("ext"):
                continue
            name = n.get("cname")
            ncalls += 1
            if name in DENY:
                key = "%s calls %s" % (f["id"], name)
                if f["file"] in DENY_EXEMPT_FILES:
                    rep.ok("libc-deny", key, facts.loc(f, n), "exempt file: " + DENY_EXEMPT_FILES[f["file"]])
                else:
                    rep.violation("libc-deny", key, facts.loc(f, n),
                                  "%s() keeps its result/state in hidden static storage shared by all threads" % name)
            if name == "HMAC":
                key = "%s HMAC#%d" % (f["id"], sum(1 for o in rep.obls if o["rule"] == "hmac-out" and o["key"].startswith(f["id"])))
                args = n["c"][1:]
                if len(args) >= 6:
                    out = args[5]
                    if facts.cval(out) == 0 or strip(out)["k"] in ("CXXNullPtrLiteralExpr", "GNUNullExpr"):
                        rep.violation("hmac-out", key, facts.loc(f, n), "HMAC called with a null output buffer: result lives in a static array inside OpenSSL")
                    else:
                        rep.ok("hmac-out", key, facts.loc(f, n), "output buffer is %s" % facts.expr_str(out))
    rep.ok("libc-deny", "scan", "all functions", "%d calls to external C functions scanned against a %d-entry deny-list"
           % (ncalls, len(DENY)))
    rep.extra["exhaustive"] = True
    rep.extra["static_objects"] = len(db.globals)
    rep.extra["nonconst_static_objects"] = sorted(nonconst)
    if tier == "thorough":
        ir_view(db, rep)
    rep.explanation = ("Every object with static storage duration that the library's translation units define or "
                       "instantiate (%d objects) is enumerated from the AST and classified; for the %d that are not "
                       "const, every reference in every function (%d) is classified as read or write/escape. "
                       "Anything new that is writable is a violation by default. Decides the 'hidden shared mutable "
                       "state inside libtins' clause completely for the configured build; state inside libpcap/"
                       "OpenSSL/libc is covered only by the deny-list rules."
                       % (len(db.globals), len(nonconst), nfun))
    rep.assumptions += ["register_allocator is configuration done before threads parse (documented usage)",
                        "const objects with dynamic initialisation are initialised at load time, before threads exist",
                        "C++11 function-local static initialisation is thread-safe (magic statics)"]


# ---------------------------------------------------------------------------
# IR cross-view
# ---------------------------------------------------------------------------
GLOBAL_DEF = re.compile(r"^(@[\w.$\"<>:,\- ()*&\[\]]+?) = (?:[\w() ]*?)(global|constant) ", re.M)


def _ir_one(args):
    src, flags = args
    cmd = ["clang++", "-O0", "-S", "-emit-llvm", "-o", "-", src] + [x for x in flags if x not in ("-Wno-everything",)] + ["-w"]
    r = subprocess.run(cmd, stdout=subprocess.PIPE, stderr=subprocess.PIPE)
    return src, r.returncode, r.stdout.decode(errors="replace"), r.stderr.decode(errors="replace")[-500:]


def _split_top(text):
    """split an operand list at depth-0 commas"""
    out, depth, cur = [], 0, []
    for ch in text:
        if ch in "([{<":
            depth += 1
        elif ch in ")]}>":
            depth -= 1
            if depth < 0:
                break
        if ch == "," and depth == 0:
            out.append("".join(cur).strip())
            cur = []
        else:
            cur.append(ch)
    out.append("".join(cur).strip())
    return out


def ir_view(db, rep):
    shadow = facts.shadow_config(db.repo, db.config, db.key)
    flags = [x for x in facts.flags_for(db.repo, db.config, shadow) if x != "-resource-dir" and x != facts.RESOURCE_DIR]
    srcs = [os.path.join(db.repo, s) for s in db.sources if s.startswith("src/")]
    with ThreadPoolExecutor(max_workers=16) as ex:
        outs = list(ex.map(_ir_one, [(s, flags) for s in srcs]))
    for src, rc, ir, err in outs:
        rel = os.path.relpath(src, db.repo)
        if rc != 0:
            rep.analysis_broken("IR view: clang failed on %s: %s" % (rel, err))
            continue
        # globals defined in this TU that are writable
        writable = set()
        for m in re.finditer(r"^(@\S+) = (?:(?:dso_local|internal|linkonce_odr|weak_odr|hidden|local_unnamed_addr|unnamed_addr|private|external|thread_local|common)\s+)*(global|constant)\b", ir, re.M):
            if m.group(2) == "global":
                writable.add(m.group(1))
        # current function while scanning
        cur = None
        bad = []
        nstores = 0
        for line in ir.split("\n"):
            if line.startswith("define "):
                m = re.search(r"(@[^\s(]+)\(", line)
                cur = m.group(1) if m else "?"
            elif line.startswith("}"):
                cur = None
            elif cur:
                ls = line.lstrip()
                tgt = None
                if ls.startswith("store "):
                    ops = _split_top(ls[len("store "):])
                    if len(ops) >= 2:
                        tgt = ops[1]
                elif "@llvm.memcpy" in ls or "@llvm.memset" in ls or "@llvm.memmove" in ls:
                    i = ls.find("(", ls.find("@llvm.mem"))
                    ops = _split_top(ls[i + 1:])
                    if ops:
                        tgt = ops[0]
                if tgt is None:
                    continue
                m = re.search(r"(@[^\s,()]+)", tgt)
                if m and m.group(1) in writable:
                    nstores += 1
                    g = m.group(1)
                    if "__cxx_global_var_init" in cur or "_GLOBAL__sub_I" in cur:
                        continue
                    if g.startswith("@_ZGV"):
                        continue  # guard variables of local statics
                    if g.startswith("@_ZStL8__ioinit") or g.startswith("@__dso_handle"):
                        continue
                    if "register_allocator" in cur:
                        continue
                    bad.append((cur, g))
        key = rel
        if bad:
            rep.violation("ir-store", key, rel, "LLVM IR stores to writable global %s in function %s" % (bad[0][1], bad[0][0]))
        else:
            rep.ok("ir-store", key, rel, "%d writable globals defined, %d direct stores, all inside initialisers/guards"
                   % (len(writable), nstores))
