"""C16 - address types (NARROW claim, DESIGN.md C16).  Text round trip, numeric ordering, prefix/mask arithmetic and
iteration are value-level and NOT decided.  Decided:

 R1 membership  AddressRange::contains touches its argument only through < and == against the two ends; evaluated on
                every ordering of (x, first, last) it equals first <= x <= last; the range constructor rejects
                last < first.
 R2 operators   for IPv4Address, IPv6Address and HWAddress<n>: !=, <=, >= are the negations of ==, >, <, and ==, <, >
                all read the same storage of both operands.
 R3 hash        every std::hash specialisation is a function of the state operator== compares and reads no global.
 R4 rejection   inet_pton's result selects success only when it reports a valid address, the other edge throws
                invalid_address; the hardware-address text parser, evaluated over all 256 byte values, accepts exactly the
                hexadecimal digits (with their values) and ':' as separator, everything else throws.
 R5 mask-ops    range ends are built with bitwise AND (first) and OR-NOT (last) of address and mask, element by element.
"""
import itertools
from vlib import facts, cfg, cond, formula, ieval
from vlib.facts import strip
from rules import c13

PID = "C16"
ADDR = ["Tins::IPv4Address", "Tins::IPv6Address", "Tins::HWAddress<6UL>"]


def synth(db):
    text = """#include <tins/tins.h>
#include <tins/address_range.h>
#include <tins/hw_address.h>
#include <functional>
template class Tins::AddressRange< Tins::HWAddress<6> >;
template class Tins::AddressRange< Tins::IPv4Address >;
template class Tins::AddressRange< Tins::IPv6Address >;
template class Tins::AddressRangeIterator< Tins::HWAddress<6> >;
template class Tins::AddressRangeIterator< Tins::IPv4Address >;
template class Tins::AddressRangeIterator< Tins::IPv6Address >;
template struct std::hash< Tins::HWAddress<6> >;
template Tins::AddressRange<Tins::HWAddress<6> > Tins::operator/<6>(const Tins::HWAddress<6>&, int);
template bool Tins::Internals::increment<6>(Tins::HWAddress<6>&);
template bool Tins::Internals::decrement<6>(Tins::HWAddress<6>&);
template Tins::HWAddress<6> Tins::Internals::last_address_from_mask<6>(Tins::HWAddress<6>, const Tins::HWAddress<6>&);
static bool verif_use_hw_ops(const Tins::HWAddress<6>& a, const Tins::HWAddress<6>& b) {
    return a == b || a != b || a < b || a <= b || a > b || a >= b || (a & b) == a || (a | b) == b || (~a) == b;
}
bool (*verif_keep)(const Tins::HWAddress<6>&, const Tins::HWAddress<6>&) = &verif_use_hw_ops;
"""
    facts.extract_extra(db, "c16", text)


def fns(db, pred):
    return [f for fid, f in sorted(db.functions.items()) if pred(fid)]


def run(db, rep, tier):
    rep.rule("R1-membership", "contains(x) <=> first <= x <= last on every ordering; constructor rejects last < first", 4)
    rep.rule("R2-operators", "the six comparison operators of each address type are one order", 15)
    rep.rule("R3-hash", "hash depends only on the state operator== compares", 3)
    rep.rule("R4-rejection", "text that is not a valid address is rejected with invalid_address", 3)
    rep.rule("R5-mask-ops", "range ends = address AND mask / address OR NOT mask, element-wise", 5)
    synth(db)
    r1(db, rep)
    r2(db, rep)
    r3(db, rep)
    r4(db, rep)
    r5(db, rep)
    rep.rule("R6-successor", "increment() of every address type is the big-endian successor and returns true exactly on wrap-around; the range "
                             "iterator's end detection is built on that flag", 14)
    r6(db, rep)
    rep.rule("R7-prefix-mask", "from_prefix_length / operator/ build, for EVERY prefix length 0..32 / 0..128 / 0..48, the mask of that many one bits "
                               "followed by zeros, without an out-of-range shift", 3)
    r7(db, rep)
    rep.rule("R8-ntop-buffer", "text conversion through inet_ntop uses a buffer that holds the longest textual form (46 bytes for IPv6, 16 for "
                               "IPv4) and passes that buffer's own size", 1)
    r8(db, rep)
    rep.rule("R9-hex-printer", "the hardware-address printer maps every nibble value 0..15 to its hexadecimal digit (both nibbles of an octet, "
                               "high nibble first)", 2)
    r9(db, rep)
    rep.rule("R10-hw-byte-loops", "every byte loop of HWAddress<6> (mask operators, broadcast fill) visits exactly positions 0..5", 4)
    r10(db, rep)
    rep.rule("R11-post-increment", "the post-increment / post-decrement of the range iterators advances through the PRE-increment (or the successor "
                                   "function) of the same object and returns the copy taken before: it does not call itself (an "
                                   "unconditional self-call never returns), so `it++` loops over a range terminate like `++it` loops", 3)
    r11(db, rep)
    rep.explanation = ("NARROW claim for C16: decides membership-as-ordering, operator consistency, hash/equality dependence, "
                       "the rejection discipline of the text parsers (incl. the exact accept set and digit values of the "
                       "hardware-address parser, by evaluating its character tests over all 256 byte values) and the bitwise shape "
                       "of the mask helpers. Does NOT decide the text round trip of IPv4/IPv6 (delegated to inet_pton/ntop), "
                       "agreement of < with numeric byte order or prefix-length masks.  Iteration: the successor functions "
                       "(abstract interpretation of the byte-wise carry chain; wrap flag of the scalar IPv4 one) and the iterator's "
                       "end protocol are decided (R6).")
    rep.assumptions += ["<, == of the address types form a strict total order (R2 checks they read the same storage)"]


# ---------------------------------------------------------------------------
def r1(db, rep):
    cs = fns(db, lambda i: i.startswith("Tins::AddressRange<") and "::contains(" in i)
    if len(cs) < 3:
        rep.analysis_broken("expected contains() for 3 address types, found %d" % len(cs))
    for f in cs:
        atoms, table = formula.truth_table(f)
        key = f["id"].split("::contains")[0]
        pvar = f["params"][0]["name"]
        bad = None
        # representative values for every ordering of x against first <= last
        for first, last in ((10, 20), (10, 10)):
            for x in (5, 10, 15, 20, 25):
                env = {"first_": first, "last_": last, pvar: x}
                vals = []
                ok = True
                for a in atoms:
                    v = eval_order_atom(a, env)
                    if v is None:
                        ok = False
                    vals.append(v)
                if not ok:
                    bad = "contains() tests something other than </== between its argument and the ends: %s" % atoms
                    break
                res = table[tuple(vals)]
                want = first <= x <= last
                if res is not want:
                    bad = "for first=%d last=%d x=%d contains() yields %s (atoms %s)" % (first, last, x, res, dict(zip(atoms, vals)))
                    break
            if bad:
                break
        if bad:
            rep.violation("R1-membership", key, facts.loc(f), bad)
        else:
            rep.ok("R1-membership", key, facts.loc(f), "equals first <= x <= last on all 8 orderings (atoms %s)" % atoms)
    # constructor rejects last < first
    ctors = fns(db, lambda i: i.startswith("Tins::AddressRange<") and "::AddressRange(const" in i and ", bool)" in i)
    okc = 0
    for f in ctors:
        good = False
        try:
            atoms, table = formula.truth_table(f)
            rev = [a for a in atoms if a in ("last_ < first_",)]
            if rev:
                i = atoms.index(rev[0])
                good = all((res == "<throw>") == vals[i] for vals, res in table.items())
        except facts.AnalysisBroken:
            good = False
        key = f["id"].split("::AddressRange(")[0] + ":ctor"
        if good:
            okc += 1
            rep.ok("R1-membership", key, facts.loc(f), "throws when last_ < first_")
        else:
            rep.violation("R1-membership", key, facts.loc(f), "the range constructor does not reject last < first")
    if not ctors:
        rep.analysis_broken("AddressRange(first, last, bool) constructors not found")


def eval_order_atom(a, env):
    for op in (" == ", " < "):
        if op in a:
            l, r = a.split(op)
            l, r = l.strip("() "), r.strip("() ")
            if l in env and r in env:
                return (env[l] == env[r]) if op == " == " else (env[l] < env[r])
    return None


# ---------------------------------------------------------------------------
def op_fn(db, rec, op):
    fs = fns(db, lambda i: i.startswith(rec + "::operator" + op + "(const"))
    return fs[0] if fs else None


def r2(db, rep):
    for rec in ADDR:
        short = rec.split("::")[-1]
        base = {}
        for op in ("==", "<", ">"):
            f = op_fn(db, rec, op)
            if f is None:
                rep.analysis_broken("%s::operator%s not found" % (rec, op))
                continue
            base[op] = f
            e = c13.ret_expr(f)
            txt = facts.expr_str(e) if e is not None else ""
            # both operands' storage must appear
            storage_ok = (("rhs" in txt) and (txt.count("ip_addr_") == 2 or txt.count("address_") >= 1 or "begin()" in txt))
            key = "%s:operator%s" % (short, op)
            if e is None or not storage_ok:
                rep.violation("R2-operators", key, facts.loc(f), "operator%s does not compare the storage of both operands (%s)" % (op, txt[:80]))
            else:
                rep.ok("R2-operators", key, facts.loc(f), "compares the stored bytes of *this and rhs: %s" % txt[:70])
        # < and > must be duals: same callee family / swapped operands
        if "<" in base and ">" in base:
            a, b = facts.expr_str(c13.ret_expr(base["<"])), facts.expr_str(c13.ret_expr(base[">"]))
            dual = False
            if " < " in a and " > " in b and a.replace(" < ", " > ") == b:
                dual = True
            if "lexicographical_compare" in a and "lexicographical_compare" in b:
                dual = ("rhs.begin(), rhs.end(), begin(), end()" in b.replace("this->", "") or b.index("rhs") < b.index("begin()", 0)) and a != b
            if "lt_compare" in a and "gt_compare" in b:
                dual = True
            key = "%s:lt-gt-dual" % short
            (rep.ok if dual else rep.violation)("R2-operators", key, facts.loc(base[">"]),
                                                "operator> is operator< with the operands swapped" if dual else
                                                "operator> (%s) is not the dual of operator< (%s)" % (b[:60], a[:60]))
        for op, neg in (("!=", "=="), ("<=", ">"), (">=", "<")):
            f = op_fn(db, rec, op)
            key = "%s:operator%s" % (short, op)
            if f is None:
                rep.analysis_broken("%s::operator%s not found" % (rec, op))
                continue
            e = c13.ret_expr(f)
            e0 = strip(e) if e is not None else None
            good = False
            if e0 is not None and e0["k"] == "UnaryOperator" and e0.get("op") == "!":
                inner = facts.strip_all(e0["c"][0])
                if inner["k"] in ("CXXOperatorCallExpr", "CXXMemberCallExpr"):
                    name = inner.get("cname") or ("operator" + (inner.get("op") or ""))
                    args_txt = facts.expr_str(inner)
                    good = name == "operator" + neg and "rhs" in args_txt
            if good:
                rep.ok("R2-operators", key, facts.loc(f), "defined as !(operator%s)" % neg)
            else:
                rep.violation("R2-operators", key, facts.loc(f), "operator%s is not the negation of operator%s: %s" %
                              (op, neg, facts.expr_str(e)[:80] if e is not None else "?"))


# ---------------------------------------------------------------------------
def r3(db, rep):
    hs = fns(db, lambda i: i.startswith("std::hash<Tins::") and "::operator()(" in i)
    if len(hs) < 3:
        rep.analysis_broken("expected 3 std::hash specialisations, found %d" % len(hs))
    for f in hs:
        key = f["id"].split("::operator()")[0]
        pvar = f["params"][0]["var"]
        globs = [n for n in facts.fn_nodes(f) if n["k"] == "DeclRefExpr" and n.get("glob") and "v" not in n and
                 not (facts.ty(f, n) or {}).get("const")]
        # every use of the parameter must be a read of the address value: conversion, begin()/end(), to_string()
        uses = [n for n in facts.fn_nodes(f) if n["k"] == "DeclRefExpr" and n.get("var") == pvar]
        idx, parent = facts.index_fn(f)
        bad_use = []
        for u in uses:
            p = parent.get(u["id"])
            while p is not None and p["k"] in ("ImplicitCastExpr", "ParenExpr"):
                p = parent.get(p["id"])
            okk = False
            if p is not None and p["k"] == "MemberExpr" and p.get("member") in ("begin", "end", "to_string", "operator unsigned int"):
                okk = True
            if p is not None and p["k"] in ("CXXMemberCallExpr",) and p.get("cname") in ("begin", "end", "to_string", "operator unsigned int"):
                okk = True
            if not okk:
                bad_use.append(facts.expr_str(p) if p else "?")
        # a raw copy out of the address reads exactly the address: its length is the address's own size, never a constant
        # chosen for the destination (`memcpy(&u64, addr.begin(), sizeof(u64))` drags in the bytes BEHIND a 6-byte address:
        # equal addresses then hash differently depending on their neighbours in memory)
        over = None
        for c in facts.fn_nodes(f):
            if c["k"] == "CallExpr" and c.get("cname") in ("memcpy", "memmove", "copy_n") and len(c["c"]) >= 4:
                src, ln = (c["c"][2], c["c"][3]) if c["cname"] != "copy_n" else (c["c"][1], c["c"][2])
                if not any(x["k"] == "DeclRefExpr" and x.get("var") == pvar for x in facts.walk(src)):
                    continue
                k_ = facts.cval(ln)
                pt = facts.tyi(f, f["params"][0].get("t")) or {}
                while pt.get("k") == "ref" and pt.get("to"):
                    pt = pt["to"] if isinstance(pt["to"], dict) else (facts.tyi(f, pt["to"]) or {})
                asz = None
                r_ = db.records.get(pt.get("name") or "")
                if r_:
                    for st_ in r_.get("statics", []):
                        if st_["name"] == "address_size" and "v" in st_:
                            asz = int(st_["v"])
                mentions_size = any((x["k"] == "DeclRefExpr" and x.get("name") in ("n", "address_size")) or
                                    (x["k"] == "CXXMemberCallExpr" and x.get("cname") == "size") for x in facts.walk(ln))
                if k_ is not None and not mentions_size and (asz is None or k_ > asz):
                    over = (c, k_, asz)
        if over:
            rep.violation("R3-hash", key, facts.loc(f, over[0]),
                          "the hash copies a fixed %d bytes out of the address (%s): for a shorter address the bytes stored behind it are hashed "
                          "too, so two equal addresses can hash differently (and the read leaves the object)" %
                          (over[1], "address size %d" % over[2] if over[2] is not None else "whose size is the template parameter"))
        elif globs:
            rep.violation("R3-hash", key, facts.loc(f), "hash reads mutable global state `%s`" % globs[0].get("name"))
        elif bad_use or not uses:
            rep.violation("R3-hash", key, facts.loc(f), "hash is not a function of the address bytes only (%s)" % (bad_use[:2] or "address never read"))
        else:
            rep.ok("R3-hash", key, facts.loc(f), "reads the address only through %d value accessor(s); no other input" % len(uses))


# ---------------------------------------------------------------------------
def r4(db, rep):
    n_pton = 0
    for f in db.functions.values():
        for n in facts.fn_nodes(f):
            if n["k"] == "CallExpr" and n.get("cname") == "inet_pton" and n.get("ext"):
                n_pton += 1
                g = cfg.FnCFG(f)
                key = "%s:inet_pton" % f["id"].split("(")[0]
                idx, parent = facts.index_fn(f)
                p = parent.get(n["id"])
                while p is not None and p["k"] in ("ImplicitCastExpr", "ParenExpr"):
                    p = parent.get(p["id"])
                af_const = facts.cval(n["c"][1]) is not None
                verdict = None
                if p is not None and p["k"] == "BinaryOperator" and p["op"] in ("==", "!="):
                    other = p["c"][1] if strip(p["c"][0]) is n or facts.strip_all(p["c"][0]) is n else p["c"][0]
                    k_ = facts.cval(other)
                    # which edge throws?
                    blk = [b for b in g.blocks.values() if b.get("cond") is not None and contains_node(g.idx.get(b["cond"]), p)]
                    flip = False
                    if not blk:
                        # the comparison is kept in a boolean local and tested later (`const bool parsed = ...; if (!parsed)`)
                        from vlib import cond as _cond
                        q_ = parent.get(p["id"])
                        while q_ is not None and q_["k"] in ("ImplicitCastExpr", "ParenExpr", "ExprWithCleanups"):
                            q_ = parent.get(q_["id"])
                        if q_ is not None and q_["k"] == "VarDecl" and q_.get("var") in facts.single_assign(f):
                            for b_ in g.blocks.values():
                                c_ = g.idx.get(b_["cond"]) if b_.get("cond") is not None else None
                                if c_ is None or len(b_["s"]) != 2:
                                    continue
                                n0, neg = _cond.peel(c_)
                                if n0["k"] == "DeclRefExpr" and n0.get("var") == q_["var"]:
                                    blk = [b_]
                                    flip = neg
                    if blk:
                        b = blk[0]
                        t_throw = leads_to_throw(g, b["s"][0], f)
                        f_throw = leads_to_throw(g, b["s"][1], f)
                        if flip:
                            t_throw, f_throw = f_throw, t_throw
                        cond_true_means = ("==%s" % k_) if p["op"] == "==" else ("!=%s" % k_)
                        if p["op"] == "==" and k_ == 1 and f_throw and not t_throw:
                            verdict = "success only when inet_pton returned 1; otherwise throws"
                        elif p["op"] == "!=" and k_ == 1 and t_throw and not f_throw:
                            verdict = "throws unless inet_pton returned 1"
                        elif p["op"] == "==" and k_ == 0 and t_throw and not f_throw and af_const:
                            verdict = "throws when inet_pton returned 0 (not a valid address); -1 impossible for a constant valid family"
                        elif p["op"] == "!=" and k_ == 0 and f_throw and not t_throw and af_const:
                            verdict = "throws when inet_pton returned 0; -1 impossible for a constant valid family"
                if verdict:
                    rep.ok("R4-rejection", key, facts.loc(f, n), verdict)
                else:
                    rep.violation("R4-rejection", key, facts.loc(f, n), "the result of inet_pton does not gate success: invalid text can be accepted")
    # lenient numeric parsers are not validators: %u / strtoul accept signs, blanks, leading zeros and wrap large values
    LENIENT = ("sscanf", "scanf", "fscanf", "strtoul", "strtol", "strtoull", "atoi", "atol", "stoi", "stoul", "stol")
    n_len = 0
    for f in db.functions.values():
        q = f.get("qual", "")
        if not f.get("body") or not (q.startswith("Tins::IPv4Address::") or q.startswith("Tins::IPv6Address::")):
            continue
        for n in facts.fn_nodes(f):
            if n["k"] == "CallExpr" and n.get("cname") in LENIENT:
                n_len += 1
                rep.violation("R4-rejection", "%s:%s" % (q.replace("Tins::", ""), n["cname"]), facts.loc(f, n),
                              "the address text is parsed with %s(): it accepts leading blanks, a sign, leading zeros and values that wrap, "
                              "so strings that are not valid addresses are accepted instead of being rejected with invalid_address" % n["cname"])
    # the C-string constructors hand EVERY non-null pointer to the validating parser: the only condition under which the parser
    # is skipped is the null pointer itself (an empty string is not a valid address and must be rejected, not read as 0.0.0.0)
    for f in sorted(db.functions.values(), key=lambda x: x["id"]):
        if f.get("kind") != "ctor" or f.get("rec") not in ("Tins::IPv4Address", "Tins::IPv6Address") or len(f.get("params", ())) != 1 or \
                (facts.tyi(f, f["params"][0].get("t")) or {}).get("s") != "const char *":
            continue
        pv = f["params"][0]["var"]
        calls_ = [x for x in list(facts.fn_nodes(f)) + [y for i_ in f.get("inits", []) for y in facts.walk(i_["e"])]
                  if x["k"] in ("CallExpr", "CXXMemberCallExpr") and x.get("cname") in ("ip_to_int", "init") and
                  any(y["k"] == "DeclRefExpr" and y.get("var") == pv for y in facts.walk(x))]
        if not calls_:
            continue
        key = "%s(const char*):every-non-null" % f["rec"].split("::")[-1]
        conds = []
        idx_, par_ = facts.index_fn(f)
        for root in [i_["e"] for i_ in f.get("inits", [])] + [f["body"]]:
            for x in facts.walk(root):
                if x["k"] in ("ConditionalOperator", "IfStmt") and any(y is calls_[0] for y in facts.walk(x)):
                    c0 = [c_ for c_ in x["c"] if c_ is not None][0]
                    conds.append(c0)
        extra = None
        for c0 in conds:
            c1 = facts.strip_all(c0)
            if not (c1["k"] == "DeclRefExpr" and c1.get("var") == pv) and \
                    not (c1["k"] == "BinaryOperator" and c1.get("op") in ("!=", "==") and
                         any(facts.strip_all(z).get("var") == pv for z in c1["c"]) and any(facts.cval(z) == 0 for z in c1["c"])):
                extra = c0
        if extra is not None:
            rep.violation("R4-rejection", key, facts.loc(f, extra),
                          "the text is only parsed when `%s`: besides the null pointer, other inputs (the empty string) bypass the "
                          "validating parser and are silently accepted as the all-zero address" % facts.expr_str(extra)[:60])
        else:
            rep.ok("R4-rejection", key, facts.loc(f), "the parser is skipped for the null pointer only")
    if n_pton < 2 and not n_len:
        rep.analysis_broken("expected inet_pton in the IPv4 and IPv6 text constructors, found %d call(s)" % n_pton)
    hw_parser(db, rep)


def contains_node(root, node):
    if root is None:
        return False
    for x in facts.walk(root):
        if x is node:
            return True
    return False


def leads_to_throw(g, b, f, depth=0):
    """does block b unconditionally end in a throw (following straight-line successors)?"""
    seen = set()
    while b is not None and b not in seen and depth < 20:
        seen.add(b)
        if b in g.throws:
            return True
        ss = [s for s in g.blocks[b]["s"] if s is not None]
        if len(ss) != 1:
            return False
        b = ss[0]
        depth += 1
    return False


def hw_parser(db, rep):
    fs = db.fns_named("Tins::Internals::string_to_hw_address")
    if not fs:
        rep.analysis_broken("string_to_hw_address vanished")
        return
    f = fs[0]
    pname = f["params"][0]["var"]
    # the body of the inner (per-group) loop classifies one character: it is EXECUTED for each of the 256 byte values
    # (ieval.trace; a file-local digit helper is executed too), so an if/else-if chain, early exits or a helper
    # function are the same thing to the rule
    chain = None
    for n in facts.fn_nodes(f):
        if n["k"] == "WhileStmt":
            inner = [x for x in facts.walk(n["c"][-1]) if x["k"] in ("WhileStmt", "ForStmt")]
            if inner:
                chain = (inner[0], inner[0]["c"][-1])
    if chain is None:
        rep.analysis_broken("string_to_hw_address: cannot find the per-character loop")
        return
    loop, body = chain
    first_if = loop

    def is_input(e):
        e0 = e
        if e0["k"] == "CXXOperatorCallExpr" and e0.get("op") == "[]" and len(e0["c"]) == 3:
            o = strip(e0["c"][1])
            return o["k"] == "DeclRefExpr" and o.get("var") == pname
        return False
    # the accumulator: the local that receives `(acc << 4) | digit`
    acc = None
    for x in facts.walk(body):
        if x["k"] == "BinaryOperator" and x.get("op") == "=" and strip(x["c"][0])["k"] == "DeclRefExpr" and \
                any(y["k"] == "BinaryOperator" and y.get("op") == "<<" for y in facts.walk(x["c"][1])):
            acc = strip(x["c"][0])["var"]
    if acc is None:
        rep.analysis_broken("string_to_hw_address: the `(tmp << 4) | digit` accumulation was not found")
        return
    accepted, separators, rejected, ignored = {}, [], [], []
    try:
        for cval in range(256):
            env = {"__input__": cval, "__is_input__": is_input, "__db__": db, acc: 0}
            final = {}
            eff = ieval.trace(f, body, env, final=final)
            kinds = [k_ for k_, _ in eff]
            if "throw" in kinds:
                rejected.append(cval)
            elif "break" in kinds:
                separators.append(cval)
            elif any(k_ == "assign" and strip(n_["c"][0]).get("var") == acc for k_, n_ in eff if n_.get("c")):
                accepted[cval] = final.get(acc, 0) & 0xff
            else:
                ignored.append(cval)        # neither a digit nor a separator nor an error: silently skipped
    except ieval.Unknown as e:
        rep.undecided("R4-rejection", "string_to_hw_address:accept-set", facts.loc(f), "character tests outside the evaluator: %s" % e)
        return
    hexd = dict((ord(ch), int(ch, 16)) for ch in "0123456789abcdefABCDEF")
    key = "string_to_hw_address:accept-set"
    extra = sorted(set(accepted) - set(hexd))
    missing = sorted(set(hexd) - set(accepted))
    wrongv = sorted(c for c in accepted if c in hexd and accepted[c] != hexd[c])
    if extra or missing or wrongv or separators != [ord(":")] or ignored:
        what = []
        if ignored:
            what.append("silently skips the bytes %s instead of rejecting them" % ["0x%02x" % c for c in ignored[:8]])
        if extra:
            what.append("accepts the non-hex bytes %s as digits" % ["0x%02x" % c for c in extra[:8]])
        if missing:
            what.append("rejects the hex digits %s" % [chr(c) for c in missing])
        if wrongv:
            what.append("gives %s the value %s" % (repr(chr(wrongv[0])), accepted[wrongv[0]]))
        if separators != [ord(":")]:
            what.append("separator set is %s" % [chr(c) for c in separators])
        rep.violation("R4-rejection", key, facts.loc(f, first_if), "evaluated over all 256 byte values the parser " + "; ".join(what))
    else:
        rep.ok("R4-rejection", key, facts.loc(f, first_if), "accepts exactly 0-9a-fA-F with their values, ':' separates, the other %d byte values throw" % len(rejected))
    # after a group: either end of text or ':' else throw
    g = cfg.FnCFG(f)
    thr = [n for n in facts.fn_nodes(f) if n["k"] == "CXXThrowExpr"]
    rep.extra["hw_parser_classes"] = dict(digits=len(accepted), separators=len(separators), rejected=len(rejected))


# ---------------------------------------------------------------------------
def r5(db, rep):
    # first = addr & mask
    fm = fns(db, lambda i: i.startswith("Tins::AddressRange<") and "::from_mask(" in i)
    for f in fm:
        key = f["id"].split("::from_mask")[0] + ":first"
        cons = [x for x in facts.fn_nodes(f) if x["k"] in ("CXXTemporaryObjectExpr", "CXXConstructExpr") and (x.get("crec") or "").startswith("Tins::AddressRange<")]
        okf = False
        for c in cons:
            a = c.get("c", [])
            if len(a) >= 2:
                # named locals for the two ends are the expressions they were initialised with
                t0, t1 = facts.expr_str(facts.inline_locals(f, a[0], all_types=True)), facts.expr_str(facts.inline_locals(f, a[1], all_types=True))
                p0, p1 = f["params"][0]["name"], f["params"][1]["name"]
                okf = ("&" in t0 and p0 in t0 and p1 in t0 and "last_address_from_mask" in t1 and p0 in t1 and p1 in t1)
        (rep.ok if okf else rep.violation)("R5-mask-ops", key, facts.loc(f),
                                           "first = address & mask, last = last_address_from_mask(address, mask)" if okf else
                                           "from_mask does not build the range from (address & mask, last_address_from_mask(address, mask))")
    if len(fm) < 3:
        rep.analysis_broken("expected from_mask for 3 address types, found %d" % len(fm))
    # operator& and last_address_from_mask: element-wise bit operations
    ADDR = lambda i: ("IPv4Address" in i or "IPv6Address" in i or "HWAddress<6" in i) and i.startswith("Tins::")
    targets = [(lambda i: "::operator&(const" in i and ADDR(i), "&", False),
               (lambda i: i.startswith("Tins::Internals::last_address_from_mask"), "|", True),
               # the classes' own | and ~ (used when last_address_from_mask is written `addr | ~mask` on whole addresses)
               (lambda i: "::operator|(const" in i and ADDR(i), "|", False),
               (lambda i: "::operator~()" in i and ADDR(i), "~", False)]
    n = 0
    for pred, op, neg in targets:
        for f in fns(db, pred):
            n += 1
            key = f["id"].split("(")[0] + "(" + f["id"].split("(")[1][:30]
            # built-in operators on bytes / words, or the address classes' own operators on whole addresses (those are
            # checked as targets of their own); single-assignment locals of any type are read through
            ops = []
            for x in facts.fn_nodes(f):
                if x["k"] == "BinaryOperator" and x["op"] in ("&", "|", "^", "+", "-"):
                    ops.append((x, x["op"], x["c"][1]))
                elif x["k"] == "CXXOperatorCallExpr" and x.get("op") in ("&", "|", "^", "+", "-") and len(x["c"]) == 3 and \
                        ADDR(x.get("callee") or ""):
                    ops.append((x, x["op"], x["c"][2]))
            # the same element-wise operation through std::transform: the operation is the standard functor's
            # (std::bit_and / bit_or / bit_xor / bit_not) or what a file-local function handed over by name computes
            tinv = []
            for x in facts.fn_nodes(f):
                if x["k"] == "CallExpr" and x.get("cname") == "transform" and len(x["c"]) >= 5:
                    fo = facts.strip_all(x["c"][-1])
                    while fo["k"] in ("CXXConstructExpr", "MaterializeTemporaryExpr", "CXXTemporaryObjectExpr", "CXXBindTemporaryExpr", "CXXFunctionalCastExpr") and \
                            len(fo.get("c", [])) == 1:
                        fo = facts.strip_all(fo["c"][0])
                    tn = ((facts.ty(f, fo) or {}).get("s") or "") + (fo.get("crec") or "")
                    for nm_, o_ in (("bit_and", "&"), ("bit_or", "|"), ("bit_xor", "^")):
                        if "std::" + nm_ in tn:
                            ops.append((x, o_, x["c"][3]))
                    if "std::bit_not" in tn:
                        tinv.append(x)
                    fr_ = [y for y in facts.walk(x["c"][-1]) if y["k"] == "DeclRefExpr" and y.get("fn")]
                    if fr_:
                        h_ = db.fn(fr_[0]["fn"])
                        if h_ is not None and h_.get("body") and not h_.get("rec"):
                            for y in facts.fn_nodes(h_):
                                if y["k"] == "BinaryOperator" and y["op"] in ("&", "|", "^", "+", "-"):
                                    ops.append((x, y["op"], y["c"][1]))
                                if y["k"] == "UnaryOperator" and y.get("op") == "~":
                                    tinv.append(x)
            if op == "~":
                inv = [x for x in facts.fn_nodes(f) if x["k"] == "UnaryOperator" and x.get("op") == "~"] + tinv
                others_ = [x for x, o_, _ in ops if not is_index_arith(f, x)]
                if inv and not others_:
                    rep.ok("R5-mask-ops", key, facts.loc(f, inv[0]), "element = ~a")
                else:
                    rep.violation("R5-mask-ops", key, facts.loc(f), "operator~ is not the bitwise complement of every element (found %s)" %
                                  [facts.expr_str(x)[:40] for x in (others_ or [])[:2]])
                continue

            def has_not(e):
                e = facts.inline_locals(f, e, all_types=True)
                return any((y["k"] == "UnaryOperator" and y.get("op") == "~") or
                           (y["k"] == "CXXOperatorCallExpr" and y.get("op") == "~" and ADDR(y.get("callee") or "")) for y in facts.walk(e))
            good = [x for x, o_, rhs_ in ops if o_ == op and (not neg or has_not(rhs_))]
            others = [x for x, o_, rhs_ in ops if x not in good and not is_index_arith(f, x)]
            ops = [x for x, o_, rhs_ in ops]
            if good and not others:
                rep.ok("R5-mask-ops", key, facts.loc(f, good[0]), "element = a %s %sm" % (op, "~" if neg else ""))
            else:
                rep.violation("R5-mask-ops", key, facts.loc(f), "range end is not computed as address %s %smask bit by bit (found %s)" %
                              (op, "NOT " if neg else "", [facts.expr_str(x)[:40] for x in (others or ops)[:2]]))
    if n < 11:
        rep.analysis_broken("expected >= 11 mask helper functions (&, |, ~ of three address types, last_address_from_mask), found %d" % n)


def is_index_arith(f, x):
    t = facts.ty(f, x)
    return bool(t) and t.get("k") == "ptr"


ADDR_BYTES = {"Tins::IPv6Address": 16, "Tins::HWAddress<6>": 6, "Tins::HWAddress<6UL>": 6}


def r6(db, rep):
    """iteration: successor functions and the iterator's end protocol"""
    from vlib import bytewalk
    # (a) byte-buffer carry chains, by abstract interpretation over {pivot, not pivot, any} bytes of the real length
    n = 0
    for fid, f in sorted(db.functions.items()):
        for nm, up in (("increment_buffer<", True), ("decrement_buffer<", False)):
            if not fid.startswith("Tins::Internals::" + nm) or not f.get("body"):
                continue
            T = fid[len("Tins::Internals::" + nm):].split(">(")[0]
            T = T if T in ADDR_BYTES else T + ">" if T + ">" in ADDR_BYTES else T
            size = ADDR_BYTES.get(T)
            key = "%s%s>" % (nm, T.replace("Tins::", ""))
            if size is None:
                rep.analysis_broken("%s: unknown address type %s" % (fid, T))
                continue
            n += 1
            try:
                bad, paths = bytewalk.carry_check(f, f["params"][0]["var"], size, up)
            except bytewalk.Unsupported as e:
                rep.analysis_broken("%s: outside the byte-walk interpreter: %s" % (key, e))
                continue
            if bad:
                rep.violation("R6-successor", key, facts.loc(f), bad)
            else:
                rep.ok("R6-successor", key, facts.loc(f), "all %d carry lengths 0..%d: trailing run wrapped, next byte bumped, rest untouched, "
                       "true only when every byte wrapped (%d abstract paths)" % (size + 1, size, paths))
    if n < 2:
        rep.analysis_broken("increment_buffer / decrement_buffer instantiations not found (%d)" % n)
    # (b) the scalar IPv4 successor: the flag must mean "wrapped to zero" like the generic one
    fs = [f for fid, f in db.functions.items() if fid.startswith("Tins::Internals::increment(Tins::IPv4Address")]
    if not fs or not fs[0].get("body"):
        rep.analysis_broken("Internals::increment(IPv4Address&) vanished")
    else:
        f = fs[0]
        key = "increment(IPv4Address&):flag"
        cands = []
        for x in facts.fn_nodes(f):
            if x["k"] == "BinaryOperator" and x.get("op") in ("==", "!="):
                for a, b in ((x["c"][0], x["c"][1]), (x["c"][1], x["c"][0])):
                    a0 = facts.strip_all(a)
                    if a0["k"] == "UnaryOperator" and a0.get("op") == "++" and facts.cval(b) is not None:
                        cands.append((x, a0, int(facts.cval(b)) & 0xffffffff))
        if len(cands) != 1:
            # not written as `++v == C`: the function is EXECUTED on boundary values (the address is its network-order word,
            # the byte-order helpers swap, IPv4Address(x) / the conversion back are the identity on that word)
            verdict = run_ipv4_step(db, f, +1)
            if verdict[0] == "unknown":
                rep.analysis_broken("increment(IPv4Address&): the wrap test `++v == C` was not recognised (%d candidates) and the function is "
                                    "outside the finite evaluator: %s" % (len(cands), verdict[1]))
            elif verdict[0] == "bad":
                rep.violation("R6-successor", key, facts.loc(f), verdict[1])
            else:
                rep.ok("R6-successor", key, facts.loc(f), verdict[1])
        else:
            x, inc, c = cands[0]
            want = 0xffffffff if inc.get("postfix") else 0
            pol = x["op"] == "=="
            if c == want and pol:
                rep.ok("R6-successor", key, facts.loc(f, x), "`%s`: true exactly when the 32-bit value wrapped to 0" % facts.expr_str(x))
            else:
                rep.violation("R6-successor", key, facts.loc(f, x),
                              "`%s` is true when the NEW address is 0x%08x, not when the increment wrapped past 255.255.255.255: "
                              "end() of a range ending at the all-ones address is (0.0.0.0, flag false), which equals begin() of the range "
                              "0.0.0.0-255.255.255.255 - iterating it visits nothing; the byte-wise increment (IPv6, hardware addresses) "
                              "reports wrap-around" % (facts.expr_str(x), c if not inc.get("postfix") else (c + 1) & 0xffffffff))
    # (c) iterator protocol
    for fid, f in sorted(db.functions.items()):
        rn = f.get("rec") or ""
        if not rn.startswith("Tins::AddressRangeIterator<") or rn.endswith("::end_iterator") or not f.get("body"):
            continue
        T = rn[len("Tins::AddressRangeIterator<"):-1]
        if True:
            short = "AddressRangeIterator<%s>" % T.replace("Tins::", "")
            if f.get("qual", "").endswith("operator=="):
                from vlib import formula
                rets = [x for x in facts.fn_nodes(f) if x["k"] == "ReturnStmt" and x.get("c")]
                ok, why = False, "operator== is not a single return"
                if len(rets) == 1:
                    try:
                        atoms, table = formula.expr_table(f, rets[0]["c"][0])
                        role = {}
                        for a in atoms:
                            if a.count("reached_end_") == 2:
                                role[a] = "flag"
                            elif a.count("address_") == 2:
                                role[a] = "addr"
                        if sorted(role.values()) != ["addr", "flag"] or len(atoms) != 2:
                            why = ("operator== must compare address_ with rhs.address_ and reached_end_ with rhs.reached_end_, it compares %s: "
                                   "end() of a range ending at the all-ones address cannot be told from begin()" % atoms)
                        else:
                            ok = all(res == all(vals) for vals, res in table.items())
                            why = "equal iff both the address and the wrap flag are equal" if ok else \
                                "operator== is not the conjunction of the two comparisons"
                    except Exception as e:
                        rep.analysis_broken("%s::operator==: %s" % (short, e))
                        continue
                (rep.ok if ok else rep.violation)("R6-successor", short + "::operator==", facts.loc(f), why)
            if f.get("qual", "").endswith("operator!="):
                # the loop condition of every range-for: the exact negation of operator== (delegating to it, or written out)
                from vlib import formula
                rets = [x for x in facts.fn_nodes(f) if x["k"] == "ReturnStmt" and x.get("c")]
                ok, why = False, "operator!= is not a single return"
                if len(rets) == 1:
                    try:
                        atoms, table = formula.expr_table(f, rets[0]["c"][0])
                        if len(atoms) == 1 and "this" in atoms[0] and " == " in atoms[0]:
                            ok = all(res == (not vals[0]) for vals, res in table.items())
                            why = "the negation of operator==" if ok else "operator!= is not the negation of operator=="
                        else:
                            role = {}
                            for a in atoms:
                                if a.count("reached_end_") == 2:
                                    role[a] = "flag"
                                elif a.count("address_") == 2:
                                    role[a] = "addr"
                            if sorted(role.values()) != ["addr", "flag"] or len(atoms) != 2:
                                why = "operator!= must be the negation of operator== (address and wrap flag), it tests %s" % atoms
                            else:
                                ok = all(res == (not all(vals)) for vals, res in table.items())
                                why = "different iff the address or the wrap flag differs" if ok else \
                                    "operator!= is not the negation of operator==: a range-for over the range stops early or never"
                    except Exception as e:
                        rep.analysis_broken("%s::operator!=: %s" % (short, e))
                        continue
                (rep.ok if ok else rep.violation)("R6-successor", short + "::operator!=", facts.loc(f), why)
            is_end_ctor = f.get("kind") == "ctor" and len(f["params"]) == 2
            is_preinc = f.get("qual", "").endswith("operator++") and len(f["params"]) == 0
            if is_end_ctor or is_preinc:
                # (value stored, in the body or in the member initialiser list - which runs in declaration order, address_
                # first: the extractor keeps that order in `inits`)
                sets = [x["c"][1] for x in facts.fn_nodes(f) if x["k"] == "BinaryOperator" and x.get("op") == "=" and
                        this_member(x["c"][0]) == "reached_end_"]
                inits = f.get("inits", [])
                for k_, i_ in enumerate(inits):
                    if i_.get("member") == "reached_end_" and i_.get("written") and any(j_.get("member") == "address_" for j_ in inits[:k_]):
                        sets.append(i_["e"])
                good = [x for x in sets if any(y["k"] == "CallExpr" and y.get("cname") == "increment" and
                                               any(this_member(z) == "address_" for z in facts.walk(y)) for y in facts.walk(x))]
                key = short + ("::ctor(end)" if is_end_ctor else "::operator++")
                if good and len(good) == len(sets):
                    rep.ok("R6-successor", key, facts.loc(f), "reached_end_ = increment(address_)")
                else:
                    rep.violation("R6-successor", key, facts.loc(f),
                                  "the wrap flag is not taken from increment(address_): the end sentinel and the running iterator can disagree")


def run_ipv4_step(db, f, step):
    from vlib import ieval
    pv = f["params"][0]["var"]

    def bswap(v):
        v &= 0xffffffff
        return ((v & 0xff) << 24) | ((v & 0xff00) << 8) | ((v >> 8) & 0xff00) | (v >> 24)

    def make_tf(f0):
        def tf(e, env):
            fn_ = env.get("__fn__") or f0
            k = e["k"]
            if k == "CallExpr" and e.get("cname") in ("be_to_host", "host_to_be") and len(e["c"]) == 2:
                return bswap(ieval.ev(fn_, e["c"][1], env))
            if k == "CXXMemberCallExpr" and (e.get("cname") or "").startswith("operator ") and e["c"] and e["c"][0].get("c"):
                return ieval.ev(fn_, e["c"][0]["c"][0], env)
            if k in ("CXXConstructExpr", "CXXTemporaryObjectExpr", "CXXFunctionalCastExpr") and "IPv4Address" in ((facts.ty(fn_, e) or {}).get("s") or ""):
                args = [x for x in e.get("c", []) if x is not None]
                if len(args) == 1:
                    return ieval.ev(fn_, args[0], env) & 0xffffffff
                if not args:
                    return 0
            if k in ("MaterializeTemporaryExpr", "CXXBindTemporaryExpr", "ExprWithCleanups") and e.get("c"):
                return ieval.ev(fn_, e["c"][0], env)
            return None
        return tf
    tf = make_tf(f)

    def on_effect(kind, node, st):
        for x in facts.walk(node):
            if x["k"] == "CXXOperatorCallExpr" and x.get("op") == "=" and len(x["c"]) == 3:
                l = facts.strip_all(x["c"][1])
                if l["k"] == "DeclRefExpr" and l.get("var") == pv:
                    st[pv] = ieval.ev(f, x["c"][2], st) & 0xffffffff
                    return
    try:
        for V in (0, 1, 0xff, 0x100, 0xffff, 0x10000, 0xffffff, 0x1000000, 0x12345678, 0x7fffffff, 0x80000000, 0xfffffffe, 0xffffffff):
            fin = {}
            eff = ieval.trace(f, f["body"], {"__termfn2__": tf, "__db__": db, pv: bswap(V)}, final=fin, on_effect=on_effect)
            rets = [n_ for k_, n_ in eff if k_ == "return"]
            if not rets or not rets[0].get("c"):
                return ("unknown", "no value returned")
            flag = bool(ieval.ev(f, rets[0]["c"][0], fin))
            got = bswap(fin.get(pv))
            want = (V + step) & 0xffffffff
            if got != want:
                return ("bad", "from %s the function steps to 0x%08x, not to 0x%08x" % (hex(V), got, want))
            wrapped = (V == 0xffffffff) if step > 0 else (want == 0)
            if flag != wrapped:
                return ("bad", "from 0x%08x the wrap flag is %s: it must be true exactly when the 32-bit value wrapped to 0 (like the "
                               "byte-wise increment of IPv6 / hardware addresses); end() and begin() of ranges touching "
                               "255.255.255.255 become indistinguishable otherwise" % (V, flag))
    except ieval.Unknown as e:
        return ("unknown", str(e))
    return ("ok", "executed on 13 boundary values: successor exact, flag true exactly on the wrap to 0")


def this_member(n):
    n = strip(n)
    if n["k"] == "MemberExpr" and n.get("isfield") and n.get("c") and strip(n["c"][0])["k"] == "CXXThisExpr":
        return n["member"]
    return None


def r7(db, rep):
    from vlib import bytewalk, ieval
    # IPv4: one expression of the prefix length, evaluated for all 33 values
    fs = [f for fid, f in db.functions.items() if fid.startswith("Tins::IPv4Address::from_prefix_length(") and f.get("body")]
    if not fs:
        rep.analysis_broken("IPv4Address::from_prefix_length vanished")
    else:
        f = fs[0]
        key = "IPv4Address::from_prefix_length"
        pv = f["params"][0]["var"]

        def bswap(v):
            v &= 0xffffffff
            return ((v & 0xff) << 24) | ((v & 0xff00) << 8) | ((v >> 8) & 0xff00) | (v >> 24)

        def tf(x, env):
            if x["k"] == "CallExpr" and x.get("cname") in ("host_to_be", "be_to_host") and len(x["c"]) == 2:
                return bswap(ieval.ev(f, x["c"][1], env))
            return None
        bad = None
        try:
            for p_ in range(33):
                try:
                    v = ieval.run_body(f, f["body"], {"__termfn2__": tf, pv: p_})
                except ieval.Undefined as e:
                    bad = "prefix length %d: undefined behaviour: %s" % (p_, e)
                    break
                if v is None:
                    raise ieval.Unknown("no integer is returned")
                want = bswap((0xffffffff << (32 - p_)) & 0xffffffff) if p_ else 0
                if (v & 0xffffffff) != want:
                    bad = "prefix length %d gives the network-order word 0x%08x, expected 0x%08x" % (p_, v & 0xffffffff, want)
                    break
        except ieval.Unknown as e:
            rep.analysis_broken("%s: outside the finite evaluator: %s" % (key, e))
            bad = False
        if bad:
            rep.violation("R7-prefix-mask", key, facts.loc(f), bad)
        elif bad is None:
            rep.ok("R7-prefix-mask", key, facts.loc(f), "all 33 prefix lengths give the exact mask; no shift count reaches 32")
    # byte-wise builders
    for pref, mx, what in (("Tins::IPv6Address::from_prefix_length(", 128, "IPv6Address::from_prefix_length"),
                           ("Tins::operator/<6", 48, "operator/(HWAddress<6>, int)")):
        fs = [f for fid, f in db.functions.items() if fid.startswith(pref) and f.get("body")]
        if not fs:
            rep.analysis_broken("%s vanished" % what)
            continue
        f = fs[0]
        ip = [p_ for p_ in f["params"] if (facts.tyi(f, p_.get("t")) or {}).get("k") == "int"]
        if not ip:
            rep.analysis_broken("%s: integer parameter not found" % what)
            continue
        try:
            bad, n = bytewalk.prefix_mask_check(f, ip[0]["var"], {"Tins::IPv6Address": 16, "Tins::HWAddress<6>": 6, "Tins::HWAddress<6UL>": 6}, mx)
        except bytewalk.Unsupported as e:
            rep.analysis_broken("%s: outside the byte-walk interpreter: %s" % (what, e))
            continue
        if bad:
            rep.violation("R7-prefix-mask", what, facts.loc(f), bad)
        else:
            rep.ok("R7-prefix-mask", what, facts.loc(f), "all %d prefix lengths give the exact mask (%d paths)" % (mx + 1, n))


NTOP_MIN = {10: 46, 2: 16}        # AF_INET6 -> INET6_ADDRSTRLEN, AF_INET -> INET_ADDRSTRLEN (POSIX)


def r8(db, rep):
    n = 0
    for fid, f in sorted(db.functions.items()):
        if not f.get("body") or not f["file"].startswith("src/"):
            continue
        for x in facts.fn_nodes(f):
            if x["k"] != "CallExpr" or x.get("cname") != "inet_ntop" or len(x["c"]) != 5:
                continue
            n += 1
            key = "%s:inet_ntop#%d" % (f["qual"].replace("Tins::", ""), n)
            af = facts.cval(x["c"][1])
            buf = facts.strip_all(x["c"][3])
            szv = facts.cval(x["c"][4])
            need = NTOP_MIN.get(af)
            decl = None
            if buf["k"] == "DeclRefExpr":
                for d in facts.fn_nodes(f):
                    if d["k"] == "VarDecl" and d.get("var") == buf.get("var"):
                        decl = d
            t = (facts.tyi(f, decl.get("t")) if decl else None) or {}
            cap = t.get("n") if t.get("k") == "arr" else None
            if cap is None and t.get("k") == "arr" and t.get("size"):
                cap = t["size"]
            if need is None or cap is None or szv is None:
                rep.analysis_broken("%s: address family / buffer / size argument not recognised (af=%s, capacity=%s, size=%s)" % (key, af, cap, szv))
                continue
            if cap < need:
                rep.violation("R8-ntop-buffer", key, facts.loc(f, x),
                              "the text buffer holds %d bytes, the longest textual form needs %d (terminator included): inet_ntop fails with "
                              "ENOSPC for such addresses and to_string() throws" % (cap, need))
            elif szv > cap:
                rep.violation("R8-ntop-buffer", key, facts.loc(f, x), "inet_ntop is told the buffer has %d bytes, it has %d" % (szv, cap))
            elif szv < need:
                rep.violation("R8-ntop-buffer", key, facts.loc(f, x), "inet_ntop is given a size of %d, the longest textual form needs %d" % (szv, need))
            else:
                rep.ok("R8-ntop-buffer", key, facts.loc(f, x), "%d-byte buffer, size argument %d >= %d" % (cap, szv, need))
    if n < 1:
        rep.analysis_broken("no inet_ntop call found")


def r9(db, rep):
    from vlib import ieval
    fs = [f for fid, f in db.functions.items() if fid.startswith("Tins::Internals::hw_address_to_string(") and f.get("body")]
    if not fs:
        rep.analysis_broken("Internals::hw_address_to_string vanished")
        return
    f = fs[0]
    # the loop body is EXECUTED for every byte value (first element: no separator): the characters appended to the output are
    # the two hexadecimal digits of the byte, high nibble first - whether they come from arithmetic on the nibble, a lookup
    # table or a helper
    loops = [x for x in facts.fn_nodes(f) if x["k"] in ("ForStmt", "WhileStmt")]
    if len(loops) != 1:
        rep.analysis_broken("hw_address_to_string: expected one loop over the bytes, found %d" % len(loops))
        return
    loop = loops[0]
    body = loop["c"][-1]
    pv = f["params"][0]["var"]
    idxv = None
    for x in facts.walk(loop):
        if x["k"] == "VarDecl" and x.get("c") and facts.cval(x["c"][0]) == 0:
            idxv = x["var"]
    for d in facts.fn_nodes(f):
        if d["k"] == "VarDecl" and d.get("c") and facts.cval(d["c"][0]) == 0 and (facts.tyi(f, d.get("t")) or {}).get("k") == "int" and idxv is None:
            idxv = d["var"]

    def is_input(e):
        if e["k"] == "ArraySubscriptExpr":
            return facts.strip_all(e["c"][0]).get("var") == pv
        if e["k"] == "UnaryOperator" and e.get("op") == "*":
            return any(y["k"] == "DeclRefExpr" and y.get("var") == pv for y in facts.walk(e))
        return False
    bad = {"high": None, "low": None}
    try:
        for bval in range(256):
            out = []

            def on_effect(kind, node, st):
                for y in facts.walk(node):
                    if y["k"] == "CXXOperatorCallExpr" and y.get("cname") == "operator+=" and len(y["c"]) == 3:
                        a_ = facts.strip_all(y["c"][2])
                        if a_["k"] == "StringLiteral":
                            out.extend(ord(ch_) for ch_ in a_.get("str", ""))
                        else:
                            out.append(ieval.ev(f, y["c"][2], st) & 0xff)
                        return
                    if y["k"] == "CXXMemberCallExpr" and y.get("cname") == "push_back" and len(y["c"]) == 2:
                        out.append(ieval.ev(f, y["c"][1], st) & 0xff)
                        return
            env = {"__input__": bval, "__is_input__": is_input, "__db__": db}
            if idxv is not None:
                env[idxv] = 0
            ieval.trace(f, body, env, on_effect=on_effect)
            want = "%02x" % bval
            got = "".join(chr(c_) for c_ in out).lower()
            if len(out) != 2:
                raise ieval.Unknown("byte 0x%02x appends %d character(s)" % (bval, len(out)))
            if got[0] != want[0] and not bad["high"]:
                bad["high"] = "nibble value %d is printed as %r instead of %r: the textual form no longer parses back to the same address" % (
                    bval >> 4, got[0], want[0])
            if got[1] != want[1] and not bad["low"]:
                bad["low"] = "nibble value %d is printed as %r instead of %r: the textual form no longer parses back to the same address" % (
                    bval & 15, got[1], want[1])
            if got == want[::-1] and want[0] != want[1]:
                bad["high"] = bad["low"] = "the nibbles are appended low then high (byte 0x%s is printed %s)" % (want, got)
    except ieval.Unknown as e:
        rep.analysis_broken("hw_address_to_string: outside the finite evaluator: %s" % e)
        return
    for which in ("high", "low"):
        key = "hw_address_to_string:%s-nibble" % which
        if bad[which]:
            rep.violation("R9-hex-printer", key, facts.loc(f, loop), bad[which])
        else:
            rep.ok("R9-hex-printer", key, facts.loc(f, loop), "all 256 byte values print their %s digit; appended high nibble first" % which)


def r11(db, rep):
    n = 0
    for fid, f in sorted(db.functions.items()):
        rec = f.get("rec") or ""
        if not rec.startswith("Tins::AddressRangeIterator<") or not f.get("body") or f.get("name") not in ("operator++", "operator--") or \
                len(f.get("params", ())) != 1:
            continue
        n += 1
        key = "%s::%s(int)" % (rec.replace("Tins::", "")[:60], f["name"])
        g = cfg.FnCFG(f)
        selfcalls, steps = [], []
        for x in facts.fn_nodes(f):
            if x["k"] in ("CXXOperatorCallExpr", "CXXMemberCallExpr") and x.get("callee"):
                if x["callee"] == fid:
                    selfcalls.append(x)
                else:
                    h = db.fn(x["callee"])
                    if h is not None and h.get("rec") == rec and h.get("name") == f["name"] and not h.get("params"):
                        steps.append(x)
            if x["k"] == "CallExpr" and x.get("cname") in ("increment", "decrement"):
                steps.append(x)
        rets = [x for x in facts.fn_nodes(f) if x["k"] == "ReturnStmt" and x.get("c")]
        copies = [x["var"] for x in facts.fn_nodes(f) if x["k"] == "VarDecl" and x.get("c") and
                  any(y["k"] == "CXXThisExpr" for y in facts.walk(x["c"][0]))]
        if selfcalls and any(g.reaches_exit_avoiding((g.entry, -1), [g.pos(x)], normal_only=True) is None for x in selfcalls):
            rep.violation("R11-post-increment", key, facts.loc(f, selfcalls[0]),
                          "%s(int) calls itself on every path (`(*this)%s` inside the post-%s): `it%s` recurses until the stack is "
                          "exhausted, a loop stepping an address range that way never terminates"
                          % (f["name"], f["name"][-2:], "increment" if "+" in f["name"] else "decrement", f["name"][-2:]))
        elif not steps or any(g.reaches_exit_avoiding((g.entry, -1), [g.pos(x) for x in steps], normal_only=True) is not None for _ in (0,)):
            rep.violation("R11-post-increment", key, facts.loc(f), "%s(int) does not step the iterator (through %s() / the successor function) on every path"
                          % (f["name"], f["name"]))
        elif not rets or not all(facts.strip_all(facts.inline_locals(f, r_["c"][0], all_types=False)).get("var") in copies or
                                 any(y["k"] == "DeclRefExpr" and y.get("var") in copies for y in facts.walk(r_["c"][0])) for r_ in rets):
            rep.violation("R11-post-increment", key, facts.loc(f), "%s(int) does not return the copy taken before the step" % f["name"])
        else:
            rep.ok("R11-post-increment", key, facts.loc(f), "copy, step through the pre-form, return the copy")
    if n < 3:
        rep.analysis_broken("only %d post-increment operators of AddressRangeIterator found (3 address types expected)" % n)


def r10(db, rep):
    from vlib import ieval
    N = 6
    fs = [f for f in db.functions.values() if (f.get("rec") or "") in ("Tins::HWAddress<6>", "Tins::HWAddress<6UL>") and f.get("body") and not f.get("implicit")]
    n = 0
    seen = {}
    for f in sorted(fs, key=lambda x: x["id"]):
        for lp in facts.fn_nodes(f):
            if lp["k"] != "ForStmt" or len(lp["c"]) < 5:
                continue
            init, cnd, inc, body = lp["c"][0], lp["c"][2], lp["c"][3], lp["c"][4]
            iv = [x for x in facts.walk(init)] if init is not None else []
            decl = [x for x in iv if x["k"] == "VarDecl" and x.get("c")]
            if not decl or cnd is None:
                continue
            v = decl[0]["var"]
            # indexes a byte array with the loop variable?
            idx = [x for x in facts.walk(body) if x["k"] in ("ArraySubscriptExpr", "CXXOperatorCallExpr") and
                   any(y["k"] == "DeclRefExpr" and y.get("var") == v for y in facts.walk(x["c"][-1]))]
            if not idx:
                continue
            n += 1
            nm = f["qual"].split("::")[-1]
            seen[nm] = seen.get(nm, 0) + 1
            key = "HWAddress<6>::%s:loop#%d" % (nm, seen[nm])
            try:
                start = ieval.ev(f, decl[0]["c"][0], {})
                visited = []
                i = start
                while len(visited) <= N + 2 and ieval.ev(f, cnd, {v: i}):
                    visited.append(i)
                    i += 1
            except ieval.Unknown as e:
                rep.analysis_broken("%s: loop outside the finite evaluator: %s" % (key, e))
                continue
            upto = [x for x in facts.walk(cnd) if x["k"] == "DeclRefExpr" and x.get("var") != v]
            bounded_by_other = any(not ("v" in x) for x in upto)
            if visited == list(range(N)) or (bounded_by_other and visited and visited[0] == 0 and visited[-1] < N):
                rep.ok("R10-hw-byte-loops", key, facts.loc(f, lp), "visits %s" % (visited if len(visited) <= N else "0..%d" % (N - 1)))
            else:
                rep.violation("R10-hw-byte-loops", key, facts.loc(f, lp),
                              "the loop visits positions %s of a %d-octet address: %s" % (
                                  visited[:9], N, "it reads / writes past the end" if visited and visited[-1] >= N else "octets are left out of the operation"))
        # the same sweep written as a bulk operation: memset(buf, v, LEN) / std::fill_n(buf, LEN, v) / std::fill(buf, buf + LEN, v)
        for x in facts.fn_nodes(f):
            if x["k"] != "CallExpr" or x.get("cname") not in ("memset", "fill_n", "fill") or len(x["c"]) != 4:
                continue
            a = x["c"][1:]
            try:
                if x["cname"] == "memset":
                    ln = ieval.ev(f, a[2], {})
                elif x["cname"] == "fill_n":
                    ln = ieval.ev(f, a[1], {})
                else:
                    e1 = facts.strip_all(a[1])
                    if not (e1["k"] == "BinaryOperator" and e1.get("op") == "+" and facts.expr_str(facts.strip_all(e1["c"][0])) == facts.expr_str(facts.strip_all(a[0]))):
                        continue
                    ln = ieval.ev(f, e1["c"][1], {})
            except ieval.Unknown:
                continue
            n += 1
            nm = f["qual"].split("::")[-1]
            seen[nm] = seen.get(nm, 0) + 1
            key = "HWAddress<6>::%s:loop#%d" % (nm, seen[nm])
            if ln == N:
                rep.ok("R10-hw-byte-loops", key, facts.loc(f, x), "%s over 0..%d" % (x["cname"], N - 1))
            else:
                rep.violation("R10-hw-byte-loops", key, facts.loc(f, x),
                              "%s covers %d octet(s) of a %d-octet address: %s" % (
                                  x["cname"], ln, N, "it writes past the end" if ln > N else "octets are left out of the operation"))
    if n < 4:
        rep.analysis_broken("only %d byte loops found in HWAddress<6>" % n)
