"""C04 - what is set through the API is what a parser of the wire bytes gets back (DESIGN.md C04; structural part).

 R1 codec-symmetry  for every typed option whose setter builds the payload with an OutputMemoryStream and whose decoder
                    (T::from_option) reads it with an InputMemoryStream: at every byte offset of the fixed part both sides
                    agree on item width and byte order (a multi-byte integer written big-endian is read big-endian, a
                    literal zero is neutral, single bytes and byte arrays are neutral), and the decoder's length guard
                    accepts the length the encoder produces.
 R2 same-code       the setter and the getter of the same name use the same option code.
 R3 cache-pair      = C02.R2: add/remove keep the cached serialised size in step with the list (same element, before erase).
 R4 lookup-shape    search is first-match from begin() over the container the serialiser iterates; remove erases exactly
                    the iterator the search returned.
 R6 length-byte     IPv6 extension headers: 8 * (length byte + 1) equals the bytes written (2 + data + padding) for every
                    data size (finite evaluation of the three expressions involved; affine with period 8).
 R7 element-loop    a parsing loop over options/elements keeps going while one element's fixed part (the constant
                    bytes it reads first) still fits: a last element with an empty payload is parsed back.
 R8 restores        a serialiser that edits elements of an option/extension list for the wire image (IPv6's chain of
                    next-header values) restores every element afterwards from a copy saved before the first edit.
 R5 storage-arms    every member of PDUOption chooses between the inline buffer and the heap pointer with the same
                    predicate on the stored size.
"""
from vlib import facts, cfg, ieval, streamfx as sx
from vlib.facts import strip
from rules import c02

PID = "C04"


def run(db, rep, tier):
    rep.rule("R1-codec-symmetry", "encoder and decoder of a typed option agree on width and byte order at every offset; the decoder accepts the encoder's length", 20)
    rep.rule("R2-same-code", "setter and getter of one name use one option code", 40)
    rep.rule("R3-cache-pair", "every mutation of an option/tag list is paired with the adjustment of its cached size (C02.R2)", 20)
    rep.rule("R4-lookup-shape", "first-match search from begin(); remove erases the iterator the search returned", 8)
    rep.rule("R5-storage-arms", "PDUOption members agree on when the payload lives inline", 6)
    rep.rule("R7-element-loop", "an option/element parsing loop continues as long as one element's fixed part fits", 6)
    rep.rule("R8-serialise-restores", "a serialiser that edits list elements for the wire image restores them from a saved copy", 1)
    rep.rule("R6-length-byte", "the IPv6 extension-header length byte announces exactly the bytes written", 1)
    r1(db, rep)
    r2(db, rep)
    c02.r2(db, rep, "R3-cache-pair")
    r4(db, rep)
    r5(db, rep)
    r6(db, rep)
    r7(db, rep)
    r8(db, rep)
    rep.rule("R9-skip-agreement", "802.11 management subtypes skip, before their fixed parameters, exactly the bytes the management base "
                                  "class read and writes (its header_size(), fourth address included)", 1)
    r9(db, rep)
    from rules import c04_opts
    c04_opts.run(db, rep)
    rep.rule("R11-rebuilt-and-counted", "DHCP rebuilds its option area from the option list on every serialisation (no size-based cache "
                                        "test); RSNInformation writes, in front of each suite list, that list's own element count", 3)
    r11(db, rep)
    rep.rule("R12-pad-tolerance", "an encoder that rounds its option up to an even length has a decoder that accepts the pad octet "
                                  "(802.11 Country element)", 1)
    r12(db, rep)
    rep.explanation = ("Structural part of C04: item-level agreement of typed option encoders and decoders (R1), one code per accessor pair (R2), "
                       "cached sizes follow add/remove (R3), first-match lookup and exact removal (R4), one storage predicate in PDUOption (R5). "
                       "NOT decided: the shadow-model clause over arbitrary edit histories, computed length bytes (IPv6 length_field()/8, DNS "
                       "names), variable-length tails of codecs beyond their shape, value ranges.")


def ops_of(db, f, K):
    fx = sx.Fx(db, K)
    ctx = sx.Ctx(fx, f, cls=K)
    fx.exec_list(ctx, f["body"].get("c", []), {"§ret": None})
    return fx


def layout(ops):
    """[(offset, size, kind, endian, zero)] for the constant-size prefix of a stream's operations"""
    out = []
    off = 0
    for o in ops:
        amt = o[3]
        if o[1] == "rest" or not amt.is_const():
            break
        sz = amt.k
        opn = o[5] if len(o) > 5 else o[1]
        kind = o[7] if len(o) > 7 else "bytes"
        zero = len(o) > 6 and o[6] == 0
        endian = "be" if opn.endswith("_be") else "le" if opn.endswith("_le") else "raw"
        if o[1] in ("skip", "fill"):
            out.append((off, sz, "skip", "raw", True))
        else:
            out.append((off, sz, kind, endian, zero))
        off += sz
    return out, off, len(out) == len(ops)


def r1(db, rep):
    decs = {}
    for fid, f in db.functions.items():
        if f["qual"].endswith("::from_option") and f.get("body") and f.get("rec"):
            decs[f["rec"]] = f
    if len(decs) < 30:
        rep.analysis_broken("only %d from_option decoders found" % len(decs))
    n_pairs = 0
    for fid, f in sorted(db.functions.items()):
        if not f.get("body") or len(f["params"]) != 1 or f["kind"] != "method" or fid.endswith(" const") or not (f.get("rec") or "").startswith("Tins::"):
            continue
        t = facts.tyi(f, f["params"][0].get("t")) or {}
        while t.get("k") == "ref":
            t = t.get("to") or {}
        if t.get("k") != "rec" or t.get("name") not in decs:
            continue
        d = decs[t["name"]]
        key = "%s(%s)" % (f["qual"].replace("Tins::", ""), t["name"].split("::")[-1])
        try:
            fe = ops_of(db, f, f["rec"])
            fd = ops_of(db, d, None)
        except sx.Opaque as e:
            rep.undecided("R1-codec-symmetry", key, facts.loc(f), "codec outside the E-STREAMFX language: %s" % e)
            continue
        eo = [o for o in fe.oplog if o[0].startswith("aux")]
        do = [o for o in fd.oplog]
        if not eo or not do:
            continue        # one side does not use a cursor (pointer arithmetic / containers): shape not comparable
        n_pairs += 1
        E, elen, ecomplete = layout(eo)
        D, dlen, dcomplete = layout(do)
        bad = None
        # every multi-byte integer item of one side must meet an item of the same extent and byte order on the other
        def find(items, off):
            for it in items:
                if it[0] == off:
                    return it
            return None
        for a, b, who in ((E, D, ("written", "read")), (D, E, ("read", "written"))):
            blen = dlen if b is D else elen
            for off, sz, kind, endian, zero in a:
                if sz < 2 or kind == "skip" or off + sz > blen:
                    continue
                o2 = find(b, off)
                if o2 is None:
                    # covered by a skip / by single bytes on the other side?
                    cover = [x for x in b if x[0] <= off < x[0] + x[1]]
                    if cover and (cover[0][2] == "skip" or cover[0][1] == 1):
                        continue
                    if cover and cover[0][3] == endian and endian in ("be", "le"):
                        cv = cover[0]
                        tl = [x for x in a if cv[0] <= x[0] < cv[0] + cv[1]]
                        if sum(x[1] for x in tl) == cv[1] and all(x[3] == endian for x in tl):
                            continue    # part of a tiling of one wider integer of the same byte order
                    if kind == "bytes":
                        continue
                    bad = "the %d-byte item %s at offset %d has no counterpart at that offset on the other side" % (sz, who[0], off)
                    break
                if o2[2] == "skip":
                    continue
                if o2[1] != sz:
                    if kind == "bytes" and o2[2] == "bytes":
                        continue
                    # the same extent tiled by several integers of the same byte order (e.g. a 64-bit field read as two halves)
                    tiles = [x for x in b if off <= x[0] < off + sz]
                    if tiles and sum(x[1] for x in tiles) == sz and all(x[3] == endian and endian in ("be", "le") for x in tiles):
                        continue
                    tiles2 = [x for x in a if o2[0] <= x[0] < o2[0] + o2[1]]
                    if tiles2 and sum(x[1] for x in tiles2) == o2[1] and all(x[3] == o2[3] and o2[3] in ("be", "le") for x in tiles2):
                        continue
                    bad = "offset %d: %d byte(s) %s, %d byte(s) %s" % (off, sz, who[0], o2[1], who[1])
                    break
                if zero or o2[4]:
                    continue
                e1 = endian if kind == "int" or endian != "raw" else "bytes"
                e2 = o2[3] if o2[2] == "int" or o2[3] != "raw" else "bytes"
                if e1 != e2 and not (e1 == "bytes" and e2 == "bytes"):
                    bad = "offset %d: the %d-byte field is %s as %s but %s as %s" % (off, sz, who[0], e1, who[1], e2)
                    break
            if bad:
                break
        # length guard of the decoder
        if not bad and ecomplete:
            g = guard_accepts(db, d, elen)
            if g is False:
                bad = "the encoder produces %d byte(s), which the decoder's length check rejects" % elen
        if bad:
            rep.violation("R1-codec-symmetry", key, facts.loc(f), "%s vs %s: %s" % (f["qual"].split("::")[-1], d["qual"].replace("Tins::", ""), bad))
        else:
            rep.ok("R1-codec-symmetry", key, facts.loc(f), "%d encoder item(s) / %d decoder item(s) agree over %d fixed byte(s)" % (len(E), len(D), min(elen, dlen)))
    rep.extra["codec_pairs"] = n_pairs


def guard_accepts(db, d, length):
    """evaluate the decoder's `if (cond) throw` guards with opt.data_size() = length; False when one of them throws"""
    pn = d["params"][0]["name"] if d["params"] else "opt"
    for n in d["body"].get("c", []):
        if n["k"] != "IfStmt":
            continue
        real = [x for x in n["c"] if x is not None]
        if not any(x["k"] == "CXXThrowExpr" for x in facts.walk(real[1])):
            continue

        def termfn(e):
            if e["k"] == "CXXMemberCallExpr" and e.get("cname") == "data_size":
                return length
            return None
        try:
            v = ieval.ev(d, real[0], {"__termfn__": termfn, "__db__": db}, {})
        except ieval.Unknown:
            return None
        if v:
            return False
    return True


# ---------------------------------------------------------------------------
def code_of(f, n):
    v = facts.cval(n)
    if v is not None:
        for x in facts.walk(n):
            if x["k"] == "DeclRefExpr" and x.get("enumc"):
                return int(v), x["enumc"].split("::")[-1]
        return int(v), str(int(v))
    return None


def r2(db, rep):
    by = {}
    for fid, f in db.functions.items():
        rec = f.get("rec") or ""
        if not rec.startswith("Tins::") or f["kind"] != "method" or not f.get("body"):
            continue
        nm = f["qual"].split("::")[-1]
        by.setdefault((rec, nm), []).append(f)
    n = 0
    for (rec, nm), fs in sorted(by.items()):
        setters = [f for f in fs if not f["id"].endswith(" const") and len(f["params"]) >= 1]
        getters = [f for f in fs if f["id"].endswith(" const") and len(f["params"]) == 0]
        if not setters or not getters:
            continue
        sc = set()
        for f in setters:
            for x in facts.fn_nodes(f):
                if x["k"] in ("CXXConstructExpr", "CXXTemporaryObjectExpr") and (x.get("crec") or "").startswith("Tins::PDUOption<") and x.get("c"):
                    c = code_of(f, x["c"][0])
                    if c:
                        sc.add(c)
                if x["k"] in ("CallExpr", "CXXMemberCallExpr") and x.get("cname") in ("add_addr_list", "add_integral_option", "add_tagged_option") and len(x["c"]) >= 2:
                    for a in x["c"][1:3]:
                        c = code_of(f, a)
                        if c and (facts.ty(f, facts.strip_all(a)) or {}).get("k") == "enum":
                            sc.add(c)
        gc = set()
        for f in getters:
            for x in facts.fn_nodes(f):
                if x["k"] in ("CallExpr", "CXXMemberCallExpr") and x.get("cname") in ("search_and_convert", "search_option", "do_find_option", "generic_search", "search_addr_list") and len(x["c"]) >= 2:
                    c = code_of(f, x["c"][1])
                    if c:
                        gc.add(c)
        if not sc or not gc:
            continue
        n += 1
        key = "%s::%s" % (rec.replace("Tins::", ""), nm)
        if sc == gc or (len(gc) == 1 and gc <= sc) or (len(sc) == 1 and sc <= gc):
            rep.ok("R2-same-code", key, facts.loc(setters[0]), "code %s on both sides" % sorted(x[1] for x in sc & gc))
        else:
            rep.violation("R2-same-code", key, facts.loc(getters[0]), "%s(...) stores option %s but %s() looks up %s: what was set cannot be read back"
                          % (nm, sorted(x[1] for x in sc), nm, sorted(x[1] for x in gc)))


# ---------------------------------------------------------------------------
def r4(db, rep):
    # the two generic searches
    for q in ("Tins::Internals::find_option", "Tins::Internals::find_option_const"):
        fs = [f for f in db.functions.values() if f["qual"].startswith(q) and f.get("body") and "<" in f["id"]]
        if not fs:
            rep.analysis_broken("%s has no instantiation" % q)
            continue
        f = fs[0]
        key = q.split("::")[-1]
        # a first-match forward scan, however the loop is written: the iterator starts at begin(), the loop goes on only
        # while it != end() and stops at the first element whose option() equals the key - by a break / return in the
        # body under `==`, or by the negated test in the loop condition - and the only step is ++it
        from vlib import cond as _cond
        loops = [n for n in facts.fn_nodes(f) if n["k"] in ("ForStmt", "WhileStmt")]
        ok = False
        if len(loops) == 1:
            l = loops[0]
            parts = [x for x in l["c"] if x is not None]
            body = parts[-1]
            lc = l["c"][-3] if l["k"] == "ForStmt" and len(l["c"]) >= 4 else ([x for x in l["c"][:-1] if x is not None] or [None])[-1]
            heads = " ".join(facts.expr_str(x) for x in facts.fn_nodes(f) if x["k"] == "VarDecl" and x.get("c")) + " " + \
                " ".join(facts.expr_str(x) for x in parts[:-1])
            ctxt = facts.expr_str(facts.inline_locals(f, lc, all_types=True)) if lc is not None else ""
            has_break = any(x["k"] in ("BreakStmt", "ReturnStmt") for x in facts.walk(body))
            eq_body = any(x["k"] in ("BinaryOperator", "CXXOperatorCallExpr") and x.get("op") == "==" and "option()" in facts.expr_str(x) for x in facts.walk(body))
            ne_cond = False
            if lc is not None:
                for op, a_, b_ in _cond.facts_of(f, lc, True):
                    t_ = facts.expr_str(a_) + (facts.expr_str(b_) if b_ is not None else "")
                    if "option()" not in t_:
                        continue
                    a0 = facts.strip_all(a_)
                    if op == "!=" or (op == "false" and a0["k"] in ("CXXOperatorCallExpr", "BinaryOperator") and a0.get("op") == "==") or \
                            (op == "true" and a0["k"] in ("CXXOperatorCallExpr", "BinaryOperator") and a0.get("op") == "!="):
                        ne_cond = True
            steps = [x for x in facts.fn_nodes(f) if (x["k"] in ("CXXOperatorCallExpr", "UnaryOperator") and x.get("op") in ("++", "--")) or
                     (x["k"] in ("CXXOperatorCallExpr", "CompoundAssignOperator") and x.get("op") in ("+=", "-="))]
            fwd = bool(steps) and all(x.get("op") == "++" for x in steps)
            ok = "begin()" in heads and "end()" in ctxt and fwd and ((has_break and eq_body) or ne_cond)
        (rep.ok if ok else rep.violation)("R4-lookup-shape", key, facts.loc(f),
                                          "forward scan from begin(), stops at the first element whose option() equals the key (%d instantiations)" % len(fs)
                                          if ok else "the generic option search is no longer a first-match scan from begin()")
    # remove_option of every class
    n = 0
    for fid, f in sorted(db.functions.items()):
        if f["qual"].split("::")[-1] not in ("remove_option", "remove_tag") or not f.get("body") or not (f.get("rec") or "").startswith("Tins::"):
            continue
        n += 1
        key = f["qual"].replace("Tins::", "")
        itv = None
        for v in facts.fn_nodes(f):
            if v["k"] == "VarDecl" and v.get("c") and any(x["k"] == "CXXMemberCallExpr" and (x.get("cname") or "").startswith("search_") for x in facts.walk(v["c"][0])):
                itv = v
        erases = [x for x in facts.fn_nodes(f) if x["k"] == "CXXMemberCallExpr" and x.get("cname") == "erase"]
        if itv is None or not erases:
            inner = [x for x in facts.fn_nodes(f) if x["k"] == "CXXMemberCallExpr" and x.get("cname") in ("remove_option", "internal_remove_option")]
            if inner:
                rep.ok("R4-lookup-shape", key, facts.loc(f), "delegates to %s" % inner[0].get("cname"))
            else:
                rep.violation("R4-lookup-shape", key, facts.loc(f), "remove does not search and erase")
            continue
        e = erases[0]
        refs = [x for x in facts.walk(e["c"][1]) if x["k"] == "DeclRefExpr" and x.get("var")] if len(e["c"]) == 2 else []
        # a local copy of the iterator is the same iterator
        hops = 0
        while len(refs) == 1 and refs[0].get("var") != itv["var"] and hops < 4:
            hops += 1
            dv = [v for v in facts.fn_nodes(f) if v["k"] == "VarDecl" and v.get("var") == refs[0].get("var") and v.get("c")]
            if not dv:
                break
            inner = [x for x in facts.walk(dv[0]["c"][0]) if x["k"] == "DeclRefExpr" and x.get("var")]
            if len(inner) != 1 or any(x["k"] in ("BinaryOperator", "CXXOperatorCallExpr") and x.get("op") in ("+", "-", "++", "--") for x in facts.walk(dv[0]["c"][0])):
                break
            refs = inner
        same = len(refs) == 1 and refs[0].get("var") == itv["var"] and not any(
            x["k"] in ("BinaryOperator", "CXXOperatorCallExpr") and x.get("op") in ("+", "-", "++", "--") for x in facts.walk(e["c"][1]))
        g = cfg.FnCFG(f)
        from vlib import cond
        guarded = any(op == "!=" and r is not None and "end()" in (facts.expr_str(l) + facts.expr_str(r)) for op, l, r in cond.guards_facts(g, g.pos(e)))
        if same and guarded:
            rep.ok("R4-lookup-shape", key, facts.loc(f, e), "erases the iterator returned by the search, only when it is not end()")
        else:
            rep.violation("R4-lookup-shape", key, facts.loc(f, e), "erase does not remove exactly the found element (same iterator, != end())")
    if n < 5:
        rep.analysis_broken("only %d remove_option functions found" % n)


# ---------------------------------------------------------------------------
def r5(db, rep):
    recs = [rn for rn in db.records if rn.startswith("Tins::PDUOption<")]
    if not recs:
        rep.analysis_broken("no PDUOption instantiation")
        return
    rn = sorted(recs)[0]
    K = None
    for s in db.records[rn].get("statics", []):
        if s["name"] == "small_buffer_size":
            K = s.get("v")
    if K is None:
        rep.analysis_broken("PDUOption::small_buffer_size has no constant value")
        return
    n = 0
    for fid, f in sorted(db.functions.items()):
        if f.get("rec") != rn or not f.get("body"):
            continue
        for x in facts.fn_nodes(f):
            if x["k"] == "BinaryOperator" and x.get("op") in ("<", ">", "<=", ">=", "==", "!="):
                l, r = facts.strip_all(x["c"][0]), facts.strip_all(x["c"][1])
                lt, rt = facts.expr_str(l).replace("this->", ""), facts.expr_str(r).replace("this->", "")
                if "small_buffer_size" not in (facts.expr_str(x)):
                    continue
                n += 1
                key = "%s#%d" % (f["qual"].split("::")[-1] + ("" if f["kind"] != "ctor" else ":ctor"), n)
                # normalise to: inline iff size <= K
                op = x["op"]
                if "small_buffer_size" in lt:
                    op = {"<": ">", ">": "<", "<=": ">=", ">=": "<="}.get(op, op)
                heap_when = {">": "size > K", "<=": "size <= K (inline)"}.get(op)
                if op in (">", "<="):
                    rep.ok("R5-storage-arms", key, facts.loc(f, x), "payload is on the heap iff size > %d" % K)
                else:
                    rep.violation("R5-storage-arms", key, facts.loc(f, x),
                                  "%s decides the storage arm with `%s` while the other members use `size > %d` <=> heap: for a payload of exactly %d bytes "
                                  "the inline bytes are treated as a pointer (or the pointer as bytes)" % (f["qual"].split("::")[-1], facts.expr_str(x), K, K))
    # a named predicate wrapping the comparison is one test site per call (the comparison itself was judged above)
    from vlib import cond as _cond
    for fid, f in sorted(db.functions.items()):
        if f.get("rec") != rn or not f.get("body"):
            continue
        for x in facts.fn_nodes(f):
            if x["k"] == "CXXMemberCallExpr" and x.get("callee") and not x.get("ext"):
                pe = _cond.predicate_return(db, x["callee"])
                if pe is not None and pe[0].get("rec") == rn and "small_buffer_size" in facts.expr_str(pe[1]):
                    n += 1
                    rep.ok("R5-storage-arms", "%s#%d" % (f["qual"].split("::")[-1] + ("" if f["kind"] != "ctor" else ":ctor"), n), facts.loc(f, x),
                           "decided by the named predicate %s() (its comparison is judged where it is written)" % pe[0]["name"].split("::")[-1])
    if n < 6:
        rep.analysis_broken("only %d storage-arm tests found in PDUOption" % n)


# ---------------------------------------------------------------------------
def r6(db, rep):
    """IPv6 extension headers: the length byte written announces exactly the bytes written (data + padding), in the
    unit the parser uses.  Finite evaluation over the data size (both sides are affine with period 8)."""
    p = db.fns_named("Tins::IPv6::get_padding_size")
    # the writer of one extension header, by role: the IPv6 member that writes `<header>.option()` (a helper of its own or
    # the body of write_serialization's loop)
    w = [f for f in db.functions.values() if f.get("rec") == "Tins::IPv6" and f.get("body") and option_write(f) is not None]
    ctor = [f for f in db.functions.values() if f.get("rec") == "Tins::IPv6" and f.get("kind") == "ctor" and len(f["params"]) == 2
            and (facts.tyi(f, f["params"][0]["t"]) or {}).get("s") == "const unsigned char *"]
    if not w or not p or not ctor:
        rep.analysis_broken("IPv6::write_header / get_padding_size / parsing constructor not found")
        return
    w, p, ctor = w[0], p[0], ctor[0]
    key = "IPv6::write_header:length-byte"        # the instance keeps its name wherever the writer lives
    # the length byte: the 1-byte value written second
    writes = [n for n in facts.fn_nodes(w) if n["k"] == "CXXMemberCallExpr" and n.get("cname") == "write" and len(n["c"]) == 2]
    ow = option_write(w)
    writes = writes[[id(x) for x in writes].index(id(ow)):]
    if len(writes) < 2:
        rep.analysis_broken("IPv6 extension header writer: length write not found")
        return
    lnode = writes[1]["c"][1]
    wl = {}
    for n in facts.fn_nodes(w):
        if n["k"] == "VarDecl" and n.get("c"):
            wl[n["var"]] = n["c"][0]
    pl = {}
    for n in facts.fn_nodes(p):
        if n["k"] == "VarDecl" and n.get("c"):
            pl[n["var"]] = n["c"][0]
    pret = [n for n in facts.fn_nodes(p) if n["k"] == "ReturnStmt" and n.get("c")]
    # parser: bytes consumed for a header whose length byte is L
    cl = {}
    size_var = None
    for n in facts.fn_nodes(ctor):
        if n["k"] == "VarDecl" and n.get("c"):
            cl[n["var"]] = n["c"][0]
            if n.get("name") == "ext_size":
                size_var = n
    if size_var is None or not pret:
        rep.analysis_broken("IPv6 parser: `ext_size` / padding return not in the recognised form")
        return

    def mk(ds):
        def termfn(e):
            if e["k"] == "CXXMemberCallExpr" and e.get("cname") in ("length_field", "data_size"):
                return ds
            if e["k"] == "CallExpr" and e.get("cname") == "get_padding_size":
                return ieval.ev(p, pret[0]["c"][0], {"__termfn__": termfn, "__db__": db}, pl)
            return None
        return termfn
    bad = None
    try:
        for ds in range(0, 41):
            tf = mk(ds)
            L = ieval.ev(w, lnode, {"__termfn__": tf, "__db__": db}, wl) & 0xff
            # under non-constant conditions (spoof test) evaluate assignments to the local as well
            L = eval_local_after(w, lnode, tf, db, wl, L)
            pad = ieval.ev(p, pret[0]["c"][0], {"__termfn__": tf, "__db__": db}, pl)
            written = 2 + ds + pad

            def tfp(e, L=L):
                if e["k"] == "CXXMemberCallExpr" and e.get("cname") == "read":
                    return L
                return None
            consumed = ieval.ev(ctor, size_var["c"][0], {"__termfn__": tfp, "__db__": db}, cl)
            if consumed != written:
                bad = "an extension header with %d data byte(s) is written as %d byte(s) (2 + data + %d padding) with length byte %d, which the parser reads as %d byte(s)" % (
                    ds, written, pad, L, consumed)
                break
    except ieval.Unknown as e:
        rep.undecided("R6-length-byte", key, facts.loc(w), "outside the evaluator: %s" % e)
        return
    if bad:
        rep.violation("R6-length-byte", key, facts.loc(w, writes[1]), bad)
    else:
        rep.ok("R6-length-byte", key, facts.loc(w, writes[1]), "8 * (length byte + 1) == 2 + data + padding for data sizes 0..40 (affine, period 8)")


def option_write(f):
    for n in facts.fn_nodes(f):
        if n["k"] == "CXXMemberCallExpr" and n.get("cname") == "write" and len(n["c"]) == 2 and any(
                x["k"] == "CXXMemberCallExpr" and x.get("cname") == "option" for x in facts.walk(n["c"][1])):
            return n
    return None


def eval_local_after(f, node, tf, db, locs, val):
    """if `node` is a local that is conditionally re-assigned before use (spoof test), replay those assignments"""
    n0 = facts.strip_all(node)
    if n0["k"] != "DeclRefExpr":
        return val
    var = n0.get("var")
    for st in facts.fn_nodes(f):
        if st is node or st is n0:
            break
        if st["k"] == "IfStmt":
            real = [x for x in st["c"] if x is not None]
            try:
                c = ieval.ev(f, real[0], {"__termfn__": tf, "__db__": db}, locs)
            except ieval.Unknown:
                continue
            br = real[1] if c else (real[2] if len(real) > 2 else None)
            if br is None:
                continue
            for x in facts.walk(br):
                if x["k"] == "BinaryOperator" and x.get("op") == "=" and strip(x["c"][0]).get("var") == var:
                    val = ieval.ev(f, x["c"][1], {"__termfn__": tf, "__db__": db}, locs) & 0xff
    return val


# ---------------------------------------------------------------------------
def r7(db, rep):
    """element loops of the parsers: `while (stream.size() >= N)` / `while (stream)`: N must not exceed the fixed bytes
    the loop body reads for one element before it looks at anything variable - otherwise a last element whose payload is
    empty (exactly its fixed part) is silently dropped, although the serialiser writes it"""
    n = 0
    for fid, f in sorted(db.functions.items()):
        if not f.get("body") or not (f["file"].startswith("src/") or f["file"].startswith("include/tins")):
            continue
        streams = set()
        for x in facts.fn_nodes(f):
            if x["k"] == "VarDecl":
                t = facts.tyi(f, x.get("t")) or {}
                while t.get("k") in ("ref", "ptr"):
                    t = t.get("to") or {}
                if t.get("name") == "Tins::Memory::InputMemoryStream":
                    streams.add(x["var"])
        for p in f["params"]:
            t = facts.tyi(f, p.get("t")) or {}
            while t.get("k") in ("ref", "ptr"):
                t = t.get("to") or {}
            if t.get("name") == "Tins::Memory::InputMemoryStream":
                streams.add(p["var"])
        if not streams:
            continue
        for w in [x for x in facts.fn_nodes(f) if x["k"] == "WhileStmt"]:
            real = [x for x in w["c"] if x is not None]
            cnd, body = real[0], real[-1]
            need = threshold(f, cnd, streams)
            if need is None:
                continue
            svar, N = need
            F = fixed_reads(db, f, body, svar)
            if F is None or F == 0:
                continue
            n += 1
            key = "%s:loop@%s" % (f["qual"].replace("Tins::", ""), facts.expr_str(cnd)[:30].replace(" ", ""))
            if N > F:
                rep.violation("R7-element-loop", key, facts.loc(f, w),
                              "the loop needs %d byte(s) to start another element but one element's fixed part is %d byte(s): a trailing element "
                              "with an empty payload is not parsed back" % (N, F))
            else:
                rep.ok("R7-element-loop", key, facts.loc(f, w), "continues while >= %d byte(s) remain; an element's fixed part is %d" % (N, F))
    if n < 6:
        rep.analysis_broken("only %d element loops over an input cursor recognised" % n)


def threshold(f, cnd, streams):
    c = facts.strip_all(cnd)
    # while (stream)
    for x in [c]:
        if x["k"] == "CXXMemberCallExpr" and (x.get("cname") or "").startswith("operator bool"):
            me = x["c"][0]
            while me["k"] in ("ParenExpr", "ImplicitCastExpr"):
                me = me["c"][0]
            o = strip(me["c"][0]) if me.get("c") else None
            if o is not None and o.get("var") in streams:
                return o["var"], 1
        if x["k"] == "DeclRefExpr" and x.get("var") in streams:
            return x["var"], 1
    if c["k"] == "BinaryOperator" and c.get("op") in (">", ">=", "!="):
        l, r = facts.strip_all(c["c"][0]), facts.strip_all(c["c"][1])
        if l["k"] == "CXXMemberCallExpr" and l.get("cname") == "size":
            me = l["c"][0]
            while me["k"] in ("ParenExpr", "ImplicitCastExpr"):
                me = me["c"][0]
            o = strip(me["c"][0]) if me.get("c") else None
            k = facts.cval(r)
            if o is not None and o.get("var") in streams and k is not None:
                if c["op"] == ">=":
                    return o["var"], int(k)
                if c["op"] == ">":
                    return o["var"], int(k) + 1
                if c["op"] == "!=" and k == 0:
                    return o["var"], 1
    return None


def fixed_reads(db, f, body, svar):
    """constant bytes read from the cursor by the leading statements of the loop body (before any branch / variable read)"""
    total = 0
    stmts = body.get("c", []) if body["k"] == "CompoundStmt" else [body]
    for st in stmts:
        if st["k"] in ("IfStmt", "WhileStmt", "ForStmt", "SwitchStmt", "CXXTryStmt", "ReturnStmt", "BreakStmt", "ContinueStmt"):
            break
        stop = False
        for x in facts.walk(st):
            if x["k"] != "CXXMemberCallExpr":
                continue
            me = x["c"][0]
            while me["k"] in ("ParenExpr", "ImplicitCastExpr"):
                me = me["c"][0]
            o = strip(me["c"][0]) if me.get("c") else None
            if o is None or o.get("var") != svar:
                continue
            cn = x.get("cname")
            if cn in ("read", "read_be", "read_le"):
                if len(x["c"]) == 1:
                    sz = sx.type_size(db, facts.ty(f, x))
                elif len(x["c"]) == 2:
                    fs = db.functions.get(x.get("callee"))
                    t = facts.tyi(fs, fs["params"][0].get("t")) if fs and fs["params"] else None
                    while t and t.get("k") == "ref":
                        t = t.get("to")
                    sz = sx.type_size(db, t)
                else:
                    sz = None
                if sz is None:
                    stop = True
                    break
                total += sz
            elif cn in ("skip",):
                k = facts.cval(x["c"][1])
                if k is None:
                    stop = True
                    break
                total += int(k)
            elif cn in ("pointer", "size", "can_read"):
                continue
            else:
                stop = True
                break
        if stop:
            break
    return total


# ---------------------------------------------------------------------------
def r8(db, rep):
    """serialising must leave option / extension lists as they were: a serialiser that edits elements of a member
    container (IPv6 temporarily shifts the next-header values along the chain) has to put every element back from a copy
    it saved before the first edit - not from the list it is restoring"""
    n = 0
    for fid, f in sorted(db.functions.items()):
        if not f["qual"].endswith("::write_serialization") or not f.get("body") or not (f.get("rec") or "").startswith("Tins::"):
            continue
        rec = db.records.get(f["rec"]) or {}
        members = set(fl["name"] for fl in rec.get("fields", []))
        g = cfg.FnCFG(f)
        writes = [x for x in facts.fn_nodes(f) if x["k"] == "CXXMemberCallExpr" and x.get("crec") == "Tins::Memory::OutputMemoryStream"
                  and x.get("cname") in ("write", "write_be", "write_le", "fill")]
        edits = []
        for x in facts.fn_nodes(f):
            if x["k"] != "CXXMemberCallExpr" or len(x["c"]) != 2:
                continue
            me = x["c"][0]
            while me["k"] in ("ParenExpr", "ImplicitCastExpr"):
                me = me["c"][0]
            obj = facts.strip_all(me["c"][0]) if me.get("c") else None
            if obj is None or obj["k"] != "CXXOperatorCallExpr" or obj.get("op") != "[]":
                continue
            base = facts.strip_all(obj["c"][1])
            if base["k"] != "MemberExpr" or base.get("member") not in members:
                continue
            fs = db.functions.get(x.get("callee"))
            if fs is None or fs["id"].endswith(" const"):
                continue
            edits.append((x, base.get("member"), obj["c"][2], x["c"][1]))
        if not edits:
            continue
        n += 1
        key = "%s:element-edits" % f["qual"].replace("Tins::", "")
        before = [e for e in edits if any(g.reachable(g.pos(e[0]), g.pos(w)) for w in writes)]
        after = [e for e in edits if e not in before]
        bad = None
        restores = []
        for x, mem, idx, val in after:
            refs_member = any(y["k"] == "MemberExpr" and y.get("member") == mem for y in facts.walk(val))
            v0 = facts.strip_all(val)
            from_local_same_index = False
            if v0["k"] == "CXXOperatorCallExpr" and v0.get("op") == "[]":
                b2 = facts.strip_all(v0["c"][1])
                if b2["k"] == "DeclRefExpr" and not b2.get("parm") and facts.expr_str(v0["c"][2]) == facts.expr_str(idx):
                    from_local_same_index = True
                    restores.append((x, b2.get("var")))
            if refs_member:
                bad = (x, "after the bytes were written `%s` is restored from `%s` itself (%s): in a forward loop every element past the second "
                          "receives a value that was just overwritten" % (mem, mem, facts.expr_str(val)[:50]))
                break
        if not bad and before and not restores:
            bad = (before[0][0], "elements of `%s` are edited for the wire image but never put back from a saved copy: serialize() changes the object" % before[0][1])
        if not bad and restores:
            # the saved copy is filled from the untouched elements
            lvar = restores[0][1]
            fills = [y for y in facts.fn_nodes(f) if y["k"] == "CXXMemberCallExpr" and y.get("cname") == "push_back" and
                     any(z["k"] == "DeclRefExpr" and z.get("var") == lvar for z in facts.walk(y["c"][0]))]
            if not fills or not all(g.reachable(g.pos(fl), g.pos(before[0][0])) or True for fl in fills):
                bad = (restores[0][0], "the copy `%s` used for restoring is never filled" % lvar.split("#")[0])
        if bad:
            rep.violation("R8-serialise-restores", key, facts.loc(f, bad[0]), bad[1])
        else:
            rep.ok("R8-serialise-restores", key, facts.loc(f), "%d edit(s) before the writes, %d restore(s) from a saved local copy at the same index" % (len(before), len(restores)))
    if n < 1:
        rep.analysis_broken("no serialiser editing container elements found (IPv6's next-header chain expected)")


def r9(db, rep):
    from vlib import streamfx as sx
    MG = "Tins::Dot11ManagementFrame"
    mfs = [f for f in db.fns_named(MG + "::management_frame_size") if f.get("body")]
    hs = [f for f in db.fns_named(MG + "::header_size") if f.get("body")]
    if not mfs or not hs:
        rep.analysis_broken("Dot11ManagementFrame::management_frame_size / header_size vanished")
        return
    users = 0
    for f in db.functions.values():
        if f.get("kind") == "ctor" and f.get("body") and MG in db.all_bases(f.get("rec") or ""):
            if any(x["k"] == "CXXMemberCallExpr" and x.get("cname") == "management_frame_size" for x in facts.fn_nodes(f)):
                users += 1
    key = "Dot11ManagementFrame::management_frame_size"
    K = "Tins::Dot11Beacon"
    try:
        fx = sx.Fx(db, K)
        A = fx.exec_fn(sx.Ctx(fx, mfs[0], cls=K)).get("§ret")
        B = fx.exec_fn(sx.Ctx(fx, hs[0], cls=K)).get("§ret")
        if A is None or B is None:
            raise sx.Opaque("no size form")
        res = sx.compare(fx, A, B, {}, 0, {})
    except sx.Opaque as e:
        rep.analysis_broken("%s: outside the E-STREAMFX language: %s" % (key, e))
        return
    bad = [x for x in res if x[0] in ("more", "less", "differ", "undecided")]
    if bad:
        rep.violation("R9-skip-agreement", key, facts.loc(mfs[0]),
                      "the offset the %d subtype parsers skip (`%s`) is not the size of the management header that was read and is written "
                      "(`%s`): %s - with all four addresses present the fixed parameters are read from the wrong place"
                      % (users, A, B, bad[0][1] if len(bad[0]) > 1 else bad[0][0]))
    else:
        rep.ok("R9-skip-agreement", key, facts.loc(mfs[0]), "equals Dot11ManagementFrame::header_size() on every cell; used by %d subtype parsers" % users)
    if users < 8:
        rep.analysis_broken("only %d management subtype parsers use management_frame_size()" % users)


def r11(db, rep):
    from vlib import cfg, cond
    # DHCP: the vend area is derived from options_ whenever there are options
    fs = [f for f in db.fns_named("Tins::DHCP::write_serialization") if f.get("body")]
    if not fs:
        rep.analysis_broken("DHCP::write_serialization vanished")
    else:
        f = fs[0]
        g = cfg.FnCFG(f)
        loops = [x for x in facts.fn_nodes(f) if x["k"] in ("ForStmt", "WhileStmt", "CXXForRangeStmt") and "options_" in facts.expr_str(x)]
        key = "DHCP::write_serialization:rebuild"
        if not loops:
            rep.violation("R11-rebuilt-and-counted", key, facts.loc(f), "the option area is no longer written from options_")
        else:
            inner = [y for y in facts.walk(loops[0]) if y["k"] == "CXXMemberCallExpr" and y.get("cname") == "write"]
            pos = g.pos(inner[0]) if inner else g.pos(loops[0])
            bad = None
            for op, l, r in cond.guards_facts(g, pos):
                t = facts.expr_str(l) + " " + (facts.expr_str(r) if r is not None else "")
                if "it" in t.split() or "(it " in t or "options_" in t:
                    continue        # the loop's own condition
                if "size()" in t or "vend" in t or "result" in t:
                    bad = "%s %s %s" % (facts.expr_str(l), op, facts.expr_str(r) if r is not None else "")
            if bad:
                rep.violation("R11-rebuilt-and-counted", key, facts.loc(f, loops[0]),
                              "the option area is rewritten only when `%s`: equal size does not mean equal content, so after an edit that "
                              "keeps the total size the wire still carries the old options" % bad)
            else:
                rep.ok("R11-rebuilt-and-counted", key, facts.loc(f, loops[0]), "rewritten from options_ whenever there are options")
    # RSNInformation: count in front of each list
    fs = [f for f in db.fns_named("Tins::RSNInformation::serialize") if f.get("body")]
    if not fs:
        rep.analysis_broken("RSNInformation::serialize vanished")
        return
    f = fs[0]
    top = f["body"].get("c", [])
    n = 0
    for i, st in enumerate(top):
        if st["k"] not in ("ForStmt", "CXXForRangeStmt"):
            continue
        conts = set(y.get("member") for y in facts.walk(st["c"][0] if st["c"][0] is not None else st) if y["k"] == "MemberExpr" and y.get("isfield"))
        conts = [c for c in conts if c]
        if not conts or i == 0:
            continue
        prev = top[i - 1]
        w = [y for y in facts.walk(prev) if y["k"] == "CXXMemberCallExpr" and y.get("cname") in ("write", "write_le", "write_be")]
        if not w:
            continue
        n += 1
        key = "RSNInformation::serialize:count-of-%s" % conts[0]
        arg = facts.inline_locals(f, w[0]["c"][1])
        t = facts.expr_str(arg)
        if ("%s.size()" % conts[0]) in t:
            rep.ok("R11-rebuilt-and-counted", key, facts.loc(f, prev), "`%s` precedes the elements of %s" % (t[:60], conts[0]))
        else:
            rep.violation("R11-rebuilt-and-counted", key, facts.loc(f, prev),
                          "the count written in front of the %s list is `%s`, not %s.size(): with lists of different lengths the decoder "
                          "reads the wrong number of suites" % (conts[0], t[:70], conts[0]))
    if n < 2:
        rep.analysis_broken("RSNInformation::serialize: the two (count, list) pairs were not recognised (%d)" % n)


def r12(db, rep):
    from vlib import ieval
    MG = "Tins::Dot11ManagementFrame"
    enc = [f for f in db.fns_named(MG + "::country") if f.get("body") and len(f["params"]) == 1]
    dec = [f for f in db.fns_named(MG + "::country_params::from_option") if f.get("body")]
    if not enc or not dec:
        rep.analysis_broken("Dot11ManagementFrame::country / country_params::from_option vanished")
        return
    e, d = enc[0], dec[0]
    key = "country:pad-octet"
    pads = [x for x in facts.fn_nodes(e) if x["k"] == "IfStmt" and "& 1" in facts.expr_str([y for y in x["c"] if y is not None][0]) and
            any(y["k"] in ("UnaryOperator", "CompoundAssignOperator") and y.get("op") in ("++", "+=") for y in facts.walk(x))]
    if not pads:
        rep.ok("R12-pad-tolerance", key, facts.loc(e), "the encoder does not pad: nothing to tolerate")
        return
    loops = [x for x in facts.fn_nodes(d) if x["k"] in ("WhileStmt", "ForStmt")]
    if not loops:
        rep.analysis_broken("country_params::from_option: triplet loop not found")
        return
    top = d["body"].get("c", [])
    after = False
    bad = None
    checked = 0
    for st in top:
        if st is loops[0] or any(y is loops[0] for y in facts.walk(st)):
            after = True
            continue
        if not after or st["k"] != "IfStmt":
            continue
        real = [x for x in st["c"] if x is not None]
        if not any(y["k"] == "CXXThrowExpr" for y in facts.walk(real[1])):
            continue
        checked += 1

        def tf(x):
            # one octet is left: end - ptr == 1
            if x["k"] == "BinaryOperator":
                l, r = facts.strip_all(x["c"][0]), facts.strip_all(x["c"][1])
                names = (l.get("name"), r.get("name"))
                if x.get("op") in ("!=", "==") and set(names) == {"ptr", "end"}:
                    return 1 if x["op"] == "!=" else 0
                if x.get("op") == "-" and names == ("end", "ptr"):
                    return 1
                if x.get("op") == "<" and names == ("ptr", "end"):
                    return 1
            return None
        try:
            if ieval.ev(d, real[0], {"__termfn__": tf}):
                bad = st
        except ieval.Unknown as ex:
            rep.analysis_broken("country_params::from_option: trailing check outside the evaluator: %s" % ex)
            return
    if bad is not None:
        rep.violation("R12-pad-tolerance", key, facts.loc(d, bad),
                      "country() pads the element to an even length, but from_option() throws malformed_option when one octet is left after the "
                      "last triplet: a country element with an even number of triplets (0, 2, 4 ...) cannot be read back")
    else:
        rep.ok("R12-pad-tolerance", key, facts.loc(d, loops[0]), "a single pad octet after the last triplet is accepted (%d trailing check(s))" % checked)
