"""Shared rule: no use of a local or parameter after it was handed to std::move (unless it is assigned again first)."""
from vlib import facts, cfg
from vlib.facts import strip


def use_after_move(db, rep, rule, minimum=5):
    from rules.c12 import path_avoiding
    n = 0
    seen = {}
    for fid, f in sorted(db.functions.items()):
        if not f.get("body") or not (f["file"].startswith("src/") or f["file"].startswith("include/tins")):
            continue
        moves = []
        for x in facts.fn_nodes(f):
            if x["k"] == "CallExpr" and x.get("cname") == "move" and (x.get("cqual") or "std::move") == "std::move" and len(x["c"]) == 2:
                a = facts.strip_all(x["c"][1])
                if a["k"] == "DeclRefExpr" and a.get("var") and not a.get("glob"):
                    t = facts.ty(f, a) or {}
                    while t.get("k") == "ref" and t.get("to"):
                        t = t["to"]
                    if t.get("k") == "rec":
                        moves.append((x, a))
        if not moves:
            continue
        g = cfg.FnCFG(f)
        idx, par = facts.index_fn(f)
        for mv, a in moves:
            v = a["var"]
            mp = g.pos(mv)
            if mp is None:
                continue
            # is the moved value consumed (argument of a call / constructor / assignment), not just cast?
            n += 1
            kk = (f["qual"], a.get("name"))
            seen[kk] = seen.get(kk, 0) + 1
            key = "%s:%s#%d" % (f["qual"].replace("Tins::", "")[:70], a.get("name"), seen[kk])
            assigns = []
            for x in facts.fn_nodes(f):
                if x["k"] in ("BinaryOperator", "CXXOperatorCallExpr") and (x.get("op") == "=" or x.get("cname") == "operator="):
                    l = facts.strip_all(x["c"][-2])
                    if l["k"] == "DeclRefExpr" and l.get("var") == v:
                        q = g.pos(x)
                        if q:
                            assigns.append(q)
            for x in facts.fn_nodes(f):
                if x["k"] == "VarDecl" and x.get("var") == v:
                    q = g.pos(x)
                    if q:
                        assigns.append(q)       # re-entering the declaration gives a fresh object
                if x["k"] == "CXXMemberCallExpr" and x.get("cname") in ("clear", "assign", "swap") and x["c"] and x["c"][0].get("c") and \
                        facts.strip_all(x["c"][0]["c"][0]).get("var") == v:
                    q = g.pos(x)
                    if q:
                        assigns.append(q)
            bad = None
            for x in facts.fn_nodes(f):
                if x["k"] == "DeclRefExpr" and x.get("var") == v and x is not a:
                    p0 = par.get(x["id"])
                    if p0 is not None and p0["k"] == "MemberExpr" and p0.get("member") in ("clear", "assign", "swap"):
                        continue
                    # the left-hand side of a re-assignment is not a read
                    p = par.get(x["id"])
                    if p is not None and p["k"] in ("BinaryOperator", "CXXOperatorCallExpr") and \
                            (p.get("op") == "=" or p.get("cname") == "operator=") and facts.strip_all(p["c"][-2]) is x:
                        continue
                    xp = g.pos(x)
                    if xp is None or xp == mp:
                        continue
                    if path_avoiding(g, mp, xp, assigns):
                        bad = x
                        break
            if bad is not None:
                rep.violation(rule, key, facts.loc(f, bad),
                              "`%s` is read after it was handed to std::move at line %s: a moved-from object holds unspecified (for "
                              "PDUOption: emptied) contents, so sizes and data computed from it are wrong" % (a.get("name"), mv.get("l")))
            else:
                rep.ok(rule, key, facts.loc(f, mv), "not used again after the move")
    if n < minimum:
        rep.analysis_broken("only %d std::move(variable) sites found" % n)
