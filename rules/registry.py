"""Which properties are claimed, at what level; source of MANIFEST.json
(tools/gen_manifest.py).  A property is listed under CLAIMED only when its
rules are silent (or triaged) on the unchanged tree and its mutants fire."""

CLAIMED = {
    "C01": dict(
        category="other",
        design_ref="DESIGN.md section 3 / C01",
        technique="static analysis: abstract interpretation over the clang CFG with linear guard facts, a small inequality "
                  "prover, loop invariants by relational joins (E-BOUNDS); exception-escape analysis over the resolved "
                  "call graph (E-EXC)",
        text="Decides the memory-access and exception-type clauses: (R2/R3) in every function reachable from a parser "
             "entry point or from a read-only accessor/decoder, every raw dereference, struct overlay, (pointer,length) "
             "hand-over, iterator range, destination capacity, stream re-sizing, union-arm use and cursor counter update "
             "is proved in bounds from the guards that dominate it (~800 obligations, incl. preconditions of internal "
             "helpers checked at their call sites and the DNS section-index class invariant); (R4) only "
             "malformed_packet escapes a parser and only libtins exceptions escape accessors/decoders, with residues "
             "discharged by checked value bounds. Two genuine defects found this way (DNS::compose_name over-read, "
             "DNS::update_dname) were repaired with fix: commits. (R5) the cursor classes themselves (Memory::InputMemoryStream / OutputMemoryStream, 109 obligations over all instantiations): position and remaining size move together under n <= size_, can_read(n) is size_ >= n, every byte access at the cursor is guarded for its length and followed by skip of that length - the premises E-BOUNDS uses for every parser.",
        note="NOT decided: termination bounds beyond loop shape, leaks, alignment/shift/overflow UB, allocation failure. "
             "Assumes buffers < 4 GiB, no overflow in additions of 32-bit lengths, little-endian arm, std::vector move "
             "semantics. update_records' content-dependent walk is a recorded known finding under C10.",
    ),
    "C02": dict(
        category="other",
        design_ref="DESIGN.md section 3 / C02",
        technique="static analysis: symbolic size forms of serialisers and size functions (E-STREAMFX, vlib/streamfx.py) "
                  "compared on the finite partition of the conditions they test; pairing on the clang CFG (cache pairs); "
                  "taint of the raw buffer pointer; call-graph enumeration of throw sites",
        text="Decides: (R1) for all 54 concrete layer classes the bytes the serialiser gives the bounded cursor before/after "
             "the inner layer never exceed header_size()/trailer_size(), in every cell of the condition partition (option "
             "kinds incl. all 256 IP option octets, message types, flags), self-serialising value types write what their size() announces, and a layer that "
             "writes fewer header bytes than it counts does not go on to place a trailer with the same cursor - found and "
             "fixed the TCP and IP option-size defects; (R2) cached option/tag sizes follow their lists under every add/remove; (R3) the raw output buffer "
             "is written only at offsets the cursor already accepted, and the symbolic raw writes of ICMP/ICMPv6 (extension "
             "block and padding) lie inside the layer's trailer region on every cell - found and fixed the ICMP extension "
             "offset for timestamp/address-mask messages; (R4) the driver composes the layers' regions; (R5) no "
             "throw site other than the cursor's bound checks and 8 tabled, reasoned ones is reachable while serialising. (R6) the caching wrapper PDUCacher<T> copies into the output buffer exactly size() bytes of the container it copies from (never total_sz, which also counts the layers stacked on it). (R1 also requires, for accessor-maintained counts, a dominating test that the count is below the field's maximum before it is incremented; R7: no variable is read after it was handed to std::move.) (R8) the same cursor invariant, shared with C01.R5: it is what makes the output cursor's bound checks meaningful. (R2) also: every cached size counter is at least as wide as the uint32_t header_size() it feeds, or exactly as wide as the wire length field the serialiser fills with it (found and fixed: LLC's 8-bit XID length wrapped after 85 fields and serialize() threw); LLC's information fields are a cache pair. (R2 also: adjust-width - the per-element size that adjusts a cached counter is not squeezed through a cast or a local of fewer bits than the counter needs.)",
        note="NOT decided: LLC's cached lengths (1 undecided instance), arbitrary building-API histories beyond R2, uint32 wrap "
             "of sizes. 'Fewer bytes written than counted' is noted, not a violation (zero gap, no overwrite).",
    ),
    "C03": dict(
        category="other",
        design_ref="DESIGN.md section 3 / C03",
        technique="static analysis: guard facts on the clang CFG (tag stores), switch tables read as finite maps (E-TABLE), "
                  "symbolic read/write forms and member sequences of constructors and serialisers (E-STREAMFX), value-set "
                  "of wire-derived selectors (known bits) against switch arms",
        text="Structural part. Decides: (R1) the 7 serialisers that store a looked-up next-protocol tag do so only when the "
             "lookup succeeded (found and fixed SNAP, SLL, IPSecAH); (R2) class->tag and tag->class tables are mutual "
             "inverses for every layer class and pdu_from_flag(PDUType) creates the class with that flag (47 rows); (R3) "
             "every derived from-buffer constructor skips exactly the bytes its base constructors consumed (20 chains) and "
             "the members a constructor chain reads are, in order and width, those write_serialization writes, and a member "
             "read under a condition is written whenever that condition holds (51 classes); (R4) switches on wire-derived selectors on the serialisation path cover every value (found and "
             "fixed LLC's I-frame format). (R5) the accept set of are_extensions_allowed(), evaluated over all 256 type values, stays within the RFC 4884 message types (ICMP 3/11/12, ICMPv6 1/3), so the derived length byte never overwrites another field; (R6) RadioTap::trailer_size() is non-zero exactly when the parser strips an FCS (FLAGS present and FCS bit), on its full truth table. (R3 also compares, by member name and multiplicity, what the constructor chain reads with what the serialiser writes: nothing read is never written, nothing written is never read, apart from 11 tabled members filled by other means.) (R7) the ICMP/ICMPv6 extension parser never looks for the extension structure below offset 128, where the serialiser puts it; C02.R1 (size balance of every serialiser) is re-run under C03 because an overrunning header corrupts the next layer's bytes. (R8) for every enumerator of a selector whose setter fixes a length member that header_size() counts (LLC: Format -> control_field_length_), write_serialization writes exactly that many selector-dependent bytes - both sides executed per enumerator, so a switch, an if-chain or a missing arm are judged alike. All rules read through named locals, extracted helpers and early-return forms (DESIGN 8.9). (R3 also: tokens in branches that exclude each other are alternatives; a fixed-size member read in every run is written in every run; a boolean member the serialiser tests is assigned in the parser from the very test under which the members it governs are read.) (R9) early exits of option loops that run up to an end-of-header pointer verify the cursor is at that pointer or skip to it.",
        note="NOT decided: value-dependent losses (ICMP extension recognition by checksum, DHCP END/PAD growth, option "
             "contents and their order beyond the raw option list), byte-for-byte idempotence, variable-length tails after "
             "the first option loop of a constructor.",
    ),
    "C04": dict(
        category="other",
        design_ref="DESIGN.md section 3 / C04",
        technique="static analysis: byte-offset layouts of typed option encoders and decoders from their cursor operations "
                  "(E-STREAMFX), constant-code pairing of same-name accessors, cache-pair typestate on the CFG, lookup/removal "
                  "shape rules, sibling cross-check of PDUOption's storage predicate, finite evaluation of the IPv6 "
                  "extension-header length byte",
        text="Structural part. Decides: (R1) the 24 stream-based typed option codecs agree, at every byte offset of their fixed "
             "part, on item width and byte order, and the decoder's length guard accepts the encoder's length; (R2) 96 "
             "same-name setter/getter pairs use one option code; (R3) add/remove keep cached sizes in step (= C02.R2); (R4) "
             "searches are first-match from begin() and remove erases exactly the found iterator; (R5) all PDUOption members "
             "use one inline/heap predicate; (R6) IPv6 extension headers announce exactly the bytes written (found and fixed "
             "the 7-mod-8 length defect); (R7) element-parsing loops continue while one element's fixed part fits (17 loops); "
             "(R8) a serialiser that edits list elements for the wire image restores them from a saved copy. (R9) the offset the 802.11 management subtype parsers skip (management_frame_size()) has the same symbolic size form as Dot11ManagementFrame::header_size() on every cell (fourth address included). (R10) option-backed accessors with scalar, address or flat-record values (32 pairs: DHCP, DHCPv6, TCP, ICMPv6, 802.11 management): E-BITS composes setter and getter through a model of the option list (construct / add / search / data_ptr / data_size) and interprets the library's own swaps and converter templates - the getter returns the stored value bit for bit; string-, vector- and container-valued options are not decided. (R11) DHCP rewrites its option area from options_ whenever there are options (no size-equality cache test); RSNInformation writes in front of each suite list that list's own size(). (R12) the 802.11 Country decoder accepts the single pad octet its encoder adds for an even number of triplets. (C02.R2 adjust-width is re-run here for the option lists.)",
        note="NOT decided: the shadow-model clause over arbitrary edit histories, codecs that use pointer arithmetic or "
             "containers instead of cursors (shape not comparable), variable-length tails, DNS names, ICMPv6 option length "
             "units for payloads the caller did not pad, value ranges.",
    ),
    "C05": dict(
        category="other",
        design_ref="DESIGN.md section 3 / C05",
        technique="static analysis: ordering / must-precede rules on the clang CFG of the six checksum producers and all "
                  "serialisers, operand-pairing rules on the pseudo-header calls, loop-shape rule for the end-around-carry "
                  "fold, finite evaluation of the IPv6 chain guard over the index",
        text="NARROW claim (protocol, not arithmetic). Decides: (R1) for IP, TCP, UDP, ICMP, ICMPv6 and the ICMP extension "
             "structure: checksum field zero when written, sum taken after the last covered byte over [buffer, end), every "
             "32-bit accumulator folded by a carry LOOP before narrowing (incl. Utils::sum_range), result complemented, kept "
             "and patched back AT THE CHECKSUM FIELD (offset of the field in the header struct written first, or the position at "
             "which the literal 0 stood in for it; through memcpy, a cast of the buffer, or a second cursor), pseudo-header built "
             "from the parent's addresses, size() and this class's protocol number (also through a file-local helper with an "
             "out-parameter) and added to the layer's sum before anything is stored; "
             "(R2) no header field is assigned after its header went through the cursor unless patched back (35 "
             "serialisers); (R3) tags are looked up for the immediate inner layer and the IPv6 extension chain links header "
             "i-1 to header i for every i >= 1, and a private mirror of a tag field that the serialiser falls back to is updated "
             "by every setter of that field; (R4) Ethernet/802.1Q padding is zero-filled after the payload and header + "
             "payload + trailer_size() >= 60 for EthernetII on every cell. (R5) UDP: abstract interpretation over {zero, non-zero, unknown} shows the checksum patched into the datagram is never 0 (0 -> 0xffff whatever the parent); (R6) no serialiser-derived field is stored under an ordering comparison that reads its own old value (grow-only / shrink-only updates go stale). (R7) serialisers that store a next-protocol tag do not search the chain with find_pdu/rfind_pdu: the tag describes the immediate child; C12.R2 (every stored child gets its parent link) is re-run here because checksums and the MPLS bottom-of-stack bit need the parent. (R8) the members the children's pseudo-header reads from IP / IPv6 (source and destination address) are neither assigned nor set through their setters inside the parent's write_serialization, which runs after the children's. (R9) ICMP / ICMPv6 with extensions: the RFC 4884 length field times its unit (4 / 8) equals the offset at which trailer_size() starts the extension structure - both functions executed for seven sizes. (R10) MPLS: a label with a parent gets its bottom-of-stack bit exactly when no MPLS label follows (serialiser executed for every layer class). (R3 also: the upper-layer tag of an IPv6 chain goes into the LAST extension header.)",
        note="NOT decided: the one's-complement arithmetic and CRC32 themselves, the values of length / offset expressions "
             "(tot_len, doff, payload_length ...), the UDP zero-checksum substitution value, agreement with libpcap filters - "
             "value-level. Tag tables are decided under C03.R2.",
    ),
    "C06": dict(
        category="other",
        design_ref="DESIGN.md section 3 / C06",
        technique="static analysis: typestate dataflow over the clang CFG (accounted-container analysis with helper "
                  "summaries), seeded taint of sequence-number values, loop/wrap shape rule",
        text="Decides three structural clauses, not the delivery behaviour: (R1) the buffered-bytes counter equals what "
             "the out-of-order map holds - every insertion, erasure, in-place trim, replacement and move-out of a chunk "
             "is matched by the right counter adjustment on every CFG path, including whether a moved chunk is really "
             "consumed by the callee; (R2) two sequence numbers never meet in <,>,<=,>= outside the RFC1982 helpers "
             "(necessary for wrap-safety); (R3) the cyclic walk over the sequence-keyed map wraps at every advance. (R4) a flow's expected sequence number is re-seeded from a SYN only while the flow is in its initial state (guard dominance); (R5) legacy follower: of two segments buffered at the same sequence number the longer one is kept and the other freed (finite evaluation of safe_insert over slot-empty x length orderings). (R3 also covers the legacy follower's drain loop in TCPStream::generic_process: every advance of the cyclic iterator is wrap-protected, through erase_iterator's own wrap test.) (R6) in the legacy drain loop a sliced fragment is re-inserted before the iterator is advanced; add/subtract_sequence_numbers are modulo-2^32 on the boundary cells. (R7) Internals::seq_compare, executed on 91 boundary pairs, has the sign of the signed 32-bit difference for every distance except exactly 2^31. (R8) Flow::process_packet reaches DataTracker::process_payload on EVERY path when the segment has a TCP layer and a payload and data is not switched off (formula.must_table: no other condition can return first). (R3 also: a drain loop ordered by serial comparison starts at the current position, not at begin().) (R9) the IPv4 and IPv6 constructors of Flow use their port / sequence-number parameters for the same members.",
        note="Prefix/exactly-once delivery, overlap resolution and the legacy follower's equivalence are value-level and "
             "NOT decided. Assumes std::vector move leaves the source empty and that users do not mutate the map through "
             "the non-const accessor.",
    ),
    "C07": dict(
        category="other",
        design_ref="DESIGN.md section 3 / C07",
        technique="static analysis: must-pass-through / guard-dominance rules on the clang CFG; truth tables of the "
                  "deciding predicates compared with the formulas fixed by the property text",
        text="Decides the structural clauses: 4-tuple key coverage and normalisation; announce-once (insertion => callback on "
             "every path); terminate-once-and-forget (callback => erase, erase only when finished/limits/idle, no iterator "
             "use after erase); limits compared after every packet; routing by destination address AND port; and the "
             "formulas finished <=> RST|RST|(FIN&FIN), create <=> (SYN&!ACK)|(attach&data), terminate <=> chunks>max|bytes>max, "
             "FIN/RST always reach FIN_SENT/RST_SENT - each checked on its complete truth table. (R7) Flow::process_packet calls update_state() under no other condition than the presence of a TCP layer. The key's operator< / operator== and the constructor's normalisation are EXECUTED over a two-valued domain per member when not written with std::tie (strict weak order whose equivalence is member-wise equality; endpoint pairs kept, smaller endpoint first); reachability of create / erase sites is computed as a function of the role conditions alone (formula.reach_table). (R8) no normal path from the stream look-up to the end of StreamFollower::process_packet avoids the keep-alive test (or a member that makes it). (R9) the IPv4 and IPv6 branches of Stream::extract_client_flow / extract_server_flow build their Flow from the same accessors. (R8 also: no sweep between the stream look-up and the later uses of its iterator.)",
        note="NOT decided: equality of the callback trace with a reference connection table under arbitrary interleavings; "
             "reassembly per direction is C06. User callbacks are assumed not to re-enter the follower.",
    ),
    "C08": dict(
        category="other",
        design_ref="DESIGN.md section 3 / C08",
        technique="static analysis: guard dominance, must-pass-through and pairing rules on the clang CFG; truth table of "
                  "is_complete() compared with the formula fixed by the property text",
        text="Decides the structural clauses: no datagram from an incomplete set (REASSEMBLED dominated by is_complete() "
             "and the non-null payload test; is_complete() == last-seen AND counts-equal AND first-offset-0 on all 8 rows; "
             "allocate_pdu rejects gaps), what the reassembled packet is made of (first fragment's header, payload "
             "installed, offset/flags cleared, stream forgotten), unfragmented packets and incomplete streams untouched, "
             "key = (id, src, dst), insertion/accounting/ordered-search/duplicate-test pairing. (R3 ext.) make_address_pair returns an ordered pair built from both addresses (no lossy digest); (R5) every payload layer the IPv4 parser builds (protocol dispatch, allocator registry, RawPDU in both the fragmented and unfragmented arms) receives the size clamped to the header's total length on every path. (R6) after the contiguity check allocate_pdu() never returns null: pdu_from_flag keeps its RawPDU fallback (or an explicit fallback dominates the return), so datagrams of protocols libtins has no class for are still delivered. (R7) add_fragment returns before the insertion only for a duplicate offset; IP::is_fragmented(), as a bit function of the header (E-BITS), is true exactly when the more-fragments bit or one of the 13 offset bits is set. (R9) a member of IPv4Reassembler that points at an element of streams_ (none on the pinned tree) is reset at every erase / clear of the table.",
        note="NOT decided: status sequences under arbitrary interleavings and duplication, byte identity of the "
             "reassembled payload, overlapping fragments.",
    ),
    "C09": dict(
        category="other",
        design_ref="DESIGN.md section 3 / C09",
        technique="static analysis: guard dominance on the clang CFG; E-BOUNDS abstract interpretation with requirements of "
                  "private helpers discharged by their callers' guards",
        text="Decides two clauses: (R1) frames whose ICV/MIC comparison fails are never returned as decrypted, and the "
             "drivers report success only with a non-null payload installed and the protected flag cleared; (R2) "
             "decrypting truncated/hostile protected frames is memory-safe for every access with a linear offset in "
             "src/crypto.cpp (payload vectors, PTK, scratch blocks, OpenSSL block/digest sizes); (R3) WPA2 keys are "
             "looked up by source pair then destination pair; (R4) the step table of RSNHandshakeCapturer::do_insert: a "
             "message is appended iff it is the next expected one and a retransmission of the last stored message leaves "
             "the partial handshake untouched. Two genuine memory-safety defects found here were repaired with fix: commits. (R5) session keys derived from a newly captured handshake, or supplied by the user, overwrite the entry for the same address pair (map subscript assignment; insert()/emplace() keep the stale key). (R6) WEP: every registration of a password keeps key_buffer_ at least 3 + the longest key (grow-only resize through max() or a guarded resize), since decrypt() copies IV + key unchecked; (R7) a completed handshake taken from the capturer is cleared on every path afterwards (directly or through a callee that always clears). (R8) find_ap, extract_addr_pair, extract_addr_pair_dst and the WEP look-up select BSSID / source / destination among addr1-3 as the IEEE 802.11 To-DS/From-DS table prescribes, for the three 3-address combinations. (R9) the capturer's table of partial handshakes is modified per station only (erase(key)); a clear() outside the user-requested reset is a violation. (R10) every 16-bit word the TKIP key mixing (RC4Key::from_packet) builds from two octets of one array has the least significant octet at the lower offset (key, transmitter address), and the three words taken from the TKIP header are IV16 = (octet 0, octet 2), Lo16(IV32) = (octet 5, octet 4), Hi16(IV32) = (octet 7, octet 6) (found and fixed: IV32 was loaded with its octets swapped, so frames with TSC >= 65536 were never decrypted). (R10 also: the address mixed into TKIP phase 1 is addr2(), the transmitter.) (R11) every key under which WPA2Decrypter stores or looks up session keys is made by make_addr_pair (directly or through extract_addr_pair*). (R10 also: CCMP AAD octet 22 carries the fragment number.)",
        note="NOT decided: cipher correctness, PTK derivation, handshake orderings (seeded changes of that kind are not "
             "detected). One CCMP per-block offset depends on division/modulo and is listed as undecided, not proven.",
    ),
    "C10": dict(
        category="other",
        design_ref="DESIGN.md section 3 / C10",
        technique="static analysis: E-BOUNDS abstract interpretation with a proved class invariant, by-reference effect "
                  "summaries, pairing / must-pass-through and shape rules on the clang CFG",
        text="Decides the structural clauses of C10: (R1) every raw access of every DNS member function stays inside "
             "records_data_ or the caller's buffers (incl. the 256-byte name buffers), given the class invariant "
             "answers<=authority<=additional<=size which is proved for the constructors and add_query and carried by shape "
             "rules for the add_record family; (R2) each add_* bumps exactly its own header count on every path; (R3) "
             "exactly the later sections are shifted, by exactly the bytes inserted; (R4) each getter reads its own "
             "section; (R5) the record walker keeps cursor and remaining length in lock-step. Three genuine defects were "
             "found: two repaired (fix: commits), one recorded as known finding (update_records' unbounded walk on "
             "hostile record data). (R6) every (section index, record count) pair handed to the pointer-rewriting walker names the same section; (R7) convert_records: a char buffer later read as a C string is written only by the text producers (compose_name, address formatters); message bytes go into a std::string with explicit length. (R8) a decoded compression pointer (message offset) meets a records-relative offset only after the 12-byte header was accounted for on one side (both decoders: compose_name, update_dname). (R8 also evaluates the relocation guard around the boundary: a pointer is re-encoded exactly when its target is at or behind the insertion point.) (R9) record walkers keep no scalar/string state across iterations unless it is reassigned on every path of the iteration before being read. (R10) skip_to_dname_end classifies all 256 first-octet values as end / 2-octet pointer / label / malformed; (R11) update_records relocates record data for exactly the types contains_dname() names. (R3 also: in add_query / add_record every update_records call precedes the insertion that moves the record bytes.)",
        note="NOT decided: pointer-rewriting arithmetic, name length limits (255 octets), typed record data, "
             "re-parse equality. The add_record family reaches the indices through pointers-to-member, outside E-BOUNDS' "
             "language: its invariant obligations are carried by R3's shape rules, not proved.",
    ),
    "C11": dict(
        category="other",
        design_ref="DESIGN.md section 3 / C11",
        technique="static analysis: table-agreement rules over the clang AST (setter/getter/RADIOTAP_METADATA), "
                  "must-pass-through on the CFG, finite evaluation of the re-padding comparison chain, and affine "
                  "(linear-equality) invariant checking of the writer's offset bookkeeping (vlib/affine.py)",
        text="Structural part. Decides: (R1) every field setter's flag and encoded length, the getter's flag and decode "
             "width and the shared size/alignment table agree, and each settable field's table alignment is its natural "
             "alignment; (R2) writer and parser take size/alignment only from the table and align from the RadioTap header "
             "start; (R3) it_len/FCS are derived at serialisation and the parser rejects a failed FCS only when an FCS is present; (R4) an inserted field's present bit is always recorded; "
             "(R5) one re-padding step leaves exactly the needed padding for all (existing, needed) pairs; (R6) "
             "`offset == offset0 + i + D` is an inductive invariant of update_paddings and every buffer edit addresses the "
             "padding run being fixed - the rule that found the order-dependent layout corruption (fixed, 9ffa2d0). (R7) RadioTapWriter::write_option inserts at the position the field walk stopped at (or 0 in an empty buffer), never at buffer_.size(). Getters of a field made of several scalars decode exactly one of the scalars the setter lays out (slot agreement), whether bytes are moved by memcpy or through the cursor classes. (R5 also: the needed-padding formula of update_paddings is evaluated for alignments 1/2/4/8 and offsets 0..16; write_option hands update_paddings offset + own padding + size.)",
        note="NOT decided: last-write-wins and canonical layout over arbitrary setter sequences as a whole (the rules are "
             "necessary local conditions of it: table agreement, alignment origin, single-step correctness, cursor "
             "invariant), extended present words / vendor namespaces, parsing of hostile headers (C01).",
    ),
    "C12": dict(
        category="other",
        design_ref="DESIGN.md section 3 / C12",
        technique="static analysis: special-member typestate over the clang CFG for pointer-owning classes (found from "
                  "their destructors), must-pass-through rule for the parent back-link, clone()/copy-forwarding shape rules",
        text="Decides the ownership and linking clauses visible in code shape: (R1) for PDU and Packet, copy never aliases, "
             "copy-assign is self-assignment safe, releases the old tree and re-establishes the pointer on every path incl. a "
             "source without layers, move leaves the source null; (R2) every store of a child into inner_pdu_ is followed "
             "on all paths by parent_pdu(this), release clears the parent; (R3) clone() of every instantiable concrete layer "
             "class returns new K(*this); (R4) user-declared copy members forward to the PDU base. Two genuine defects "
             "found this way were repaired with fix: commits (see known_findings.json 'fixed'). (R5) outside constructors an owning pointer member is overwritten only after the old target was deleted, saved or handed over on that path; (R6) a layer pointer obtained through the non-owning inner_pdu() getter is never deleted on a path on which the parent has not released it (expected count 0; fixture controls). (R7) a member container whose elements the destructor deletes (found from the destructor: TCPStream's fragment maps) is assigned / cleared outside constructors only after its elements were freed on that path. (R7 also covers element slots `T*& s = cont[k]`: overwritten only when known null or after delete.) (R8) PDUOption: typestate over (size class, heap ownership) through every constructor, assignment operator and the destructor - `real_size_ > small_buffer_size` holds exactly when payload_ owns a heap block at every exit, no delete[] of inline bytes, no pointer overwritten while owned. (R9) PDU::inner_pdu(const PDU&) uses its argument only before the current child chain is released; PDU copy/move members do not take over the source's parent link. (R10) assignment operators of owning classes do their work on the not-self side of a self test; release_*() leaves the owning member null. (The PDUCacher instantiations are produced by a call of clone(), so a changed return type is judged, not a build failure of the synthetic unit.)",
        note="Deep equality of field values of copies and 'freed exactly once' over arbitrary programs are not decided; "
             "TCPStream's fragment maps (legacy API) are outside R1's structural owner detection.",
    ),
    "C13": dict(
        category="proof",
        design_ref="DESIGN.md section 3 / C13",
        technique="static analysis: exhaustive class x flag table computed from resolved declarations and "
                  "final-overrider bodies (clang AST via libTooling extractor)",
        text="Decides the whole statement: for every concrete PDU class K (incl. PDUCacher<K>, instantiated in a "
             "synthetic TU) and every flagged class T, find_pdu<T>/tins_cast<T> can succeed on a K only if T is K "
             "or a base of K, and a search by K's own class succeeds. Finite quantifier, enumerated completely "
             "(~23k pairs). The PDUCacher flag-sharing defect is a recorded known finding. pdu_type() bodies are read as value SETS: a conditional whose condition reads object state contributes both arms, so a type flag that depends on mutable packet data is checked against every class it can claim to be. The helper templates themselves are checked on every instantiation the library makes (rule `helpers`): find_pdu / tins_cast return null or a static_cast of the very object whose matches_flag(type) / pdu_flag == pdu_type() test dominates the cast; the search cursor only follows inner_pdu(). (A matches_flag body that reads object state - type(), a field - is evaluated for every value the body compares that state with: A(K) is the set of flags accepted in SOME state.)",
        note="Trusted: clang 14 front end, tools/tinsfacts.cc, the five-production grammar of matches_flag bodies "
             "(anything outside it is exit 2, never a pass). User-defined PDU subclasses are outside the quantifier; "
             "find_pdu<T>(type) assumed called with its default argument.",
    ),
    "C14": dict(
        category="other",
        design_ref="DESIGN.md section 3 / C14",
        technique="static analysis: abstract interpretation over the clang CFG with linear guard facts and a small "
                  "inequality prover (E-BOUNDS) on every matches_response override; Boolean truth table of the IPv4 address condition",
        text="Decides clause 3 - 'for every layer class and every buffer of any length, including zero, response "
             "matching reads only inside the buffer': every dereference, struct overlay, memcmp/memcpy and the "
             "(ptr + X, total_sz - X) hand-over to the inner layer in all matches_response overrides (incl. PDUCacher "
             "instantiations) is proved in bounds from the guards that dominate it. One genuine defect found this way "
             "(RadioTap::matches_response) was repaired with a fix: commit. Of clauses 1-2 only the IPv4 address predicate is "
             "decided (R2): its truth table over the four address comparisons accepts mirrored addresses and never accepts a "
             "packet not addressed to us or, for unicast requests, not sent by the requested host. (R4) ICMP / ICMPv6 query matching evaluated exhaustively over (request type, reply type) in the enum values, every constant compared with and an outside value, with the remaining equalities as boolean inputs: echo, timestamp and address-mask requests accept their own reply type iff identifier and sequence number are equal; no other type combination is accepted unless the enumerator names form a REQUEST/REPLY (SOLICIT/ADVERT) pair. (R5) TCP, UDP and 802.1Q: the predicate guarding the inner match, as a bit-level expression over our header bits and the reply's bytes (E-BITS), is identically true for the mirrored header (ports swapped / same VLAN id, as located by the public getters) and identically false when any single one of those bits differs. (R6) the size test of every matches_response accepts a reply that is exactly the header structure it overlays (no `<=` off-by-one). (R7) no matches_response reads a field that only serialisation derives (next-protocol tags, lengths, checksums), except a tag read under `no inner layer`. (R8) IP: outside the address test a packet is accepted only under EQUALITY of our header with the header an ICMP error quotes, read at sizeof(ip_header) + sizeof(icmp_header) (found and fixed: memcmp without == 0 accepted every unrelated ICMP error). R5 executes the whole predicate on every path (bit provenance with path enumeration) and so does not depend on how the test is spelled.",
        note="The rest of clauses 1-2 (identifiers, ports, sequence numbers, other layers' predicates) is value-level and NOT decided. Assumes "
             "no overflow in additions of 32-bit lengths; little-endian arm only.",
    ),
    "C17": dict(
        category="other",
        design_ref="DESIGN.md section 3 / C17",
        technique="static analysis: exception-escape analysis over the resolved call graph with try/catch filtering; "
                  "must-pass-through and loop-shape rules on the clang CFG",
        text="Decides the 'never lets an exception escape from the per-packet loop' clause and the structural part of "
             "'skips malformed frames, ends cleanly at end of file': (R1) every function installed as pcap callback has an "
             "empty escape set given what the parsers can throw; (R2) every link type DataLinkType<T> lets the writer announce has a reader arm creating T (found and fixed "
             "Loopback/DLT_LOOP); (R3) a handler reads the captured bytes itself only under a caplen guard (found and fixed "
             "the raw-IP handler); "
             "(R4) every handler marks the frame processed on all paths, "
             "next_packet loops only while no packet was produced and the handler ran, a negative pcap result yields a null "
             "packet. (R5) every pcap_pkthdr libtins hands to pcap_dump / pcap_offline_filter has caplen and len (and ts for the writer) assigned from the frame on every path to the call; (R6) every Packet constructor / assignment operator that receives a timestamp or another packet object stores that timestamp in ts_ (copy, move, RefPacket, PtrPacket). (R5 also bounds caplen by the size() of the byte container handed to libpcap; R6 also requires a null test before dereferencing the source packet's layer pointer in the copy members.) (R7) in sniff_loop (instantiated in a synthetic TU) the try block that swallows the callback's malformed_packet / pdu_not_found lies inside the packet loop. (R8) SnifferIterator: fetches on construction and on both increments, turns into the end iterator when next_packet() yields none, compares by sniffer pointer, != negates ==. (R9) every PacketWriter constructor writes handle_ and dumper_ before anything reads them, following the member it delegates to (move constructor -> move assignment). (R1/R2 also read a constant {link type, &handler} table searched by a loop.) (R6 also: PacketWriter::write(Packet&) writes the record with the packet's own timestamp on every path; R8 also: post-increment does not build an iterator from the sniffer pointer.)",
        note="Byte/timestamp round-trip through PacketWriter/FileSniffer and agreement with libpcap's BPF matcher are "
             "runtime-value clauses and NOT decided. libpcap is assumed to call the handler at most once per pcap_loop(...,1,...).",
    ),
    "C18": dict(
        category="other",
        design_ref="DESIGN.md section 3 / C18",
        technique="static analysis: enumeration of every static-storage object from the AST, read/write/escape "
                  "classification of every reference, libc deny-list, LLVM-IR store cross-view (thorough)",
        text="Decides the 'no hidden shared mutable state inside libtins' clause completely for the configured "
             "build: every object with static storage duration (incl. function-local statics, class statics, statics "
             "of template patterns) is const without mutable parts, never written outside its initialiser, or a "
             "listed registry written only by register_allocator; no non-re-entrant libc call on the thread-private "
             "surface; HMAC never uses its static result buffer. Anything new that is writable is a violation by "
             "default; positive controls run on every invocation. (A static CONST POINTER to a non-const object that is handed to a callee as pointer-to-non-const is shared mutable state.)",
        note="Does not model state inside libpcap/OpenSSL/libstdc++ beyond the deny-list; 'each thread obtains the "
             "same results' follows only under that assumption. register_allocator is treated as configuration "
             "performed before threads start.",
    ),
    "C15": dict(
        category="other",
        design_ref="DESIGN.md section 3 / C15",
        technique="static analysis: bit-provenance abstract interpretation (E-BITS) of every scalar setter composed with "
                  "its getter over the clang AST with record layouts; callees (Endian::*, small_uint, address classes) "
                  "are inlined from their own AST; nothing is executed",
        text="Decides the accessor clauses for all 272 scalar header-field pairs, for every value and every prior object "
             "state (little-endian arm): (R1) getter(setter(o,v)) == v bit for bit; (R2) no value bit is dropped unless "
             "the parameter type or an explicit range check excludes it, and small_uint<n> really rejects values above "
             "2^n-1 (R0); (R3) the setter changes only the storage of its own field (plus two tabled derived members) "
             "and every getter reading other bits keeps its value; (R4) serialisers assign only the 32 tabled derived fields, "
             "every other field keeps the value that was set; (R5) the little- and big-endian declarations of every packed "
             "header agree on the wire bits of each bit-field of equal name and width (96 fields; found and fixed PPPoE's "
             "version/type nibbles). Option-backed accessors (34) and non-scalar "
             "parameters (100) are outside this property's scalar-field quantifier and are counted in the evidence. (R6) setters taking an IPv4/IPv6/hardware address store exactly the address's network-order image (for IPv4Address the bits of operator uint32_t()): no additional byte swap, so the serialization carries the octets in order. (R7) selector accessors (TCP::set_flag / get_flag over all 8 enumerators): value returned, other selectors untouched, value shown at the enumerator's own bit of flags(); R2 also rejects range checks whose limit is not 2^k-1; (R8) 15 length / header-length / checksum fields are stored on every path through their serialiser. (R9) BootP::chaddr<20> (instantiated in a synthetic TU) writes only the 16-octet chaddr field; C05.R3 mirror pairing is re-run here. (Setters that branch on the value are enumerated path by path and get(set(v)) == v is evaluated for all 2^w values.)",
        note="NOT decided: that bit positions are those the protocol specification assigns (R5 only makes the two "
             "declarations agree with each other); the serialisation-diff clause beyond 'only the field's own members change'; "
             "the accessor code of the big-endian #if arms (their declarations are compared by R5). Trusted: clang's record "
             "layout for x86-64, tools/tinsfacts.cc, vlib/bitprov.py's operator semantics (selftest battery: 17 "
             "mutants / 6 benign variants).",
    ),
    "C16": dict(
        category="other",
        design_ref="DESIGN.md section 3 / C16",
        technique="static analysis: comparison-only truth table of contains(); finite evaluation of the hardware-address "
                  "parser's character tests over all 256 byte values; structural rules on operators, hashes, inet_pton "
                  "gating and mask helpers over the clang AST/CFG; abstract interpretation of the byte-wise "
                  "carry chains (E-BYTEWALK)",
        text="NARROW claim. Decides: (R1) AddressRange::contains(x) equals first <= x <= last on every ordering (the "
             "address is touched only through < and ==) and the constructor throws exactly when last < first; (R2) the six "
             "comparison operators of IPv4Address, IPv6Address, HWAddress<6> are one order over the same storage; (R3) each "
             "std::hash specialisation reads only the address value; (R4) inet_pton's result gates success and the other "
             "edge throws; the hardware parser's per-character classification, evaluated for all 256 byte values, accepts "
             "exactly the hex digits with their values and ':'; (R5) range ends are address AND mask / address OR NOT mask; "
             "(R6) iteration: increment_buffer / decrement_buffer (IPv6, hardware addresses) are the big-endian successor / predecessor "
             "for every carry length 0..N and return true exactly on wrap-around (abstract interpretation of the carry chain over "
             "{pivot, not pivot, any} bytes of the real length); the scalar IPv4 increment's flag means wrap-around too; the range "
             "iterator takes its flag from increment(address_) in both the end sentinel (body or member initialiser after address_) and operator++, compares address and flag, and its operator!= is the exact negation of operator== (delegating or written out: truth table); the IPv4 successor and its wrap flag are EXECUTED on 13 boundary values when not written `++v == 0`. (R7) IPv4Address::from_prefix_length evaluated for all 33 prefix lengths and IPv6Address::from_prefix_length / operator/(HWAddress<6>, int) interpreted byte-wise for all 129 / 49: exact masks, no out-of-range shift (undefined behaviour reported as such); (R8) inet_ntop is given a buffer of at least INET6_ADDRSTRLEN / INET_ADDRSTRLEN bytes and that buffer's size. (R9) the hardware-address printer maps each of the 16 nibble values to its hexadecimal digit, high nibble first. (R4 also rejects scanf/strtoul-style parsing in the address text constructors.) (R10) the byte loops of HWAddress<6> (mask operators, broadcast fill) visit exactly positions 0..5. (R11) the post-increment of the range iterators steps through the pre-increment of the same object, never through itself (an unconditional self-call never returns), and returns the copy taken before (found and fixed: `it++` recursed until the stack was exhausted). Text conversion rules execute the code for all 256 byte values, so lookup tables, helpers and arithmetic are judged alike. (R3 also: a raw copy out of the address in a hash has the address's own size as its length.) (R4 also: the C-string constructors skip the validating parser for the null pointer only.)",
        note="NOT decided: IPv4/IPv6 text round trip (delegated to inet_pton/ntop), agreement of < with numeric byte order "
             "(IPv4 host-order storage), prefix-length masks at /0,/31,/32,/127,/128, group structure of the hardware "
             "grammar, the order of visited addresses as a whole (the successor function and the end protocol are decided, R6) - value-level.",
    ),
    "C19": dict(
        category="other",
        design_ref="DESIGN.md section 3 / C19",
        technique="static analysis: decision table of the query compared with the property text; pairing, comparison "
                  "discipline (seeded taint) and must-pass-through rules on the clang CFG",
        text="NARROW claim. Decides: (R1) is_segment_acked's decision table - zero length => acknowledged; a piece that "
             "neither ends below the cumulative ACK nor is SACKed => not acknowledged; otherwise continue; true only after "
             "the last piece (complete table: values are only touched through seq_compare's sign and set membership); (R2) "
             "every ACK advance in process_packet is preceded by cleanup_sacked_intervals(old, new); (R3) sequence numbers "
             "are ordered only through seq_compare; (R4) no well-formed SACK block above the ACK is skipped. (R5) a SACKed piece that starts >= 1 above the cumulative ACK is recorded, never folded into the ACK (finite evaluation of the branch condition with the real seq_compare body over ACK values around 0, 2^31 and the wrap and distances 1,2,3,1460,2^31-1); (R6) process_sack() is reachable both through and around the ACK advance. (R7) the AckTracker a Flow creates is told to read SACK blocks (use_sack true / defaulted), never gated on the flow's own SACK-permitted flag. (R8) the SACK piece loop is guarded only by index-in-range, left<right and ends-above-ACK; Flow::process_packet feeds the tracker under no condition but the TCP layer's presence and ack_tracking. (R8 also: the SACK block index is bounded by the option's own size, not by a smaller quantity; no member of Flow that REPLACES ack_tracker_ runs after the tracker was fed with the same segment. R2: the cleanup before the cumulative ACK moves is recognised by its effect - every piece of AckedRange(old, new) erased - in a member or in place.) (R2 also: the cumulative ACK advances on every path on which seq_compare(new, old) > 0; R8 also: the transition to ESTABLISHED re-creates the tracker from the segment's ACK.)",
        note="NOT decided: the interval arithmetic over the wrapping 32-bit space, interval merging/splitting, agreement "
             "with a set-of-acknowledged-bytes model over histories - these are value-level.",
    ),
}

PENDING_REASON = "static rules for this property are designed (DESIGN.md section 3) but not yet implemented/validated; not claimed until silent-and-sensitive"

NOT_APPLICABLE = {
}

ALL = ["C%02d" % i for i in range(1, 20)]
