"""shared helper: run E-BOUNDS over a set of functions and report the obligations"""
from vlib import facts, bounds


def short_id(f):
    s = f["id"]
    return s.split("(")[0].replace("Tins::", "") + ("(" + s.split("(", 1)[1] if f["name"] in ("convert", "from_option") else "")


def run_functions(db, rep, rule, funcs, accept_undecided=True, cache={}):
    """returns (#functions analysed, #obligations)"""
    nob = 0
    nf = 0
    for f in sorted(funcs, key=lambda f: f["id"]):
        if not f.get("cfg"):
            continue
        nf += 1
        try:
            key_ = (db.key, f["id"])
            if key_ in cache:
                b = cache[key_]
            else:
                b = bounds.FnBounds(db, f).run()
                cache[key_] = b
        except facts.AnalysisBroken as e:
            rep.analysis_broken(str(e))
            continue
        except Exception as e:   # an engine bug must never look like a pass
            import traceback
            rep.analysis_broken("E-BOUNDS failed on %s: %s" % (f["id"], traceback.format_exc()[-600:]))
            continue
        seen = {}
        for o in sorted(b.obls.values(), key=lambda o: (o.node.get("l", 0), str(o.node["id"]))):
            nob += 1
            base = "%s|%s|%s" % (short_id(f), o.kind, o.text[:70])
            seen[base] = seen.get(base, 0) + 1
            key = base if seen[base] == 1 else "%s#%d" % (base, seen[base])
            site = facts.loc(f, o.node)
            if o.verdict == "ok":
                rep.ok(rule, key, site, o.why[:200])
            elif o.verdict == "violation":
                rep.violation(rule, key, site, "%s: %s" % (o.text[:100], o.why[:600]))
            else:
                rep.undecided(rule, key, site, o.why[:200])
    return nf, nob
