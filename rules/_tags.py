"""Shared by C03.R1 and C05.R3: where a serialiser looks up the next-protocol tag of its payload.

   A lookup site is a call to Internals::pdu_flag_to_ether_type / pdu_flag_to_ip_type written in the serialiser, or a
   call to a library helper that returns the result of such a call (`static e payload_ether_type(const PDU* p)`): the
   helper's result is the lookup's result, 'unknown' value included, and the class it is looked up for is the helper's
   argument expression with the caller's arguments substituted for the helper's parameters."""
import re
from vlib import facts
from vlib.facts import strip

ETH_LOOKUP = "Tins::Internals::pdu_flag_to_ether_type"
IP_LOOKUP = "Tins::Internals::pdu_flag_to_ip_type"
LOOKUPS = (ETH_LOOKUP, IP_LOOKUP)
CASTS = ("ImplicitCastExpr", "ParenExpr", "CStyleCastExpr", "CXXStaticCastExpr", "CXXFunctionalCastExpr")
_MEMO = {}


def holders_of(f, is_lookup):
    """{local variable (or ('direct', call id)): lookup name} for every lookup call of f"""
    idx, par = facts.index_fn(f)
    out = {}
    for c in facts.fn_nodes(f):
        q = is_lookup(c)
        if not q:
            continue
        p = par.get(c["id"])
        while p is not None and p["k"] in CASTS:
            p = par.get(p["id"])
        if p is not None and p["k"] == "VarDecl":
            out[p["var"]] = q
        elif p is not None and p["k"] == "BinaryOperator" and p.get("op") == "=" and strip(p["c"][0])["k"] == "DeclRefExpr":
            out[strip(p["c"][0])["var"]] = q
        else:
            out[("direct", c["id"])] = q
    return out


def direct(n):
    return n.get("cqual") if n["k"] == "CallExpr" and n.get("cqual") in LOOKUPS else None


def helper(db, callee):
    """(function, lookup name) when `callee` is a library helper returning a lookup result, else None"""
    key = (id(db), callee)
    if key in _MEMO:
        return _MEMO[key]
    _MEMO[key] = None
    h = db.fn(callee) if callee else None
    if h is None or not h.get("body") or not (h.get("file", "").startswith(("src/", "include/tins"))) or h["qual"] in LOOKUPS:
        return None
    if h["qual"].split("::")[-1] in ("write_serialization",):
        return None
    hold = holders_of(h, direct)
    if not hold:
        return None
    qs = set()
    for r in facts.fn_nodes(h):
        if r["k"] != "ReturnStmt" or not r.get("c"):
            continue
        for x in facts.walk(r["c"][0]):
            if direct(x):
                qs.add(direct(x))
            if x["k"] == "DeclRefExpr" and x.get("var") in hold:
                qs.add(hold[x["var"]])
    if len(qs) == 1:
        _MEMO[key] = (h, qs.pop())
    return _MEMO[key]


def make_is_lookup(db):
    def is_lookup(n):
        d = direct(n)
        if d:
            return d
        if n["k"] in ("CallExpr", "CXXMemberCallExpr") and n.get("callee") and not n.get("ext"):
            hq = helper(db, n["callee"])
            if hq:
                return hq[1]
        return None
    return is_lookup


def looked_up_for(db, f, call):
    """[text of the class expression each underlying lookup is made for], in terms of f's own expressions"""
    def arg_txt(fn, c):
        a = facts.strip_all(facts.inline_locals(fn, c["c"][1]))
        return facts.expr_str(a).replace("this->", "")
    if direct(call):
        return [arg_txt(f, call)]
    hq = helper(db, call.get("callee"))
    if not hq:
        return []
    h = hq[0]
    args = call["c"][1:]
    sub = {}
    for p, a in zip(h.get("params", ()), args):
        sub[p.get("name")] = facts.expr_str(facts.strip_all(facts.inline_locals(f, a))).replace("this->", "")
    out = []
    for c in facts.fn_nodes(h):
        if direct(c):
            t = arg_txt(h, c)
            for nm, rep_ in sub.items():
                if nm:
                    t = re.sub(r"(?<![\w.>])%s(?!\w)" % re.escape(nm), lambda m: rep_, t)
            out.append(t)
    return out
