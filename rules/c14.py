"""C14 - response matching is memory-safe (clause 3 only; DESIGN.md C14).

 R1 bounds  E-BOUNDS over every matches_response override (and PDUCacher's):
            every read through the (ptr,total_sz) pair is inside the buffer,
            for every buffer length including zero; the recursion into the inner
            layer passes (ptr + X, total_sz - X) with X <= total_sz (lock-step).
Not decided: that mirrored replies match and strangers do not (value level).
The design's R3 (memcmp results used through an explicit comparison) was
withdrawn: the existing test suite pins IP::matches_response's current use of a
bare memcmp() result, so the rule would be a false alarm (DESIGN.md section 4).
"""
from vlib import facts, cfg, cond
from rules import _bounds, c13

PID = "C14"


def targets(db):
    out = []
    c13.with_cachers(db)
    for f in db.functions.values():
        if f["name"] == "matches_response" and f.get("body") and not f.get("implicit"):
            out.append(f)
    # helpers they hand the buffer to
    extra = []
    for f in out:
        for n in facts.fn_nodes(f):
            if n["k"] in ("CallExpr", "CXXMemberCallExpr") and n.get("callee") and not n.get("ext") and not n.get("virt"):
                g = db.fn(n["callee"])
                if g and g["name"] != "matches_response" and any(
                        (facts.tyi(g, p["t"]) or {}).get("k") == "ptr" for p in g["params"]):
                    extra.append(g)
    ids = set()
    res = []
    for f in out + extra:
        if f["id"] not in ids:
            ids.add(f["id"])
            res.append(f)
    return res


def run(db, rep, tier):
    rep.rule("R1-bounds", "every read in a matches_response override stays inside [ptr, ptr+total_sz); inner calls advance "
                          "pointer and length in lock-step", 40)
    fs = targets(db)
    n_over = sum(1 for f in fs if f["name"] == "matches_response")
    if n_over < 17:
        rep.analysis_broken("expected >= 17 matches_response overrides, found %d" % n_over)
    nf, nob = _bounds.run_functions(db, rep, "R1-bounds", fs)
    rep.extra["functions_analysed"] = nf
    rep.rule("R4-icmp-pairs", "ICMP / ICMPv6 queries: the matching reply type with equal identifier and sequence number is accepted, a differing "
                              "identifier or sequence number is not, and no other (request type, reply type) combination is", 5)
    rep.rule("R2-address-table", "IPv4: a reply from the mirrored addresses can match; one not addressed to us (or, for unicast requests, "
                                 "not coming from the requested host) never matches", 3)
    r2(db, rep)
    rep.explanation = ("Decides clause 3 of C14 (memory safety of response matching for every layer class and every buffer "
                       "length incl. zero): abstract interpretation of all %d matches_response overrides (+ PDUCacher "
                       "instantiations and the helpers that receive the buffer) with linear facts from the dominating guards; "
                       "%d access obligations. Of clauses 1-2 only the IPv4 address predicate is decided (R2: truth table of the "
                       "address condition over its four comparisons); identifiers, ports and the other layers' predicates are "
                       "value-level and not decided." % (n_over, nob))
    rep.assumptions += ["additions of 32-bit lengths do not overflow", "little-endian host arm of the byte-order macros"]


def r8_quoted(db, rep, f):
    """IP::matches_response accepts an ICMP error as the answer when it quotes our own header.  The only accepting
    exits of the function are (i) the inner match / `true` under the address condition (R2) and (ii) `true` under
    EQUALITY of memcmp(our header, quoted header) - a test `memcmp(...)` without `== 0` accepts every packet that
    DIFFERS from ours - and the quoted header is looked for where RFC 792 puts it: behind the IP header and the 8-byte
    ICMP header."""
    rep.rule("R8-quoted-header", "IP: an ICMP error is accepted without the address test only when the header it quotes EQUALS ours "
                                 "(memcmp == 0), and the quoted header is read sizeof(ip_header) + sizeof(icmp_header) bytes into the packet", 2)
    from vlib import cond as _cond
    g = cfg.FnCFG(f)
    hdr = (db.records.get("Tins::IP::ip_header") or {}).get("size")
    icmp = (db.records.get("Tins::ICMP::icmp_header") or {}).get("size")
    if not hdr or not icmp:
        rep.analysis_broken("sizes of IP::ip_header / ICMP::icmp_header unknown")
        return
    pv = f["params"][0]["var"]
    cmps = [x for x in facts.fn_nodes(f) if x["k"] == "CallExpr" and x.get("cname") in ("memcmp", "equal") and
            any(y["k"] == "MemberExpr" and y.get("member") == "header_" for y in facts.walk(x))]
    key = "IP::matches_response:quoted-header-equal"
    # (a) accepting returns outside the address condition
    bad = None
    n_acc = 0
    for r_ in facts.fn_nodes(f):
        if r_["k"] != "ReturnStmt" or not r_.get("c") or facts.cval(r_["c"][0]) == 0:
            continue
        gf = _cond.guards_facts(g, g.pos(r_))
        txt = " ".join(facts.expr_str(facts.inline_locals(f, c_)) for c_, pol_, _ in g.guards_at(g.pos(r_)) if pol_)
        # plus the conditions of the ifs the return is nested in (a disjunction has no single dominating edge)
        idx_, par_ = facts.index_fn(f)
        cur = r_
        while cur is not None:
            p_ = par_.get(cur["id"])
            if p_ is not None and p_["k"] == "IfStmt":
                real_ = [x for x in p_["c"] if x is not None]
                if len(real_) >= 2 and any(x is cur for x in facts.walk(real_[1])):
                    txt += " " + facts.expr_str(facts.inline_locals(f, real_[0]))
            cur = p_
        if "saddr" in txt or "daddr" in txt:
            continue            # under the address condition: R2's business
        n_acc += 1
        eq = False
        for op, l, rr in gf:
            l0 = facts.strip_all(l)
            if l0["k"] == "CallExpr" and l0.get("cname") == "memcmp" and l0 in cmps or any(l0 is c_ for c_ in cmps):
                if (op == "==" and rr is not None and facts.cval(rr) == 0) or op == "false":
                    eq = True
                elif op in ("true", "!="):
                    bad = (r_, "the packet is accepted when memcmp(our header, quoted header) is NON-zero, i.e. whenever the quoted "
                               "bytes DIFFER from our header: any ICMP error from any host about any datagram is taken for the response")
            if l0["k"] == "CallExpr" and l0.get("cname") == "equal" and op == "true":
                eq = True
        if not eq and bad is None:
            bad = (r_, "the packet is accepted on a path that tests neither the addresses nor equality with our quoted header")
    if bad:
        rep.violation("R8-quoted-header", key, facts.loc(f, bad[0]), bad[1])
    else:
        rep.ok("R8-quoted-header", key, facts.loc(f), "%d accepting exit(s) outside the address test, each under memcmp(...) == 0" % n_acc)
    # (b) where the quoted header is looked for
    key = "IP::matches_response:quoted-header-offset"
    if not cmps:
        rep.ok("R8-quoted-header", key, facts.loc(f), "no comparison with a quoted header (ICMP errors are matched by address only)")
        return
    c_ = cmps[0]
    arg = None
    for a in c_["c"][1:3]:
        if not any(y["k"] == "MemberExpr" and y.get("member") == "header_" for y in facts.walk(a)):
            arg = facts.strip_all(a)
    off = None
    if arg is not None and arg["k"] == "DeclRefExpr" and arg.get("var"):
        v = arg["var"]
        total = None
        for x in facts.fn_nodes(f):
            if x["k"] == "VarDecl" and x.get("var") == v and x.get("c"):
                i0 = facts.strip_all(x["c"][0])
                if i0["k"] == "BinaryOperator" and i0.get("op") == "+" and facts.strip_all(i0["c"][0]).get("var") == pv and facts.cval(i0["c"][1]) is not None:
                    total = int(facts.cval(i0["c"][1]))
        if total is not None:
            ok_ = True
            for x in facts.fn_nodes(f):
                if x["k"] == "CompoundAssignOperator" and x.get("op") == "+=" and facts.strip_all(x["c"][0]).get("var") == v:
                    k_ = facts.cval(x["c"][1])
                    if k_ is None or not g.before_on_all_paths(g.pos(x), g.pos(c_)):
                        ok_ = False
                    else:
                        total += int(k_)
            off = total if ok_ else None
    if off is None:
        rep.undecided("R8-quoted-header", key, facts.loc(f, c_), "position of the quoted header is not a constant offset from the buffer start")
    elif off == hdr + icmp:
        rep.ok("R8-quoted-header", key, facts.loc(f, c_), "quoted header read at offset %d = sizeof(ip_header) + sizeof(icmp_header)" % off)
    else:
        rep.violation("R8-quoted-header", key, facts.loc(f, c_),
                      "the quoted header is compared at offset %d of the packet; an ICMP error carries it at offset %d (IP header %d + ICMP "
                      "header %d: type, code, checksum, 4 unused bytes): the comparison is made against the wrong bytes, so it "
                      "can never recognise the datagram it is about" % (off, hdr + icmp, hdr, icmp))


def r2(db, rep):
    r3(db, rep)
    rep.rule("R5-mirror-bits", "TCP / UDP / 802.1Q: the predicate guarding the inner match is true for the mirrored header (our field bits equal "
                               "the reply's swapped field bits) and false as soon as any one of those bits differs (bit provenance, both "
                               "byte orders of storage included)", 3)
    r5(db, rep)
    rep.rule("R6-header-only-reply", "a reply that consists of exactly the layer's header is not rejected by the size test: the smallest accepted "
                                     "length equals the size of the header structure the function overlays on the buffer", 10)
    r6(db, rep)
    rep.rule("R7-no-derived-reads", "response matching does not depend on fields that only serialisation derives (next-protocol tags, lengths, "
                                    "checksums): a request that was built but not yet serialised still holds stale values there", 10)
    r7(db, rep)
    from vlib import formula
    fs = db.fns_named("Tins::IP::matches_response")
    if not fs:
        rep.analysis_broken("IP::matches_response vanished")
        return
    f = fs[0]
    r8_quoted(db, rep, f)
    cand = None
    for n in facts.fn_nodes(f):
        if n["k"] == "IfStmt":
            c = [x for x in n["c"] if x is not None][0]
            t = facts.expr_str(c)
            inner = [x for x in n["c"] if x is not None][1]
            if any(x["k"] == "CXXMemberCallExpr" and x.get("cname") == "matches_response" for x in facts.walk(inner)):
                cand = (n, c)
    if cand is None:
        rep.analysis_broken("IP::matches_response: the address condition guarding the inner match was not found")
        return
    node, c = cand
    atoms, table = formula.expr_table(f, c)
    role = {}
    for a in atoms:
        t = a.replace("this->", "").replace(" ", "")
        if "saddr" in t and "daddr" in t and ("header_.saddr" in t and "->daddr" in t):
            role[a] = "A"       # our source == reply's destination
        elif "header_.daddr" in t and "->saddr" in t:
            role[a] = "B"       # our destination == reply's source
        elif "is_broadcast" in t:
            role[a] = "C"
        elif "header_.saddr" in t and t.endswith("==0") or t.startswith("0==") and "saddr" in t:
            role[a] = "D"       # we had no address (DHCP)
    unknown = [a for a in atoms if a not in role]
    if unknown or "A" not in set(role.values()) and "B" not in set(role.values()):
        rep.analysis_broken("IP::matches_response: address condition uses comparisons the rule does not know: %s" % (unknown or atoms))
        return
    bad = {}
    for vals, res in table.items():
        env = {}
        consistent = True
        for a, v in zip(atoms, vals):
            r = role[a]
            if r in env and env[r] != v:
                consistent = False
            env[r] = v
        if not consistent:
            continue
        import itertools
        missing = [r for r in ("A", "B", "C", "D") if r not in env]
        for extra in itertools.product((False, True), repeat=len(missing)):
            e2 = dict(env)
            e2.update(zip(missing, extra))      # a comparison the condition does not make: the result is the same either way
            A, B, C, D = e2["A"], e2["B"], e2["C"], e2["D"]
            if A and B and not res:
                bad["mirror"] = "a reply with both addresses mirrored is rejected (%s)" % e2
            if (not A) and (not D) and res:
                bad["to-us"] = "a packet that is not addressed to our source address is accepted (%s)" % e2
            if (not C) and (not B) and res:
                bad["from-peer"] = "for a unicast request a packet that does not come from the requested host is accepted (%s)" % e2
    for k, what in (("mirror", "mirrored addresses can match"), ("to-us", "must be addressed to our source unless we had none"),
                    ("from-peer", "unicast: must come from the requested host")):
        key = "IP::matches_response:%s" % k
        if k in bad:
            rep.violation("R2-address-table", key, facts.loc(f, node), bad[k])
        else:
            rep.ok("R2-address-table", key, facts.loc(f, node), "%s (truth table over %s)" % (what, sorted(set(role.values()))))


R3_TARGETS = (
    # function, enum, stems the property names (echo / timestamp / address-mask queries)
    ("Tins::ICMP::matches_response", "Tins::ICMP::Flags", ("ECHO", "TIMESTAMP", "ADDRESS_MASK")),
    ("Tins::ICMPv6::matches_response", "Tins::ICMPv6::Types", ("ECHO",)),
)
R3_SUFFIXES = (("_REQUEST", "_REPLY"), ("_SOLICIT", "_ADVERT"), ("_QUERY", "_REPORT"))


def r3(db, rep):
    """ICMP / ICMPv6 query matching: finite evaluation of matches_response over
    (request type, reply type) in enum values x enum values (plus every constant
    the body compares with and one value outside), with the remaining equality
    comparisons as boolean inputs.  The body only compares, so this is exhaustive."""
    from vlib import ieval
    for fname, ename, stems in R3_TARGETS:
        short = fname.split("::")[1]
        fs = db.fns_named(fname)
        en = db.enums.get(ename)
        if not fs or en is None:
            rep.analysis_broken("%s or %s vanished" % (fname, ename))
            continue
        f = fs[0]
        names = dict((x["name"], x["v"]) for x in en["enumerators"])
        byval = {}
        for n, v in names.items():
            byval.setdefault(v, []).append(n)
        pairs = {}
        for n, v in names.items():
            for a, b in R3_SUFFIXES:
                if n.endswith(a) and n[:-len(a)] + b in names:
                    pairs[(v, names[n[:-len(a)] + b])] = n[:-len(a)]
        required = dict((pr, st) for pr, st in pairs.items() if st in stems)
        if len(required) != len(stems):
            rep.analysis_broken("%s: request/reply enumerators for %s not found" % (ename, stems))
            continue
        dom = set(names.values())
        for n in facts.fn_nodes(f):
            v = facts.cval(n)
            if v is not None and 0 <= int(v) < 256:
                dom.add(int(v))
        dom.add(max(x for x in range(256) if x not in dom))
        total = [p for p in f["params"] if p["name"] == "total_sz"]
        if not total:
            rep.analysis_broken("%s: parameter total_sz not found" % fname)
            continue

        def is_type_ref(n):
            """'req' / 'rep' when n reads the ICMP type of the request (this) / of the buffer"""
            n0 = n
            if n0["k"] == "CXXMemberCallExpr" and n0.get("cname") == "type" and len(n0["c"]) == 1:
                g = db.fn(n0.get("callee"))
                obj = facts.strip_all(n0["c"][0]["c"][0]) if n0["c"][0].get("c") else None
                if g is not None and obj is not None and obj["k"] == "CXXThisExpr":
                    rets = [x for x in facts.fn_nodes(g) if x["k"] == "ReturnStmt"]
                    if len(rets) == 1 and any(y["k"] == "MemberExpr" and y.get("member") == "type" for y in facts.walk(rets[0])):
                        return "req"
                return None
            if n0["k"] == "MemberExpr" and n0.get("isfield") and n0.get("member") == "type":
                b = n0
                while b.get("c") and b["k"] in ("MemberExpr", "ImplicitCastExpr", "ParenExpr"):
                    b = b["c"][0]
                if b["k"] == "CXXThisExpr":
                    return "req"
                if b["k"] == "DeclRefExpr":
                    return "rep"
            return None

        def mentions_type(n):
            # (named locals holding the two types are read through)
            return any(is_type_ref(x) for x in facts.walk(facts.inline_locals(f, n, kinds=("int", "enum"))))

        def evaluate(q, p, flip=None):
            seen = []

            def tf(n):
                if n["k"] == "DeclRefExpr" and n.get("var") == total[0]["var"]:
                    return 4096
                r = is_type_ref(n)
                if r == "req":
                    return q
                if r == "rep":
                    return p
                if n["k"] == "BinaryOperator" and n.get("op") in ("==", "!=") and not mentions_type(n):
                    t = facts.expr_str(n)
                    if t not in seen:
                        seen.append(t)
                    eq = 0 if t == flip else 1
                    return eq if n["op"] == "==" else 1 - eq
                return None
            v = ieval.run_body(f, f["body"], {"__termfn__": tf, "__db__": db})
            return v, seen
        site = facts.loc(f)
        try:
            accepted = {}
            for q in sorted(dom):
                for p in sorted(dom):
                    v, seen = evaluate(q, p)
                    if v:
                        accepted[(q, p)] = seen
            nm = lambda v: "/".join(byval.get(v, [str(v)]))
            for (q, p), st in sorted(required.items()):
                key = "%s:pair:%s" % (short, st)
                if (q, p) not in accepted:
                    rep.violation("R4-icmp-pairs", key, site,
                                  "a %s (type %d) carrying the request's identifier and sequence number is not recognised as the "
                                  "response to a %s (type %d)" % (nm(p), p, nm(q), q))
                    continue
                atoms = accepted[(q, p)]
                leaks = []
                for a in atoms:
                    v, _ = evaluate(q, p, flip=a)
                    if v:
                        leaks.append(a)
                fields = " ".join(atoms)
                if leaks:
                    rep.violation("R4-icmp-pairs", key, site, "the reply is accepted although `%s` is false" % leaks[0])
                elif "id" not in fields or "seq" not in fields:
                    rep.violation("R4-icmp-pairs", key, site, "identifier and sequence number are not both compared for %s (comparisons made: %s)"
                                  % (nm(q), atoms))
                else:
                    rep.ok("R4-icmp-pairs", key, site, "%s -> %s accepted iff %s" % (nm(q), nm(p), " and ".join(atoms)))
            strangers = [(q, p) for (q, p) in sorted(accepted) if (q, p) not in pairs]
            key = "%s:strangers" % short
            if strangers:
                q, p = strangers[0]
                rep.violation("R4-icmp-pairs", key, site,
                              "a packet of type %s (%d) is accepted as the response to a request of type %s (%d): not a request/reply pair of %s "
                              "(%d such pair(s))" % (nm(p), p, nm(q), q, ename, len(strangers)))
            else:
                rep.ok("R4-icmp-pairs", key, site, "accepted (request, reply) type pairs %s are all request/reply pairs of %s; %d x %d values evaluated"
                       % (sorted(accepted), ename, len(dom), len(dom)))
        except ieval.Unknown as e:
            rep.analysis_broken("%s: body outside the finite evaluator: %s" % (fname, e))


MIRROR = {
    "Tins::TCP": (("sport", "dport"), ("dport", "sport")),
    "Tins::UDP": (("sport", "dport"), ("dport", "sport")),
    "Tins::Dot1Q": (("id", "id"),),
}


def _subst(b, fn):
    from vlib import bitprov as bp
    if isinstance(b, int):
        return b
    if b[0] in ("p", "m"):
        return fn(b)
    if b[0] == "not":
        return bp.b_not(_subst(b[1], fn))
    if b[0] in ("and", "or", "xor"):
        op = {"and": bp.b_and, "or": bp.b_or, "xor": bp.b_xor}[b[0]]
        acc = None
        for x in b[1]:
            y = _subst(x, fn)
            acc = y if acc is None else op(acc, y)
        return acc
    raise bp.Unsupported("opaque bit %r" % (b[0],))


def r5(db, rep):
    from vlib import bitprov as bp
    for K, pairs in sorted(MIRROR.items()):
        short = K.split("::")[-1]
        key = "%s::matches_response:mirror" % short
        fs = [f for f in db.fns_named(K + "::matches_response") if f.get("body")]
        rec = db.records.get(K)
        if not fs or rec is None:
            rep.analysis_broken("%s::matches_response vanished" % K)
            continue
        f = fs[0]
        hf = bp.field_of(db, K, "header_")
        if hf is None:
            rep.analysis_broken("%s: member header_ not found" % K)
            continue
        H = hf["off"]
        # the predicate itself: the whole function is executed symbolically (every path; 4096-byte buffer) for a layer whose
        # inner layer accepts, so its result is exactly "this header accepts that header" - independent of whether the
        # test is an if around the inner match, an early return of false, a ?: ...
        gst = f["body"]
        try:
            inner = bp.field_of(db, K, "inner_pdu_")
            if inner is None:
                raise bp.Unsupported("member inner_pdu_ not found")
            pt = facts.tyi(f, f["params"][0].get("t"))
            thist = {"k": "rec", "name": K, "size": rec["size"]}

            class AcceptingChild(object):
                """the inner layer's own matcher is taken to accept (the property speaks of layers WITH a payload)"""
                def construct(self, fr, n, loc):
                    return False

                def call(self, fr, n, callee, cname, objinfo, argn):
                    if cname == "matches_response" and objinfo is not None and objinfo[0] is not None and \
                            facts.strip(objinfo[0])["k"] != "CXXThisExpr":
                        return (bp.BV.const(1, 8),)
                    return None

            def run(setup):
                m = bp.Machine(db)
                setup(m)
                m.hooks = AcceptingChild()
                this = m.new_region("this", "m")
                P = m.new_region("P", "p")
                child = m.new_region("child", "c")
                m.regions[this][("ptr", inner["off"])] = bp.Ptr(bp.Loc(child, 0, {"k": "rec", "name": "Tins::PDU", "size": 24}))
                rv_ = m.call(f, bp.Loc(this, 0, thist), [bp.Ptr(bp.Loc(P, 0, (pt or {}).get("to"))), bp.BV.const(4096, 32)])
                if rv_ is None:
                    raise bp.Unsupported("a path returns no value")
                return bp.Frame(m, f, bp.Loc(this, 0, thist), 0).truth(rv_)
            cbit = 0
            for pc, res in bp.explore_paths(run):
                if res == "throw":
                    continue
                res = 1 if res is True else (0 if res is False else res)
                cbit = bp.b_or(cbit, bp.b_and(pc, res))
            thisloc = bp.Loc("this", 0, thist)
            # footprints of the getters
            pairing = {}        # buffer bit -> this bit
            for a, b in pairs:
                ba, bb = [], []
                for nm, out in ((a, ba), (b, bb)):
                    gs = [g_ for g_ in db.fns_named(K + "::" + nm) if g_.get("body") and not g_["params"]]
                    if not gs:
                        raise bp.Unsupported("getter %s() not found" % nm)
                    m2 = bp.Machine(db)
                    t2 = m2.new_region("this", "m")
                    r = m2.call(gs[0], bp.Loc(t2, 0, thisloc.t), [])
                    from rules.c15 import result_bits
                    out.extend(result_bits(m2, r))
                for x, y in zip(ba, bb):
                    if isinstance(x, int) and isinstance(y, int):
                        continue
                    if isinstance(x, int) or isinstance(y, int) or x[0] != "m" or y[0] != "m":
                        raise bp.Unsupported("getter bits are not plain header bits")
                    pairing[y[1] - H] = x[1]
        except bp.Unsupported as e:
            rep.analysis_broken("%s::matches_response: outside the bit-provenance interpreter: %s" % (short, e))
            continue
        if isinstance(cbit, bool):
            cbit = 1 if cbit else 0
        sp, sm = set(), set()
        bp.support(cbit, "p", sp)
        bp.support(cbit, "m", sm)
        site = facts.loc(f, gst)
        names = ", ".join("%s<->%s" % pr for pr in pairs)
        bad = None

        def mirror(flip=None):
            def fn(b):
                if b[0] == "p":
                    if b[1] in pairing:
                        v = ("m", pairing[b[1]])
                        return bp.b_not(v) if flip == b[1] else v
                    return b
                return b
            return _subst(cbit, fn)
        try:
            r0 = mirror()
            if r0 != 1:
                extra = sorted(x for x in sp if x not in pairing)
                bad = ("the mirrored reply (%s) is not accepted unconditionally%s" %
                       (names, ": the predicate also reads reply bit(s) %s outside the matched fields" % extra[:6] if extra else
                        " (the compared bits are paired differently)"))
            else:
                for j in sorted(pairing):
                    if mirror(flip=j) != 0:
                        bad = ("a reply that differs from the mirrored one only in bit %d of byte %d of its header (part of %s) is still "
                               "accepted" % (j % 8, j // 8, names))
                        break
        except bp.Unsupported as e:
            rep.analysis_broken("%s::matches_response: %s" % (short, e))
            continue
        if bad:
            rep.violation("R5-mirror-bits", key, site, bad)
        else:
            rep.ok("R5-mirror-bits", key, site, "%s: %d bit pairs, mirrored header accepted, every single-bit difference rejected" % (names, len(pairing)))


def r6(db, rep):
    from vlib.facts import strip
    n = 0
    for f in sorted(targets(db), key=lambda x: x["id"]):
        if not f.get("body") or len(f["params"]) != 2 or f["name"] != "matches_response" or (f.get("rec") or "").startswith("Tins::PDUCacher<"):
            continue
        szv = f["params"][1]["var"]
        ptrv = f["params"][0]["var"]
        top = f["body"].get("c", [])
        guard = None
        for st in top:
            if st["k"] != "IfStmt":
                if st["k"] in ("DeclStmt",):
                    continue
                break
            real = [x for x in st["c"] if x is not None]
            c = strip(real[0])
            while c["k"] == "CallExpr" and c.get("cname") == "__builtin_expect":
                c = strip(c["c"][1])
            if c["k"] == "BinaryOperator" and c.get("op") in ("<", "<=", ">", ">="):
                l, r = facts.strip_all(c["c"][0]), facts.strip_all(c["c"][1])
                lv, rv = facts.cval(c["c"][0]), facts.cval(c["c"][1])
                rets_false = any(x["k"] == "ReturnStmt" and x.get("c") and facts.cval(x["c"][0]) == 0 for x in facts.walk(real[1]))
                if not rets_false:
                    break
                if l.get("var") == szv and rv is not None:
                    guard = (st, {"<": int(rv), "<=": int(rv) + 1}.get(c["op"]))
                elif r.get("var") == szv and lv is not None:
                    guard = (st, {">": int(lv), ">=": int(lv) + 1}.get(c["op"]))
            break
        if guard is None or guard[1] is None:
            continue
        # the structure overlaid on the buffer
        S = None
        for x in facts.fn_nodes(f):
            if x["k"] in ("CStyleCastExpr", "CXXReinterpretCastExpr", "CXXStaticCastExpr"):
                t = facts.ty(f, x) or {}
                if t.get("k") == "ptr" and (t.get("to") or {}).get("k") == "rec" and \
                        any(y["k"] == "DeclRefExpr" and y.get("var") == ptrv for y in facts.walk(x)):
                    S = (t["to"].get("size") or (db.records.get(t["to"].get("name")) or {}).get("size"))
                    break
        if not S:
            continue
        n += 1
        key = "%s:size-test" % f["qual"].replace("Tins::", "")
        if guard[1] <= S:
            rep.ok("R6-header-only-reply", key, facts.loc(f, guard[0]), "accepts replies of %d bytes and more; the overlaid header has %d" % (guard[1], S))
        else:
            rep.violation("R6-header-only-reply", key, facts.loc(f, guard[0]),
                          "the size test rejects replies shorter than %d bytes, but the header it overlays has %d: a reply that is exactly its "
                          "header (a bare TCP SYN/ACK, an ICMP echo reply without data ...) is never recognised" % (guard[1], S))
    if n < 10:
        rep.analysis_broken("only %d matches_response size tests with an overlaid header found" % n)


def r7(db, rep):
    from rules import c15
    n = 0
    for f in sorted(targets(db), key=lambda x: x["id"]):
        if not f.get("body") or f["name"] != "matches_response" or (f.get("rec") or "").startswith("Tins::PDUCacher<"):
            continue
        rec = f.get("rec")
        derived = set(fld for (r_, fld) in c15.DERIVED_FIELDS if r_ == rec or r_ in db.all_bases(rec))
        n += 1
        key = "%s:derived-reads" % f["qual"].replace("Tins::", "")
        bad = None
        unevaluated = set()
        for x in facts.fn_nodes(f):
            if x["k"] == "UnaryExprOrTypeTraitExpr":
                for y in facts.walk(x):
                    unevaluated.add(y["id"])
        for x in facts.fn_nodes(f):
            if x["k"] == "MemberExpr" and x.get("isfield") and x["id"] not in unevaluated:
                b = x
                while b["k"] == "MemberExpr" and b.get("c"):
                    b = facts.strip_all(b["c"][0])
                if b["k"] != "CXXThisExpr":
                    continue
                path = facts.expr_str(x).replace("this->", "")
                if path in derived:
                    # a next-protocol tag is the user's own value as long as there is no inner layer to derive it from
                    gq = cfg.FnCFG(f)
                    no_inner = any(op == "false" and "inner_pdu()" in facts.expr_str(l) for op, l, r in cond.guards_facts(gq, gq.pos(x)))
                    if not no_inner:
                        bad = (x, path)
        if bad:
            rep.violation("R7-no-derived-reads", key, facts.loc(f, bad[0]),
                          "matching reads `%s`, which is only brought up to date by serialisation (%s): a request that has not been serialised "
                          "since it was built or edited rejects its own mirrored reply" % (bad[1], c15.DERIVED_FIELDS.get((rec, bad[1]), "derived")))
        else:
            rep.ok("R7-no-derived-reads", key, facts.loc(f), "reads none of the %d serialiser-derived fields" % len(derived))
    if n < 10:
        rep.analysis_broken("only %d matches_response functions" % n)
