"""C14 - response matching is memory-safe (clause 3 only; DESIGN.md C14).

 R1 bounds  E-BOUNDS over every matches_response override (and PDUCacher's):
            every read through the (ptr,total_sz) pair is inside the buffer,
            for every buffer length including zero; the recursion into the inner
            layer passes (ptr + X, total_sz - X) with X <= total_sz (lock-step).
Not decided: that mirrored replies match and strangers do not (value level).
The design's R3 (memcmp results used through an explicit comparison) was
withdrawn: the existing test suite pins IP::matches_response's current use of a
bare memcmp() result, so the rule would be a false alarm (DESIGN.md section 4).
"""
from vlib import facts
from rules import _bounds, c13

PID = "C14"


def targets(db):
    out = []
    c13.with_cachers(db)
    for f in db.functions.values():
        if f["name"] == "matches_response" and f.get("body") and not f.get("implicit"):
            out.append(f)
    # helpers they hand the buffer to
    extra = []
    for f in out:
        for n in facts.fn_nodes(f):
            if n["k"] in ("CallExpr", "CXXMemberCallExpr") and n.get("callee") and not n.get("ext") and not n.get("virt"):
                g = db.fn(n["callee"])
                if g and g["name"] != "matches_response" and any(
                        (facts.tyi(g, p["t"]) or {}).get("k") == "ptr" for p in g["params"]):
                    extra.append(g)
    ids = set()
    res = []
    for f in out + extra:
        if f["id"] not in ids:
            ids.add(f["id"])
            res.append(f)
    return res


def run(db, rep, tier):
    rep.rule("R1-bounds", "every read in a matches_response override stays inside [ptr, ptr+total_sz); inner calls advance "
                          "pointer and length in lock-step", 40)
    fs = targets(db)
    n_over = sum(1 for f in fs if f["name"] == "matches_response")
    if n_over < 17:
        rep.analysis_broken("expected >= 17 matches_response overrides, found %d" % n_over)
    nf, nob = _bounds.run_functions(db, rep, "R1-bounds", fs)
    rep.extra["functions_analysed"] = nf
    rep.explanation = ("Decides clause 3 of C14 (memory safety of response matching for every layer class and every buffer "
                       "length incl. zero): abstract interpretation of all %d matches_response overrides (+ PDUCacher "
                       "instantiations and the helpers that receive the buffer) with linear facts from the dominating guards; "
                       "%d access obligations. Clauses 1-2 (mirrored replies match, strangers do not) are value-level and not "
                       "decided." % (n_over, nob))
    rep.assumptions += ["additions of 32-bit lengths do not overflow", "little-endian host arm of the byte-order macros"]
