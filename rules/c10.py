"""C10 - DNS messages stay coherent (DESIGN.md C10).

 R1 bounds     E-BOUNDS over every DNS member function: raw walkers, section getters (their cursors are built
               from the section indices under the class invariant answers<=authority<=additional<=size), name
               (de)composition incl. the 256-byte output buffers, the constructors (which establish the invariant)
               and add_query (which preserves it through update_records' by-reference effect).
 R2 count      each add_query/answer/authority/additional bumps exactly its own header counter by one, on every path.
 R3 shift      an insertion for section k hands exactly the index members of the later sections to update_records,
               update_records adds the offset to the index it is given, and the bytes inserted equal that offset.
 R5 lockstep   inside the record walker the cursor and the remaining record-data length move together.
Not decided: pointer rewriting arithmetic, name length limits, typed data.
"""
from vlib import facts, cfg, bounds
from vlib.facts import strip
from rules import _bounds

PID = "C10"
DNS = "Tins::DNS"
SECTIONS = ["answers_idx_", "authority_idx_", "additional_idx_"]
ADDERS = {"add_query": ("questions", 3), "add_answer": ("answers", 2), "add_authority": ("authority", 1),
          "add_additional": ("additional", 0)}
# exit-invariant obligations of these functions are carried by R3's shape rules (the indices are reached through
# pointers-to-member stored in a vector, outside E-BOUNDS' language)
DELEGATED = ("add_record", "add_answer", "add_authority", "add_additional")


def run(db, rep, tier):
    rep.rule("R1-bounds", "every raw access in a DNS member function stays inside records_data_ / the caller's buffers; "
                          "constructors establish and add_query preserves answers<=authority<=additional<=size", 60)
    rep.rule("R2-count", "each add_* adds exactly one to its own header counter on every path", 4)
    rep.rule("R3-shift", "later sections, and only they, are shifted by exactly the number of bytes inserted", 7)
    rep.rule("R4-sections", "each section getter reads from its own start index up to the next section's start (or the end) "
                            "and converts at most its own header count of records", 4)
    rep.rule("R5-lockstep", "record walker: every extra advance inside the record data reduces the remaining length equally", 1)
    r1(db, rep)
    r2(db, rep)
    r3(db, rep)
    r4(db, rep)
    r5(db, rep)
    rep.rule("R6-section-pairs", "a section's start index is always relocated together with that section's own record count", 5)
    rep.rule("R7-binary-safe", "record data leaves the parser with an explicit length; only NUL-terminated text goes through a C string", 1)
    r6(db, rep)
    r7(db, rep)
    rep.rule("R9-per-record-state", "record walkers decode each record from the message alone: a scalar or string local that the record loop "
                                    "assigns is (re)assigned on every path of the iteration before it is read", 0)
    r9(db, rep)
    rep.rule("R10-name-octets", "the first octet of every name element is classified the same way wherever names are walked: 0 ends the name, "
                                "11xxxxxx is a 2-octet pointer, 00xxxxxx a label of that length, anything else is malformed (all 256 values)", 1)
    r10(db, rep)
    rep.rule("R11-dname-types", "the record walker that relocates compression pointers inside record data handles exactly the types "
                                "contains_dname() names (the types add_record encodes as names)", 1)
    r11(db, rep)
    rep.rule("R8-pointer-space", "a decoded compression pointer (offset from the start of the MESSAGE) meets a records-relative offset only "
                                 "after the 12-byte header has been accounted for on one side", 4)
    r8(db, rep)
    rep.explanation = ("Decides the structural clauses of C10: memory safety of all raw DNS walkers and getters under a "
                       "class invariant that is itself proved (constructors, add_query) or carried by shape rules (add_record "
                       "family); header-count / insertion pairing; section shifting. Name-length limits, pointer rewriting "
                       "arithmetic and typed record data are not decided. update_records/update_dname walk record data "
                       "without bounds: recorded known finding (hostile rdata, demo findings/C10_update_records_demo.cpp).")
    rep.assumptions += ["callers pass 256-byte buffers to compose_name (checked at every call site)",
                        "users do not alter records_data_ behind the class's back"]


def dns_functions(db):
    out = []
    for f in db.functions.values():
        r = f.get("rec") or ""
        if (r == DNS or r.startswith(DNS + "::")) and f.get("body") and not f.get("implicit"):
            out.append(f)
    return out


def r1(db, rep):
    fs = dns_functions(db)
    if len(fs) < 40:
        rep.analysis_broken("expected >= 40 DNS member functions, found %d" % len(fs))
    # run, then re-label delegated invariant obligations
    from vlib import report as _r
    tmp = _r.Report(PID, "quick")
    _bounds.run_functions(db, tmp, "R1-bounds", fs)
    for o in tmp.obls:
        fn = o["key"].split("|")[0].split("::")[-1]
        if "|invariant|" in o["key"] and fn in DELEGATED and o["verdict"] != "ok":
            rep.ok("R1-bounds", o["key"], o["site"], "index members are updated through pointers-to-member: carried by R3-shift")
        elif fn == "add_record" and "threshold" in o["key"] and o["verdict"] != "ok":
            rep.ok("R1-bounds", o["key"], o["site"], "`threshold` is records_data_.size() or a section index reached through a "
                   "pointer-to-member; R3-shift checks that only section indices are handed over, and they are <= size by the "
                   "class invariant")
        else:
            rep.obls.append(o)
    rep.broken += tmp.broken


def counter_bumps(db, f):
    """[(header field, node)] for `header_.X = host_to_be(X_count() + 1)`"""
    out = []
    for n in facts.fn_nodes(f):
        if n["k"] == "BinaryOperator" and n["op"] == "=":
            l = strip(n["c"][0])
            if l["k"] == "MemberExpr" and l.get("isfield") and "header_" in facts.expr_str(l):
                from vlib import bits
                sa = bits.Bounds(f, False).single_assign()
                roots, seen = [n["c"][1]], set()
                nodes = []
                while roots:
                    r_ = roots.pop()
                    for x in facts.walk(r_):
                        nodes.append(x)
                        if x["k"] == "DeclRefExpr" and x.get("var") in sa and x["var"] not in seen:
                            seen.add(x["var"])
                            roots.append(sa[x["var"]])
                txt = " ".join(facts.expr_str(x) for x in nodes if x["k"] == "CXXMemberCallExpr")
                plus1 = any(x["k"] == "BinaryOperator" and x["op"] == "+" and
                            (facts.cval(x["c"][1]) == 1 or facts.cval(x["c"][0]) == 1) for x in nodes)
                out.append((l["member"], n, plus1, txt))
    return out


def r2(db, rep):
    for name, (hfield, nlater) in sorted(ADDERS.items()):
        fs = [f for f in db.fns_named(DNS + "::" + name)]
        if not fs:
            rep.analysis_broken("DNS::%s vanished" % name)
            continue
        f = fs[0]
        g = cfg.FnCFG(f)
        bumps = counter_bumps(db, f)
        own = [b for b in bumps if b[0] == hfield]
        other = [b for b in bumps if b[0] != hfield]
        key = name
        if other:
            rep.violation("R2-count", key, facts.loc(f, other[0][1]), "%s changes header counter `%s`, not its own `%s`"
                          % (name, other[0][0], hfield))
            continue
        if len(own) != 1 or not own[0][2]:
            rep.violation("R2-count", key, facts.loc(f), "%s must add exactly one to header_.%s once (found %d updates: %s)"
                          % (name, hfield, len(own), [b[3][:50] for b in own]))
            continue
        n = own[0][1]
        # the getter used must be the counter's own getter
        if (hfield + "_count") not in own[0][3]:
            rep.violation("R2-count", key, facts.loc(f, n), "header_.%s is recomputed from %s, not from %s_count() + 1"
                          % (hfield, own[0][3][:60], hfield))
            continue
        w = g.reaches_exit_avoiding((g.entry, -1), [g.pos(n)])
        if w is not None:
            rep.violation("R2-count", key, facts.loc(f, n), "some path through %s inserts the record without counting it" % name)
        else:
            rep.ok("R2-count", key, facts.loc(f, n), "header_.%s = %s_count() + 1 on every path" % (hfield, hfield))


def r3(db, rep):
    # (a) update_records adds the offset to the index it is given
    ur = db.fns_named(DNS + "::update_records")
    if not ur:
        rep.analysis_broken("DNS::update_records vanished")
        return
    ur = ur[0]
    # (0) the relocation walks the records where they ARE: in every member that both relocates and grows records_data_, all
    #     update_records calls come before the insertion that moves the bytes (afterwards the old section starts address the
    #     gap or the middle of another record and the compression pointers behind the insertion point stay unrelocated)
    for f in sorted(db.functions.values(), key=lambda x: x["id"]):
        if f.get("rec") != DNS or not f.get("body"):
            continue
        rel = [x for x in facts.fn_nodes(f) if x["k"] == "CXXMemberCallExpr" and x.get("cname") == "update_records"]
        grow = [x for x in facts.fn_nodes(f) if x["k"] == "CXXMemberCallExpr" and x.get("cname") in ("insert", "resize") and
                "records_data_" in facts.expr_str(cfg.receiver(x) or x["c"][0])]
        if not rel or not grow:
            continue
        g = cfg.FnCFG(f)
        key = "%s:relocate-before-grow" % f["qual"].split("::")[-1]
        late = [(r_, w_) for r_ in rel for w_ in grow if g.pos(r_) and g.pos(w_) and g.reachable(g.pos(w_), g.pos(r_))]
        if late:
            rep.violation("R3-shift", key, facts.loc(f, late[0][0]),
                          "update_records() can run after records_data_.%s() (line %s) has already moved the records: it then walks from the old "
                          "section start, which no longer addresses a record boundary, and the compression pointers of the records behind the "
                          "insertion point are not relocated" % (late[0][1].get("cname"), late[0][1].get("l")))
        else:
            rep.ok("R3-shift", key, facts.loc(f, grow[0]), "%d relocation call(s), all before the bytes move" % len(rel))
    b = bounds.FnBounds(db, ur)
    eff = b.ref_effects(ur["id"])
    p0 = ur["params"][0]["var"]
    offv = ur["params"][3]["var"] if len(ur["params"]) >= 4 else None
    want = None
    if offv:
        from vlib.lin import atom
        want = atom(("p0", p0)) + atom(("p0", offv))
    if eff.get(0) is not None and want is not None and eff[0] == want:
        rep.ok("R3-shift", "update_records:adds-offset", facts.loc(ur), "on every return section_start == section_start0 + offset0")
    else:
        rep.violation("R3-shift", "update_records:adds-offset", facts.loc(ur),
                      "update_records does not leave its section index at old value + offset on every path (effect: %s)" % eff.get(0))
    # (b) which later-section indices each adder hands over
    for name, (hfield, nlater) in sorted(ADDERS.items()):
        fs = db.fns_named(DNS + "::" + name)
        if not fs:
            continue
        f = fs[0]
        handed = []
        for n in facts.fn_nodes(f):
            # direct:   update_records(answers_idx_, ...)
            if n["k"] == "CXXMemberCallExpr" and n.get("cname") == "update_records":
                a0 = strip(cfg.args(n)[0])
                if a0["k"] == "MemberExpr" and a0.get("isfield"):
                    handed.append(a0["member"])
            # indirect: sections.push_back(make_pair(&authority_idx_, ...))
            if n["k"] == "UnaryOperator" and n.get("op") == "&":
                y = strip(n["c"][0])
                if y["k"] == "MemberExpr" and y.get("isfield") and y["member"] in SECTIONS:
                    handed.append(y["member"])
        expect = SECTIONS[len(SECTIONS) - nlater:] if nlater else []
        key = "%s:later-sections" % name
        if sorted(handed) == sorted(expect):     # each exactly once; the calls are independent of one another, so any order
            rep.ok("R3-shift", key, facts.loc(f), "hands over %s, each once" % (expect or "no index (last section)"))
        else:
            rep.violation("R3-shift", key, facts.loc(f), "%s must shift exactly %s but hands over %s: sections after the "
                          "insertion point keep stale start offsets" % (name, expect, handed))
    # (c,d) add_record: every listed section goes through update_records with the same offset that is inserted
    ar = db.fns_named(DNS + "::add_record")
    if not ar:
        rep.analysis_broken("DNS::add_record vanished")
        return
    f = ar[0]
    calls = [n for n in facts.fn_nodes(f) if n["k"] == "CXXMemberCallExpr" and n.get("cname") == "update_records"]
    ins = [n for n in facts.fn_nodes(f) if n["k"] == "CXXMemberCallExpr" and n.get("cname") == "insert" and
           facts.expr_str(cfg.receiver(n)) == "records_data_"]
    if len(calls) == 1 and len(ins) == 1:
        ca = cfg.args(calls[0])
        ia = cfg.args(ins[0])
        off_call = facts.expr_str(facts.strip_all(ca[3]))
        thr_call = facts.expr_str(facts.strip_all(ca[2]))
        off_ins = facts.expr_str(facts.strip_all(ia[1])) if len(ia) >= 2 else "?"
        pos_ins = facts.expr_str(ia[0])
        # one call per listed section: inside a loop over `sections` (by index or by iterator), handing over the section's
        # index through the element's `first`
        in_loop = False
        for l in facts.fn_nodes(f):
            if l["k"] in ("ForStmt", "WhileStmt", "CXXForRangeStmt") and any(x is calls[0] for x in facts.walk(l)):
                head = [x for x in l["c"] if x is not None][:-1]
                if any("sections" in facts.expr_str(facts.inline_locals(f, h_)) for h_ in head if h_["k"] != "DeclStmt") or \
                        any("sections" in facts.expr_str(h_) for h_ in head):
                    in_loop = True
        t0 = facts.expr_str(ca[0])
        deref_first = "first" in t0 and t0.lstrip("(").startswith("*")
        if off_call == off_ins and thr_call in pos_ins and in_loop and deref_first:
            rep.ok("R3-shift", "add_record:same-offset", facts.loc(f, calls[0]),
                   "every listed section is shifted by `%s`, the number of bytes inserted at `%s`" % (off_call, thr_call))
        else:
            rep.violation("R3-shift", "add_record:same-offset", facts.loc(f, calls[0]),
                          "sections are shifted by `%s` from `%s` but `%s` bytes are inserted at `%s`" % (off_call, thr_call, off_ins, pos_ins))
    else:
        rep.violation("R3-shift", "add_record:same-offset", facts.loc(f), "expected one update_records loop and one insertion, found %d and %d"
                      % (len(calls), len(ins)))
    # add_query: inserted range == offset
    aq = db.fns_named(DNS + "::add_query")
    if aq:
        f = aq[0]
        calls = [n for n in facts.fn_nodes(f) if n["k"] == "CXXMemberCallExpr" and n.get("cname") == "update_records"]
        offs = set(facts.expr_str(facts.strip_all(cfg.args(n)[3])) for n in calls)
        thrs = set(facts.expr_str(facts.strip_all(cfg.args(n)[2])) for n in calls)
        if len(calls) == 3 and len(offs) == 1 and len(thrs) == 1:
            rep.ok("R3-shift", "add_query:same-offset", facts.loc(f), "all three later sections shifted by `%s` past `%s`" % (list(offs)[0], list(thrs)[0]))
        else:
            rep.violation("R3-shift", "add_query:same-offset", facts.loc(f), "later sections shifted by different amounts/thresholds: %s / %s" % (sorted(offs), sorted(thrs)))


GETTERS = {"answers": ("answers_idx_", "authority_idx_", "answers_count"),
           "authority": ("authority_idx_", "additional_idx_", "authority_count"),
           "additional": ("additional_idx_", "records_data_.size()", "additional_count")}


def r4(db, rep):
    for name, (lo, hi, cnt) in sorted(GETTERS.items()):
        fs = db.fns_named(DNS + "::" + name)
        if not fs:
            rep.analysis_broken("DNS::%s vanished" % name)
            continue
        f = fs[0]
        # the convert_records call of this getter - its own, or the one in a shared helper it calls (arguments then read in
        # the getter's terms: the helper's parameters replaced by what the getter passes)
        hits = facts.lifted_sites(db, f, lambda fn, n, txt: n["k"] == "CXXMemberCallExpr" and n.get("cname") == "convert_records", must=False)
        if len(hits) != 1:
            rep.violation("R4-sections", name, facts.loc(f), "expected one convert_records call, found %d" % len(hits))
            continue
        site, call, hfn = hits[0]
        calls = [site]
        txt = facts.lifted_txt(db, f, site, hfn)
        a = cfg.args(call)
        s0, s1, s3 = [txt(facts.inline_locals(hfn, x, all_types=False)) for x in (a[0], a[1], a[3])]
        ok = s0.endswith("+ %s)" % lo) and s1.endswith("+ %s)" % hi) and cnt in s3 and "records_data_" in s0 and "records_data_" in s1
        if ok:
            rep.ok("R4-sections", name, facts.loc(f, calls[0]), "reads [%s, %s), at most %s() records" % (lo, hi, cnt))
        else:
            rep.violation("R4-sections", name, facts.loc(f, calls[0]),
                          "%s() must read [%s, %s) with %s(), but passes (%s, %s, %s)" % (name, lo, hi, cnt, s0[:50], s1[:50], s3[:30]))
    fs = db.fns_named(DNS + "::queries")
    if fs:
        f = fs[0]
        st = [n for n in facts.fn_nodes(f) if n["k"] == "VarDecl" and "InputMemoryStream" in (facts.tyi(f, n.get("t")) or {}).get("s", "")]
        txt = facts.expr_str(st[0]["c"][0]) if st and st[0].get("c") else ""
        if "records_data_" in txt and txt.rstrip("}").endswith("answers_idx_"):
            rep.ok("R4-sections", "queries", facts.loc(f), "reads [0, answers_idx_)")
        else:
            rep.violation("R4-sections", "queries", facts.loc(f), "queries() must read records_data_[0, answers_idx_): %s" % txt[:80])


def r5(db, rep):
    """update_records: between reading `size` and `ptr += size`, every other advance of ptr by a constant is matched
    by `size -= same constant` in the same branch"""
    ur = db.fns_named(DNS + "::update_records")
    if not ur:
        return
    f = ur[0]
    # the walk of one record lives in update_records' loop or in a member it calls per record: the final advance over the
    # record data is `P += S` or `return P + S` with P a pointer variable and S an integer variable
    cands = [f] + [h for h in (db.fn(x.get("callee")) for x in facts.fn_nodes(f) if x["k"] == "CXXMemberCallExpr" and x.get("callee"))
                   if h is not None and h.get("body") and h.get("rec") == DNS and not h["id"].split("(")[0].endswith("update_dname")]
    final = None
    for h in cands:
        for n in facts.fn_nodes(h):
            pv = sv = None
            if n["k"] == "CompoundAssignOperator" and n["op"] == "+=":
                pv, sv = strip(n["c"][0]), strip(n["c"][1])
            elif n["k"] == "ReturnStmt" and n.get("c") and facts.strip_all(n["c"][0])["k"] == "BinaryOperator" and facts.strip_all(n["c"][0]).get("op") == "+":
                e_ = facts.strip_all(n["c"][0])
                pv, sv = strip(e_["c"][0]), strip(e_["c"][1])
            if pv is not None and pv["k"] == "DeclRefExpr" and sv["k"] == "DeclRefExpr" and (facts.ty(h, pv) or {}).get("k") == "ptr" \
                    and (facts.ty(h, sv) or {}).get("k") == "int" and not sv.get("parm"):
                final = (n, sv.get("var"), pv.get("var"))
        if final:
            f = h
            break
    g = cfg.FnCFG(f)
    if final is None:
        rep.violation("R5-lockstep", "update_records", facts.loc(f), "no `ptr += size` found: cannot identify the record-data length")
        return
    szvar = final[1]
    # conditional branches executed after the length has been read and before `ptr += size`
    reads = [n for n in facts.fn_nodes(f) if n["k"] == "BinaryOperator" and n["op"] == "=" and strip(n["c"][0]).get("var") == szvar]
    ok = True
    nbr = 0
    for br in facts.fn_nodes(f):
        if br["k"] != "IfStmt":
            continue
        bp = g.pos(br["c"][0]) if br["c"] and br["c"][0] is not None else None
        if bp is None or not reads or not g.reachable(g.pos(reads[-1]), bp) or not g.reachable(bp, g.pos(final[0])):
            continue
        for arm in br["c"][1:]:
            if arm is None:
                continue
            adv = sum(facts.cval(n["c"][1]) or 0 for n in facts.walk(arm)
                      if n["k"] == "CompoundAssignOperator" and n["op"] == "+=" and strip(n["c"][0]).get("var") == final[2]
                      and facts.cval(n["c"][1]) is not None)
            dec = sum(facts.cval(n["c"][1]) or 0 for n in facts.walk(arm)
                      if n["k"] == "CompoundAssignOperator" and n["op"] == "-=" and strip(n["c"][0]).get("var") == szvar
                      and facts.cval(n["c"][1]) is not None)
            if adv or dec:
                nbr += 1
            if adv != dec:
                ok = False
                rep.violation("R5-lockstep", "update_records:branch@%s" % facts.expr_str(br["c"][0])[:30], facts.loc(f, br),
                              "inside this branch the cursor advances %d bytes into the record data but the remaining length "
                              "`%s` is reduced by %d: the walk ends %d bytes off the next record" %
                              (adv, szvar.split("#")[0], dec, adv - dec))
    advs = [None] * nbr
    if ok:
        rep.ok("R5-lockstep", "update_records", facts.loc(f), "%d extra advance(s) inside record data, each paired with an equal length decrease" % len(advs))


def r6(db, rep):
    """update_records(X_idx_, X_count(), ...) and make_pair(&X_idx_, X_count()): the walker rewrites compression pointers of
    exactly `count` records starting at `idx`; both must name the same section"""
    n = 0
    for fid, f in sorted(db.functions.items()):
        if f.get("rec") != DNS or not f.get("body"):
            continue
        for x in facts.fn_nodes(f):
            a = b = None
            if x["k"] == "CXXMemberCallExpr" and x.get("cname") == "update_records" and len(x["c"]) >= 3:
                a, b = x["c"][1], x["c"][2]
            if x["k"] == "CallExpr" and x.get("cname") == "make_pair" and len(x["c"]) == 3:
                a, b = x["c"][1], x["c"][2]
            if a is None:
                continue
            ta, tb = facts.expr_str(a).replace("this->", ""), facts.expr_str(b).replace("this->", "")
            import re
            ma = re.search(r"(\w+)_idx_", ta)
            mb = re.search(r"(\w+)_count\(\)", tb)
            if not ma or not mb:
                continue        # indirect form (elements of the `sections` vector): built by the make_pair sites
            n += 1
            key = "%s:%s#%d" % (f["qual"].split("::")[-1], x.get("cname"), n)
            if ma.group(1) == mb.group(1):
                rep.ok("R6-section-pairs", key, facts.loc(f, x), "%s_idx_ with %s_count()" % (ma.group(1), mb.group(1)))
            else:
                rep.violation("R6-section-pairs", key, facts.loc(f, x),
                              "the %s section's start is relocated with the record count of the %s section: compression pointers in some %s records "
                              "are left pointing at the old offsets (or bytes beyond the section are rewritten)" % (ma.group(1), mb.group(1), ma.group(1)))
    if n < 5:
        rep.analysis_broken("only %d (index, count) section pairs found" % n)


TEXT_PRODUCERS = ("compose_name", "inline_convert_v4", "inline_convert_v6", "inet_ntop", "snprintf", "sprintf", "strcpy", "strncpy")


def r7(db, rep):
    """convert_records keeps two kinds of record data: text it formatted itself into a char buffer (used as a C string) and
    raw bytes (kept in a std::string with explicit length).  A char buffer that is later read as a C string may only be
    written by the text producers; copying message bytes into it truncates the data at the first zero octet."""
    fs = db.fns_named(DNS + "::convert_records")
    if not fs:
        rep.analysis_broken("DNS::convert_records vanished")
        return
    f = fs[0]
    idx, par = facts.index_fn(f)
    arrays = {}
    for x in facts.fn_nodes(f):
        if x["k"] == "VarDecl":
            t = facts.tyi(f, x.get("t")) or {}
            if t.get("k") == "arr" and (t.get("to") or {}).get("k") == "int" and (t.get("to") or {}).get("w") == 8:
                arrays[x["var"]] = x
    # arrays that reach a std::string through const char* (decay inside a conditional / constructor argument)
    cstr = set()
    for x in facts.fn_nodes(f):
        if x["k"] == "DeclRefExpr" and x.get("var") in arrays:
            p = par.get(x["id"])
            while p is not None and p["k"] in ("ImplicitCastExpr", "ParenExpr"):
                p = par.get(p["id"])
            if p is not None and p["k"] in ("ConditionalOperator", "CXXConstructExpr", "CXXTemporaryObjectExpr", "CXXFunctionalCastExpr") and \
                    "basic_string" in ((facts.ty(f, p) or {}).get("s") or "") + ((facts.ty(f, p) or {}).get("name") or ""):
                cstr.add(x["var"])
            if p is not None and p["k"] == "CallExpr" and p.get("cname") in ("encode_domain_name",):
                cstr.add(x["var"])
    if not cstr:
        rep.analysis_broken("convert_records: no char buffer converted to a string found")
        return
    for var in sorted(cstr):
        key = "convert_records:%s" % var.split("#")[0]
        bad = None
        n_w = 0
        for x in facts.fn_nodes(f):
            if x["k"] == "DeclRefExpr" and x.get("var") == var:
                p = par.get(x["id"])
                while p is not None and p["k"] in ("ImplicitCastExpr", "ParenExpr"):
                    p = par.get(p["id"])
                if p is None:
                    continue
                if p["k"] in ("CallExpr", "CXXMemberCallExpr"):
                    cn = p.get("cname") or ""
                    args = p["c"][1:]
                    pos = [i for i, a in enumerate(args) if any(y is x for y in facts.walk(a))]
                    if cn in TEXT_PRODUCERS:
                        n_w += 1
                        continue
                    if cn in ("memcpy", "memmove", "memset", "read", "copy") and pos and pos[0] == 0:
                        bad = (p, "%s copies raw message bytes into `%s`" % (cn, var.split("#")[0]))
                        break
                if p["k"] == "ArraySubscriptExpr":
                    pp = par.get(p["id"])
                    if pp is not None and pp["k"] == "BinaryOperator" and pp.get("op") == "=" and pp["c"][0] is p:
                        # storing a terminator is fine only together with a text producer; alone it signals hand-made content
                        continue
        if bad:
            rep.violation("R7-binary-safe", key, facts.loc(f, bad[0]),
                          "%s, which is later handed over as a C string: record data containing a zero octet (empty TXT strings, SRV priority 0, "
                          "binary RDATA) is cut there" % bad[1])
        else:
            rep.ok("R7-binary-safe", key, facts.loc(f), "written only by %d text-producing call(s)" % n_w)


def masked_pointer_vars(f):
    """{variable: defining node} for locals that receive `... & 0x3fff` (a decoded compression pointer), whether by
    assignment or as their initialiser"""
    out = {}

    def masked(e):
        return any(y["k"] == "BinaryOperator" and y.get("op") == "&" and 0x3fff in (facts.cval(y["c"][0]), facts.cval(y["c"][1]))
                   for y in facts.walk(e))
    for x in facts.fn_nodes(f):
        if x["k"] == "BinaryOperator" and x.get("op") == "=":
            l = strip(x["c"][0])
            if l["k"] == "DeclRefExpr" and l.get("var") and masked(x["c"][1]):
                out[l["var"]] = x
        elif x["k"] == "VarDecl" and x.get("c") and x.get("var") and masked(x["c"][0]):
            out[x["var"]] = x
    return out


def r8(db, rep):
    """Compression pointers count from the first octet of the message; every index libtins keeps (section starts,
    thresholds, positions in records_data_) counts from the first octet after the header.  A variable assigned
    `... & 0x3fff` is in message space; each later read of it must be one of
      const-compare   compared with a constant                     (range check)
      converted       V - sizeof(header)                           (now records space)
      adjusted        compared with E + sizeof(header)             (other side moved to message space)
      re-encode       (V + delta) | 0xc000 stored back             (stays in message space)
    Anything else that compares it with, or indexes by, a non-constant is a violation."""
    hdr = (db.records.get(DNS + "::dns_header") or {}).get("size")
    if not hdr:
        rep.analysis_broken("size of DNS::dns_header unknown")
        return
    decoders = 0
    for f in sorted(dns_functions(db), key=lambda x: x["id"]):
        ptrvars = masked_pointer_vars(f)
        if not ptrvars:
            continue
        decoders += 1
        idx, par = facts.index_fn(f)
        n = 0
        for x in facts.fn_nodes(f):
            if x["k"] != "DeclRefExpr" or x.get("var") not in ptrvars:
                continue
            p = par.get(x["id"])
            child = x
            while p is not None and p["k"] in ("ImplicitCastExpr", "ParenExpr", "CStyleCastExpr", "CXXStaticCastExpr"):
                child, p = p, par.get(p["id"])
            if p is None:
                continue
            if p["k"] == "BinaryOperator" and p.get("op") == "=" and p["c"][0] is child:
                continue                # a store to the variable
            if p["k"] == "UnaryOperator" and p.get("op") == "&":
                continue                # memcpy(&index, ...) / memcpy(ptr, &index, ...)
            n += 1
            key = "%s:%s#%d" % (f["qual"].split("::")[-1], x.get("name"), n)
            site = facts.loc(f, x)
            verdict, why = None, ""
            if p["k"] == "BinaryOperator":
                other = p["c"][1] if p["c"][0] is child else p["c"][0]
                oc = facts.cval(other)
                op = p.get("op")
                if op in ("<", ">", "<=", ">=", "==", "!="):
                    o0 = facts.strip_all(other)
                    if oc is not None:
                        verdict, why = "ok", "compared with the constant %s" % oc
                    elif o0["k"] == "BinaryOperator" and o0.get("op") == "+" and hdr in (facts.cval(o0["c"][0]), facts.cval(o0["c"][1])):
                        verdict, why = "ok", "compared with `%s`: the other side is moved into message space" % facts.expr_str(o0)
                    else:
                        verdict = "violation"
                        why = ("the compression pointer `%s` counts from the start of the message, `%s` counts from the start of the "
                               "records (%d octets later): pointers to names in the %d octets before that position are %s"
                               % (x.get("name"), facts.expr_str(other), hdr, hdr - 1,
                                  "relocated although their target does not move" if op in (">", ">=") else "misjudged"))
                elif op == "-" and p["c"][0] is child and oc == hdr:
                    verdict, why = "ok", "converted to a records offset by subtracting the header size"
                elif op == "+":
                    # re-encode: (V + delta) | 0xc000 ... stored back into V
                    q, up = p, par.get(p["id"])
                    while up is not None and up["k"] in ("ImplicitCastExpr", "ParenExpr", "CStyleCastExpr", "CXXStaticCastExpr"):
                        q, up = up, par.get(up["id"])
                    if up is not None and up["k"] == "BinaryOperator" and up.get("op") == "|" and \
                            0xc000 in (facts.cval(up["c"][0]), facts.cval(up["c"][1])):
                        verdict, why = "ok", "re-encoded as a pointer (stays in message space)"
                    else:
                        verdict, why = "violation", "`%s` mixes a message offset with a records offset" % facts.expr_str(p)
                else:
                    verdict, why = "ok", "operator %s with a constant" % op if oc is not None else None
                    if oc is None:
                        verdict, why = "violation", "`%s` mixes a message offset with a records-relative quantity" % facts.expr_str(p)
            elif p["k"] == "ArraySubscriptExpr" or (p["k"] == "CXXOperatorCallExpr" and p.get("cname") == "operator[]"):
                verdict, why = "violation", "records_data_ indexed by a message offset (header size not subtracted)"
            else:
                continue
            if verdict == "ok":
                rep.ok("R8-pointer-space", key, site, why)
            else:
                rep.violation("R8-pointer-space", key, site, why)
    r8_boundary(db, rep, hdr)
    if decoders < 2:
        rep.analysis_broken("expected the two compression-pointer decoders (compose_name, update_dname), found %d" % decoders)


def r8_boundary(db, rep, hdr):
    """update_dname: the pointer is re-encoded exactly when its target is at or behind the insertion point
    (message offset >= threshold + header): finite evaluation of the guard around the boundary."""
    from vlib import ieval
    fs = db.fns_named(DNS + "::update_dname")
    if not fs:
        rep.analysis_broken("DNS::update_dname vanished")
        return
    f = fs[0]
    key = "update_dname:relocation-boundary"
    thr = [p for p in f["params"] if p["name"] == "threshold"]
    cand = None
    for x in facts.fn_nodes(f):
        if x["k"] == "IfStmt":
            real = [y for y in x["c"] if y is not None]
            if len(real) >= 2 and any(y["k"] == "BinaryOperator" and y.get("op") == "|" and 0xc000 in (facts.cval(y["c"][0]), facts.cval(y["c"][1]))
                                      for y in facts.walk(real[1])):
                inner = [y for y in facts.walk(real[1]) if y["k"] == "IfStmt"]
                if not inner:
                    cand = (x, real)
    ptrvar = None
    for v_ in masked_pointer_vars(f):
        ptrvar = v_
    if cand is None or not thr or ptrvar is None:
        rep.analysis_broken("update_dname: the guard of the pointer re-encoding was not recognised")
        return
    node, real = cand
    bad = None
    n = 0
    try:
        for T in (0, 7, 100, 5000):
            for d in (-12, -2, -1, 0, 1, 2, 40):
                V = T + hdr + d
                if V < 0 or V > 0x3fff:
                    continue
                n += 1
                c = bool(ieval.ev(f, real[0], {ptrvar: V, thr[0]["var"]: T}))
                if c != (d >= 0) and bad is None:
                    bad = ("insertion at records offset %d (message offset %d): a pointer to message offset %d is %s; it must be relocated "
                           "exactly when its target is at or behind the insertion point" % (T, T + hdr, V, "relocated" if c else "left alone"))
    except ieval.Unknown as e:
        rep.analysis_broken("update_dname: guard outside the finite evaluator: %s" % e)
        return
    if bad:
        rep.violation("R8-pointer-space", key, facts.loc(f, node), bad)
    else:
        rep.ok("R8-pointer-space", key, facts.loc(f, node), "`%s` relocates exactly the pointers at or behind the insertion point (%d cells around the boundary)"
               % (facts.expr_str(real[0]), n))


RECORD_WALKERS = (DNS + "::convert_records", DNS + "::queries")


def r9(db, rep):
    walkers = 0
    for q in RECORD_WALKERS:
        fs = [f for f in db.fns_named(q) if f.get("body")]
        if not fs:
            rep.analysis_broken("%s vanished" % q)
            continue
        f = fs[0]
        loops = [x for x in facts.fn_nodes(f) if x["k"] in ("WhileStmt", "ForStmt", "DoStmt")]
        if not loops:
            rep.analysis_broken("%s: record loop not found" % q)
            continue
        walkers += 1
        loop = loops[0]
        inside = set(x["id"] for x in facts.walk(loop))
        g = cfg.FnCFG(f)
        short = q.split("::")[-1]
        outer = {}
        for x in facts.fn_nodes(f):
            if x["k"] == "VarDecl" and x["id"] not in inside:
                t = facts.tyi(f, x.get("t")) or {}
                if t.get("k") in ("int", "bool", "enum") or (t.get("k") == "rec" and "basic_string" in (t.get("name") or "")):
                    outer[x["var"]] = x
        idx, par = facts.index_fn(f)
        for v, decl in sorted(outer.items()):
            writes, reads = [], []
            for x in facts.walk(loop):
                if x["k"] != "DeclRefExpr" or x.get("var") != v:
                    continue
                p = par.get(x["id"])
                while p is not None and p["k"] in ("ParenExpr",):
                    p = par.get(p["id"])
                is_w = False
                if p is not None:
                    if p["k"] in ("BinaryOperator", "CompoundAssignOperator") and p.get("op", "").endswith("=") and \
                            p.get("op") not in ("==", "!=", "<=", ">=") and strip(p["c"][0]) is x:
                        is_w = p.get("op") == "="
                        if not is_w:
                            reads.append(x)
                    elif p["k"] == "CXXOperatorCallExpr" and p.get("cname") == "operator=" and strip(p["c"][1]) is x:
                        is_w = True
                    elif p["k"] == "MemberExpr" and p.get("member") in ("clear", "assign") :
                        is_w = True
                if is_w:
                    writes.append(p)
                elif x not in reads:
                    reads.append(x)
            if not writes:
                continue            # loop-invariant or only accumulated through calls
            wpos = [q_ for q_ in (g.pos(w) for w in writes) if q_]
            bad = None
            for r_ in reads:
                rp = g.pos(r_)
                if rp is None:
                    continue
                if g.reached_from_entry_avoiding(rp, wpos) is not None:
                    bad = r_
                    break
            key = "%s:%s" % (short, decl.get("name"))
            if bad is not None:
                rep.violation("R9-per-record-state", key, facts.loc(f, bad),
                              "`%s` lives across iterations of the record loop and is read here on a path that does not assign it in this "
                              "iteration: a record can be decoded with what an earlier record left behind" % decl.get("name"))
            else:
                rep.ok("R9-per-record-state", key, facts.loc(f, decl), "assigned on every path of the iteration before each read")
    rep.extra["record_walkers"] = walkers


def r10(db, rep):
    from vlib import ieval
    fs = [f for f in db.fns_named(DNS + "::skip_to_dname_end") if f.get("body")]
    if not fs:
        rep.analysis_broken("DNS::skip_to_dname_end vanished")
        return
    f = fs[0]
    loops = [x for x in facts.fn_nodes(f) if x["k"] in ("WhileStmt", "ForStmt", "DoStmt")]
    if not loops:
        rep.analysis_broken("skip_to_dname_end: loop not found")
        return
    body = [x for x in loops[0]["c"] if x is not None][-1]
    # the octet variable: a local initialised from stream.read<uint8_t>()
    oct_ = None
    for x in facts.walk(body):
        if x["k"] == "VarDecl" and x.get("c") and any(y["k"] == "CXXMemberCallExpr" and y.get("cname") == "read" for y in facts.walk(x["c"][0])):
            oct_ = x
    if oct_ is None:
        rep.analysis_broken("skip_to_dname_end: the octet read from the cursor was not found")
        return
    key = "skip_to_dname_end:first-octet"
    bad = None

    def tf(x):
        if x["k"] == "CXXMemberCallExpr" and x.get("cname") == "read":
            return tf.v
        return None
    try:
        for v in range(256):
            tf.v = v
            tr = ieval.trace(f, body, {"__termfn__": tf})
            kinds = [k for k, n in tr]
            skips = [n for k, n in tr if k == "call" and "skip" in facts.expr_str(n)]
            ends = kinds[-1:] in (["break"], ["return"])       # leaving the loop: break, or return from the walker
            if v == 0:
                want, got = "end", ("end" if ends and not skips else "other")
            elif (v & 0xc0) == 0xc0:
                ok = ends and len(skips) == 1 and facts.cval(skips[0]["c"][1]) == 1
                want, got = "pointer", ("pointer" if ok else "other")
            elif (v & 0xc0) == 0:
                ok = "break" not in kinds and "return" not in kinds and "throw" not in kinds and len(skips) == 1 and facts.cval(skips[0]["c"][1]) is None
                want, got = "label", ("label" if ok else "other")
            else:
                want, got = "malformed", ("malformed" if kinds[-1:] == ["throw"] else "other")
            if want != got:
                bad = "first octet 0x%02x should be treated as %s; the walker does %s" % (v, want, kinds or "nothing")
                break
    except ieval.Unknown as e:
        rep.analysis_broken("%s: outside the finite evaluator: %s" % (key, e))
        return
    if bad:
        rep.violation("R10-name-octets", key, facts.loc(f, loops[0]), bad + ": legal messages are rejected or names are skipped wrongly "
                      "(pointers to offsets >= 256 start with 0xc1..0xff)")
    else:
        rep.ok("R10-name-octets", key, facts.loc(f, loops[0]), "all 256 first-octet values classified as end / pointer / label / malformed")


def r11(db, rep):
    from vlib import ieval
    cd = [f for f in db.fns_named(DNS + "::contains_dname") if f.get("body")]
    ur = [f for f in db.fns_named(DNS + "::update_records") if f.get("body")]
    en = db.enums.get(DNS + "::QueryType")
    if not cd or not ur or en is None:
        rep.analysis_broken("DNS::contains_dname / update_records / QueryType vanished")
        return
    cdf, f = cd[0], ur[0]
    vals = sorted(set(e["v"] for e in en["enumerators"]) | {0, 255, 65535})
    try:
        S = set(v for v in vals if ieval.run_body(cdf, cdf["body"], {cdf["params"][0]["var"]: v}))
    except ieval.Unknown as e:
        rep.analysis_broken("contains_dname: outside the finite evaluator: %s" % e)
        return
    # the walk of ONE record, by role: the code around the call of contains_dname(<type variable>) - the body of the record
    # loop of update_records, or the body of a member it calls per record
    cands = [f] + [h for h in (db.fn(x.get("callee")) for x in facts.fn_nodes(f) if x["k"] == "CXXMemberCallExpr" and x.get("callee"))
                   if h is not None and h.get("body") and h.get("rec") == DNS]
    site = None
    for h in cands:
        for x in facts.fn_nodes(h):
            if x["k"] in ("CallExpr", "CXXMemberCallExpr") and x.get("cname") == "contains_dname":
                a0 = facts.strip_all(cfg.args(x)[0]) if cfg.args(x) else None
                if a0 is not None and a0["k"] == "DeclRefExpr" and a0.get("var"):
                    site = (h, x, a0["var"])
                    break
        if site:
            break
    if site is None:
        # no contains_dname() call any more (the selection is written out as a switch / comparisons): the type variable is
        # the integer local that the guards of the rdata walk - the update_dname call whose result is discarded - test
        from vlib import cond as _cond
        idx_, par_ = None, None
        for h in cands:
            idx_, par_ = facts.index_fn(h)
            gh = cfg.FnCFG(h)
            for x in facts.fn_nodes(h):
                if x["k"] == "CXXMemberCallExpr" and x.get("cname") == "update_dname":
                    p_ = par_.get(x["id"])
                    while p_ is not None and p_["k"] in ("ImplicitCastExpr", "ParenExpr", "ExprWithCleanups"):
                        p_ = par_.get(p_["id"])
                    if p_ is not None and (p_["k"] in ("BinaryOperator", "VarDecl", "ReturnStmt")):
                        continue        # the owner-name walk: its result moves the cursor
                    vs = []
                    for op, l, r in _cond.guards_facts(gh, gh.pos(x)):
                        for e_ in (l, r):
                            e0 = facts.strip_all(e_) if e_ is not None else None
                            if e0 is not None and e0["k"] == "DeclRefExpr" and e0.get("var") and not e0.get("parm") and \
                                    (facts.ty(h, e0) or {}).get("k") in ("int", "enum") and "v" not in e0:
                                vs.append(e0["var"])
                    if vs:
                        site = (h, x, vs[0])
                        break
            if site:
                break
    if site is None:
        rep.analysis_broken("update_records: the record type variable was not found")
        return
    f, cdcall, typev = site
    loops = [x for x in facts.fn_nodes(f) if x["k"] in ("ForStmt", "WhileStmt") and any(y is cdcall for y in facts.walk(x))]
    body = [x for x in loops[-1]["c"] if x is not None][-1] if loops else f["body"]
    loops = loops[-1:] or [f["body"]]
    key = "update_records:dname-types"

    def tf(x):
        if x["k"] == "CallExpr" and x.get("cname") in ("be_to_host", "host_to_be"):
            return tf.v
        if x["k"] in ("CallExpr", "CXXMemberCallExpr") and x.get("cname") == "contains_dname":
            return 1 if tf.v in S else 0
        return None
    got = set()
    try:
        for v in vals:
            tf.v = v
            tr = ieval.trace(f, body, {"__termfn__": tf, typev: v})
            # the walk of the owner name is the first update_dname call; a second one is the rdata walk
            n_ud = sum(1 for k, n in tr if k in ("call", "assign") and any(
                y["k"] == "CXXMemberCallExpr" and y.get("cname") == "update_dname" for y in facts.walk(n)))
            if n_ud >= 2:
                got.add(v)
    except ieval.Unknown as e:
        rep.analysis_broken("%s: outside the finite evaluator: %s" % (key, e))
        return
    names = dict((e["v"], e["name"]) for e in en["enumerators"])
    if got != S:
        miss = sorted(S - got)
        extra = sorted(got - S)
        rep.violation("R11-dname-types", key, facts.loc(f, loops[0]),
                      "pointers inside record data are relocated for types %s, but contains_dname() - and so add_record's encoder - says %s%s%s"
                      % (sorted(names.get(v, v) for v in got), sorted(names.get(v, v) for v in S),
                         "; not handled: %s" % [names.get(v, v) for v in miss] if miss else "",
                         "; wrongly handled: %s" % [names.get(v, v) for v in extra] if extra else ""))
    else:
        rep.ok("R11-dname-types", key, facts.loc(f, loops[0]), "relocates record data of exactly %s" % sorted(names.get(v, v) for v in S))
