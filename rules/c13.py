"""C13 - layer look-up and casts never hand back an object of the wrong type.

Decided completely (DESIGN.md section 3, C13): for every concrete class K that
derives from Tins::PDU (plus PDUCacher<K> for every such K, instantiated in a
synthetic TU) and every flagged class T:

  sound-find : F(T) in A(K)  =>  T is K or a base of K     (find_pdu static_cast)
  sound-cast : F(T) == P(K)  =>  T is K or a base of K     (tins_cast static_cast)
  own        : F(K) in A(K)                                (search by own class)

F(T) = value of T::pdu_flag as name lookup in T finds it,
P(K) = what the final overrider of pdu_type() returns for dynamic type K,
A(K) = the set of flags the final overrider of matches_flag accepts for
       dynamic type K, read from its body with a small grammar.
"""
from vlib import facts
from vlib.facts import strip, AnalysisBroken

PID = "C13"
PDU = "Tins::PDU"


def static_flag(db, rec):
    """value of `pdu_flag` found by lookup in rec then its bases"""
    for rn in [rec] + db.all_bases(rec):
        r = db.records.get(rn)
        if not r:
            continue
        for s in r.get("statics", []):
            if s["name"] == "pdu_flag":
                return s.get("v"), rn
    return None, None


def final_overrider(db, rec, name):
    ms = db.find_method(rec, name)
    ms = [m for m in ms if not m.get("pure")]
    if not ms:
        return None
    f = db.fn(ms[0]["id"])
    return f


def ret_expr(f):
    """the single `return e;` of a one-statement body, else None"""
    body = f.get("body")
    if not body or body["k"] != "CompoundStmt":
        return None
    st = body.get("c", [])
    if len(st) != 1 or st[0]["k"] != "ReturnStmt" or not st[0].get("c"):
        return None
    return st[0]["c"][0]


class Eval(object):
    def __init__(self, db):
        self.db = db

    def member_record(self, f, n):
        """for `m.foo()` with m a data member: the member's record type name"""
        base = strip(n["c"][0]["c"][0]) if n["c"][0].get("c") else None
        if base is not None and base["k"] == "CXXMemberCallExpr" and len(base.get("c", [])) == 1 and base.get("callee"):
            # `accessor().foo()` with `T& accessor() { return member_; }` on this object: the member behind the accessor
            me = strip(base["c"][0])
            obj = strip(me["c"][0]) if me.get("c") else None
            h = self.db.fn(base["callee"])
            if obj is not None and obj["k"] == "CXXThisExpr" and h is not None and h.get("body"):
                e = ret_expr(h)
                e0 = facts.strip_all(e) if e is not None else None
                if e0 is not None and e0["k"] == "MemberExpr" and e0.get("isfield") and strip(e0["c"][0])["k"] == "CXXThisExpr":
                    t = facts.ty(h, e0)
                    while t and t.get("k") == "ref":
                        t = t.get("to")
                    if t and t.get("k") == "rec":
                        return t["name"]
            return None
        if base is None or base["k"] != "MemberExpr" or not base.get("isfield"):
            return None
        t = facts.ty(f, base)
        if t and t.get("k") == "rec":
            return t["name"]
        return None

    def ptype(self, K, depth=0):
        """P(K): {value: description}, the set of values pdu_type() may return
        for dynamic type K, or raises AnalysisBroken.  A body made of
        if/return statements and ?: expressions contributes every arm whose
        condition is not a compile-time constant (both outcomes are taken to be
        reachable: the condition reads object state)."""
        f = final_overrider(self.db, K, "pdu_type")
        if f is None:
            raise AnalysisBroken("no pdu_type() overrider found for %s" % K)
        body = f.get("body")
        if not body or body["k"] != "CompoundStmt":
            raise AnalysisBroken("pdu_type() of %s (%s) has no body" % (K, facts.loc(f)))
        out = {}
        self.ptype_stmts(K, f, body, depth, out)
        if not out:
            raise AnalysisBroken("pdu_type() of %s (%s) has no return" % (K, facts.loc(f)))
        return out

    def ptype_stmts(self, K, f, st, depth, out):
        k = st["k"]
        if k == "CompoundStmt":
            for c in st.get("c", []):
                self.ptype_stmts(K, f, c, depth, out)
        elif k == "ReturnStmt" and st.get("c"):
            self.ptype_expr(K, f, st["c"][0], depth, out)
        elif k == "IfStmt":
            for c in st["c"][1:]:
                self.ptype_stmts(K, f, c, depth, out)
        else:
            raise AnalysisBroken("pdu_type() of %s (%s) is outside the grammar: statement %s"
                                 % (K, facts.loc(f, st), k))

    def ptype_expr(self, K, f, e, depth, out):
        if facts.cval(e) is not None:
            out.setdefault(facts.cval(e), "%s returns constant %s" % (f["id"], facts.cval(e)))
            return
        e = strip(e)
        if e["k"] == "ConditionalOperator":
            cv = facts.cval(e["c"][0])
            arms = [e["c"][1], e["c"][2]] if cv is None else [e["c"][1] if cv else e["c"][2]]
            sub = {}
            for a in arms:
                self.ptype_expr(K, f, a, depth, sub)
            for v, d in sub.items():
                out.setdefault(v, d + (" in one arm of `%s`, whose condition reads object state"
                                       % facts.expr_str(e) if cv is None else ""))
            return
        if e["k"] == "CXXMemberCallExpr" and e.get("cname") == "pdu_type" and depth < 3:
            T = self.member_record(f, e)
            if T:
                for v, d in self.ptype(T, depth + 1).items():
                    out.setdefault(v, "%s forwards to member of type %s: %s" % (f["id"], T, d))
                return
        raise AnalysisBroken("pdu_type() of %s (%s) is outside the grammar: %s"
                             % (K, facts.loc(f), facts.expr_str(e)))

    def accepted(self, K, depth=0):
        f = final_overrider(self.db, K, "matches_flag")
        if f is None:
            raise AnalysisBroken("no matches_flag() found for %s" % K)
        return self.accepted_body(f, K, depth)

    def accepted_body(self, f, K, depth):
        """A for body of f evaluated with dynamic type K: set of (value, why)"""
        if len(f["params"]) != 1:
            raise AnalysisBroken("matches_flag %s: unexpected signature" % facts.loc(f))
        e = ret_expr(f)
        if e is not None:
            try:
                return self.accepted_expr(f, e, K, depth)
            except AnalysisBroken:
                pass
        # any other spelling (early returns, named bool locals, swapped operands, != ...): the body is a pure function of
        # the flag, so it is EXECUTED for every value of PDUType (finite evaluation)
        return self.accepted_eval(f, K, depth)

    def flag_domain(self):
        en = self.db.enums.get("Tins::PDU::PDUType")
        if not en:
            raise AnalysisBroken("enum PDU::PDUType not in the database")
        return sorted(set(x["v"] for x in en["enumerators"]))

    def eval_member(self, f, vals, K, depth):
        return self.eval_flag(f, vals[0], K, depth, extra=dict((p_["var"], v_) for p_, v_ in zip(f["params"][1:], vals[1:])))

    def eval_flag(self, f, v, K, depth, extra=None):
        from vlib import ieval
        if depth > 8:
            raise AnalysisBroken("matches_flag recursion too deep at %s" % facts.loc(f))
        pvar = f["params"][0]["var"]
        env = {pvar: v}
        env.update(extra or {})

        def tf(n):
            if n["k"] != "CXXMemberCallExpr":
                return None
            if n.get("cname") == "matches_flag" and len(n["c"]) == 2:
                av = ieval.ev(f, n["c"][1], env)
                me = strip(n["c"][0])
                obj = strip(me["c"][0]) if me.get("c") else None
                if obj is not None and obj["k"] == "CXXThisExpr" and me.get("qualified"):
                    g = self.db.fn(n["callee"])
                    if g is None:
                        raise AnalysisBroken("body of %s not in database" % n["callee"])
                    return 1 if self.eval_flag(g, av, K, depth + 1) else 0
                T = self.member_record(f, n)
                if T:
                    return 1 if av in self.accepted(T, depth + 1) else 0
                raise ieval.Unknown("matches_flag call on another object")
            if n.get("cname") == "pdu_type" and len(n["c"]) == 1:
                me = strip(n["c"][0])
                obj = strip(me["c"][0]) if me.get("c") else None
                if obj is not None and obj["k"] == "CXXThisExpr":
                    pt = self.ptype(K)
                    if len(pt) == 1:
                        return list(pt)[0]
                raise ieval.Unknown("pdu_type() with several possible values")
            # a const member of the same object that takes constants / the flag (shared logic pulled up into a base class:
            # `matches_own_or_control_flag(pdu_flag, flag)`): its body is evaluated on the argument values, same object
            me_ = strip(n["c"][0]) if n.get("c") else None
            obj_ = strip(me_["c"][0]) if me_ is not None and me_.get("c") else None
            h_ = self.db.fn(n.get("callee")) if n.get("callee") else None
            if h_ is not None and h_.get("body") and len(n["c"]) >= 2 and (obj_ is None or obj_["k"] == "CXXThisExpr") and \
                    len(h_.get("params", ())) == len(n["c"]) - 1 and \
                    all((facts.tyi(h_, p_.get("t")) or {}).get("k") in ("int", "enum", "bool") for p_ in h_["params"]) and \
                    (facts.tyi(h_, h_.get("ret")) or {}).get("k") == "bool" and depth < 8:
                vals_ = [ieval.ev(f, a_, env) for a_ in n["c"][1:]]
                return 1 if self.eval_member(h_, vals_, K, depth + 1) else 0
            # anything else the body reads from the OBJECT (a const accessor such as type(), a field): a state the caller
            # cannot exclude.  A(K) is the set of flags accepted in SOME state, so the term ranges over the constants the
            # body compares things with (and 0)
            me = strip(n["c"][0]) if n.get("c") else None
            obj = strip(me["c"][0]) if me is not None and me.get("c") else None
            if (n.get("cname") or "").startswith("operator ") and len(n["c"]) == 1 and obj is not None and obj["k"] == "CXXMemberCallExpr":
                return ieval.ev(f, obj, env)        # small_uint<n> -> integer conversion of an accessor's result
            if len(n["c"]) == 1 and (n.get("callee") or "").rstrip().endswith("const") and \
                    (obj is None or obj["k"] == "CXXThisExpr" or (obj["k"] == "MemberExpr" and obj.get("isfield"))):
                key = facts.expr_str(n)
                state_terms.setdefault(key, None)
                return oracle.get(key, 0)
            return None
        state_terms = {}
        oracle = {}
        env["__termfn__"] = tf
        try:
            r = ieval.run_body(f, f["body"], env)
            if state_terms and not r:
                import itertools
                consts = sorted(set(int(facts.cval(x)) for x in facts.fn_nodes(f) if facts.cval(x) is not None) | {0})[:12]
                keys = sorted(state_terms)[:3]
                for vals in itertools.product(consts, repeat=len(keys)):
                    oracle.clear()
                    oracle.update(zip(keys, vals))
                    r = ieval.run_body(f, f["body"], env)
                    if r:
                        break
        except ieval.Unknown as ex:
            raise AnalysisBroken("matches_flag body %s is outside the finite evaluator: %s" % (facts.loc(f), ex))
        if r is None:
            raise AnalysisBroken("matches_flag %s can fall off its end" % facts.loc(f))
        return bool(r)

    def accepted_eval(self, f, K, depth):
        out = {}
        dom = set(self.flag_domain()) | set(self.ptype(K))
        for v in sorted(dom):
            if self.eval_flag(f, v, K, depth):
                out[v] = "%s: evaluates to true for flag %s" % (facts.loc(f), v)
        return out

    def accepted_expr(self, f, e, K, depth):
        e = strip(e)
        pvar = f["params"][0]["var"]
        if e["k"] == "BinaryOperator" and e["op"] == "||":
            a = self.accepted_expr(f, e["c"][0], K, depth)
            b = self.accepted_expr(f, e["c"][1], K, depth)
            a.update(b)
            return a
        if e["k"] == "BinaryOperator" and e["op"] == "==":
            l, r = strip(e["c"][0]), strip(e["c"][1])
            for x, y in ((l, r), (r, l)):
                x0 = strip(x)
                if x0["k"] == "DeclRefExpr" and x0.get("var") == pvar:
                    y0 = strip(y)
                    yv = facts.cval(e["c"][0] if y is r and False else (e["c"][1] if y is r else e["c"][0]))
                    if yv is not None:
                        return {yv: "%s: flag == constant %s" % (facts.loc(f, e), yv)}
                    if y0["k"] == "CXXMemberCallExpr" and y0.get("cname") == "pdu_type" and \
                            strip(y0["c"][0]["c"][0])["k"] == "CXXThisExpr":
                        return dict((v, "%s: flag == pdu_type() [%s]" % (facts.loc(f, e), d))
                                    for v, d in self.ptype(K).items())
        if e["k"] == "CXXMemberCallExpr" and e.get("cname") == "matches_flag" and depth < 8:
            arg = strip(e["c"][1])
            if arg["k"] == "DeclRefExpr" and arg.get("var") == pvar:
                callee_me = strip(e["c"][0])
                obj = strip(callee_me["c"][0]) if callee_me.get("c") else None
                if obj is not None and obj["k"] == "CXXThisExpr" and callee_me.get("qualified"):
                    # qualified base call: body of that exact function, same dynamic type
                    g = self.db.fn(e["callee"])
                    if g is None:
                        raise AnalysisBroken("body of %s not in database" % e["callee"])
                    return self.accepted_body(g, K, depth + 1)
                T = self.member_record(f, e)
                if T:
                    # forwarding to a member object whose dynamic type is its static type
                    return self.accepted(T, depth + 1)
        raise AnalysisBroken("matches_flag body %s is outside the small grammar: %s"
                             % (facts.loc(f, e), facts.expr_str(e)))


def synth_cacher_tu(db, concrete):
    """explicit instantiations of the PDUCacher<K> members of interest for every concrete layer class.  Members whose
    signature is fixed by PDU's virtual interface are named; clone() - whose return type is the class's own choice
    (covariant or not) - is instantiated by a call, so that the unit compiles whenever the library does"""
    lines = ["#include <tins/tins.h>", "#include <tins/pdu_cacher.h>"]
    hdrs = sorted(set(db.records[K]["file"] for K in concrete))
    for h in hdrs:
        if h.startswith("include/"):
            lines.append("#include <%s>" % h[len("include/"):])
    lines.append("template <class K> void verif_use_clone(const Tins::PDUCacher<K>& c) { (void)c.clone(); }")
    for K in concrete:
        if not db.records[K]["file"].startswith("include/"):
            continue
        lines.append("template bool Tins::PDUCacher< %s >::matches_flag(Tins::PDU::PDUType) const;" % K)
        lines.append("template Tins::PDU::PDUType Tins::PDUCacher< %s >::pdu_type() const;" % K)
        lines.append("template void verif_use_clone< %s >(const Tins::PDUCacher< %s >&);" % (K, K))
        lines.append("template bool Tins::PDUCacher< %s >::matches_response(const uint8_t*, uint32_t) const;" % K)
        lines.append("template uint32_t Tins::PDUCacher< %s >::header_size() const;" % K)
        lines.append("template void Tins::PDUCacher< %s >::write_serialization(uint8_t*, uint32_t);" % K)
    return "\n".join(lines) + "\n"


def concrete_pdus(db):
    out = []
    for name in db.all_derived(PDU):
        r = db.records[name]
        if r.get("abstract"):
            continue
        out.append(name)
    return sorted(out)


def with_cachers(db):
    base = [k for k in concrete_pdus(db) if not k.startswith("Tins::PDUCacher<")]
    facts.extract_extra(db, "cachers", synth_cacher_tu(db, base))
    return base


CACHER = "Tins::PDUCacher<"


def cached_of(name):
    return name[len(CACHER):-1].strip() if name.startswith(CACHER) else None


def cacher_shares_flag(db, K, T, F, A_of):
    """True when the (K,T) pair is exactly the consequence of
    `PDUCacher<Y>::pdu_flag = Y::pdu_flag` + forwarding of matches_flag/pdu_type
    to the cached object: the pair would be sound if every PDUCacher<Y> were
    replaced by Y itself.  Anything else involving a cacher is a new violation."""
    ky, ty_ = cached_of(K), cached_of(T)
    if ky is None and ty_ is None:
        return False
    K0 = ky or K
    T0 = ty_ or T
    if K0 not in db.records or T0 not in db.records:
        return False
    if ky is not None and A_of.get(K) != A_of.get(ky):
        return False  # the wrapper does not simply forward: not this finding
    if ty_ is not None and F.get(T) != F.get(ty_):
        return False
    return T0 == K0 or T0 in db.all_bases(K0)


def run(db, rep, tier):
    rep.level = "proof"
    rep.rule("sound-find", "F(T) in A(K) => T is K or a base of K (find_pdu<T> static_casts an object of class K to T*)", 2000)
    rep.rule("sound-cast", "F(T) == P(K) => T is K or a base of K (tins_cast<T> static_casts an object of class K to T)", 2000)
    rep.rule("own", "F(K) in A(K): a search by an object's own exact class finds it", 50)
    rep.rule("helpers", "find_pdu / tins_cast hand back only the object whose flag test succeeded: every returned pointer is null or a "
                        "static_cast of the tested object, guarded by matches_flag(type) / T::pdu_flag == pdu_type() on that object", 8)
    base = with_cachers(db)
    K_all = concrete_pdus(db)
    cachers = [k for k in K_all if k.startswith("Tins::PDUCacher<")]
    if len(base) < 50 or len(cachers) < len(base):
        rep.analysis_broken("expected >=50 concrete PDU classes and one PDUCacher per class, got %d and %d"
                            % (len(base), len(cachers)))
    ev = Eval(db)
    # flagged classes T: every class deriving from PDU in which lookup finds pdu_flag
    T_all = []
    for name in sorted(db.all_derived(PDU)):
        v, where = static_flag(db, name)
        if v is not None:
            T_all.append((name, v))
    F = dict(T_all)
    table = []
    A_of = {}
    for K in K_all:
        try:
            A_of[K] = set(ev.accepted(K))
        except AnalysisBroken:
            pass
    for K in K_all:
        try:
            A = ev.accepted(K)
            Pset = ev.ptype(K)
        except AnalysisBroken as e:
            rep.analysis_broken(str(e))
            continue
        bases = set([K] + db.all_bases(K))
        site = facts.loc(final_overrider(db, K, "matches_flag"))
        table.append(dict(K=K, F=F.get(K), P=sorted(Pset), A=sorted(A)))
        for T, fv in T_all:
            key = "K=%s,T=%s" % (K, T)
            if not (T in bases) and cacher_shares_flag(db, K, T, F, A_of):
                key = "cacher-shares-flag:" + key
            if fv in A:
                if T in bases:
                    rep.ok("sound-find", key, site, "flag %s accepted and %s is a base of / is %s" % (fv, T, K))
                else:
                    rep.violation("sound-find", key, site,
                                  "an object of class %s accepts flag %s (= %s::pdu_flag) via [%s] but %s is not "
                                  "%s or one of its bases: find_pdu<%s>() static_casts it to the wrong type"
                                  % (K, fv, T, A[fv], T, K, T))
            else:
                rep.ok("sound-find", key, site, "flag %s of %s not accepted by %s" % (fv, T, K))
            if fv in Pset:
                P, pd = fv, Pset[fv]
                if T in bases:
                    rep.ok("sound-cast", key, site, "pdu_type()==%s and %s is a base of / is %s" % (P, T, K))
                else:
                    rep.violation("sound-cast", key, site,
                                  "pdu_type() of an object of class %s is %s (= %s::pdu_flag) [%s] but %s is not "
                                  "%s or one of its bases: tins_cast<%s*> static_casts it to the wrong type"
                                  % (K, P, T, pd, T, K, T))
            else:
                rep.ok("sound-cast", key, site, "pdu_type() in %s, never flag %s of %s" % (sorted(Pset), fv, T))
        if K in F:
            own_always = F[K] in A and not (len(Pset) > 1 and "pdu_type()" in A[F[K]])
            if own_always:
                rep.ok("own", "K=%s" % K, site, "own flag %s accepted: %s" % (F[K], A[F[K]]))
            elif F[K] in A:
                rep.violation("own", "K=%s" % K, site,
                              "find_pdu<%s>() on an object of exactly that class can fail: own flag %s is accepted only "
                              "through flag == pdu_type(), and pdu_type() may also return %s [%s]"
                              % (K, F[K], sorted(v for v in Pset if v != F[K]),
                                 "; ".join(Pset[v] for v in Pset if v != F[K])))
            else:
                rep.violation("own", "K=%s" % K, site,
                              "find_pdu<%s>() on an object of exactly that class fails: own flag %s is not in the "
                              "accepted set %s" % (K, F[K], sorted(A)))
        else:
            rep.analysis_broken("concrete class %s has no pdu_flag" % K)
    helpers(db, rep, F)
    rep.extra["exhaustive"] = True
    rep.extra["classes_K"] = len(K_all)
    rep.extra["classes_T"] = len(T_all)
    rep.extra["table_sample"] = table[:6]
    rep.explanation = ("Exhaustive over the finite quantifier of C13: %d concrete classes K (including %d "
                       "PDUCacher<K> instantiations made in a synthetic TU) x %d flagged classes T. F, P and A are "
                       "computed from the resolved declarations and the bodies of the final overriders of "
                       "pdu_type()/matches_flag(); any body outside the grammar {pdu_type: return const | c?a:b | if/return | member.pdu_type(); matches_flag: flag==const, flag==pdu_type(), "
                       "a||b, Base::matches_flag(flag), member.matches_flag(flag)} aborts the analysis (exit 2)."
                       % (len(K_all), len(cachers), len(T_all)))
    rep.assumptions += ["user-defined PDU subclasses outside libtins are not part of the quantifier",
                        "find_pdu<T>(type) is called with its default argument T::pdu_flag"]


def exit_implies_match(f, g, ret, x, tparam):
    """is the return reached only by leaving a loop whose (false) condition says: x is null, or matches_flag(type) holds on x?"""
    import itertools
    from vlib import formula
    loops = [l for l in facts.fn_nodes(f) if l["k"] == "WhileStmt"]
    if len(loops) != 1:
        return False
    real = [c for c in loops[0]["c"] if c is not None]
    c, body = real[0], real[-1]
    if any(y is ret for y in facts.walk(body)):
        return False
    # the only other statements between the loop and the return: none that write x
    for y in facts.fn_nodes(f):
        if y["k"] == "BinaryOperator" and y.get("op") == "=" and facts.strip_all(y["c"][0]).get("var") == x["var"] and \
                not any(z is y for z in facts.walk(body)):
            return False
    if any(y["k"] in ("ReturnStmt", "BreakStmt", "GotoStmt") for y in facts.walk(body)):
        return False
    atoms = []
    formula.leaves(c, atoms)
    atoms = sorted(set(atoms))
    nm = x.get("name")
    role = {}
    for a in atoms:
        if a.strip() == nm:
            role[a] = "nonnull"
        elif "matches_flag" in a and a.replace(" ", "").startswith(nm + "->matches_flag("):
            role[a] = "match"
    if sorted(role.values()) != ["match", "nonnull"] or len(atoms) != 2:
        return False
    for vals in itertools.product((False, True), repeat=2):
        env = dict(zip(atoms, vals))
        try:
            cv = formula.ev(c, env)
        except KeyError:
            return False
        e = dict((role[a], v) for a, v in env.items())
        if not cv and e["nonnull"] and not e["match"]:
            return False
    # the flag handed to matches_flag is the function's own parameter
    return any(y["k"] == "CXXMemberCallExpr" and y.get("cname") == "matches_flag" and len(y["c"]) == 2 and
               facts.strip_all(y["c"][1]).get("var") in tparam for y in facts.walk(c))


def search_member_ok(db, callee):
    """None when `callee` (a PDU member taking the flag) returns only null or the object variable on which
    matches_flag(<the flag parameter>) has just succeeded, and its cursor only moves to inner_pdu(); else the reason"""
    from vlib import cfg, cond
    h = db.fn(callee)
    if h is None or not h.get("body") or h.get("rec") != "Tins::PDU" or len(h.get("params", ())) != 1:
        return "not a readable member of PDU"
    g = cfg.FnCFG(h)
    pv = h["params"][0]["var"]
    n_obj = 0
    for r in facts.fn_nodes(h):
        if r["k"] != "ReturnStmt" or not r.get("c"):
            continue
        v = facts.strip_all(r["c"][0])
        if facts.cval(v) == 0 or v["k"] in ("CXXNullPtrLiteralExpr", "GNUNullExpr", "IntegerLiteral"):
            continue
        if v["k"] != "DeclRefExpr" or not v.get("var"):
            return "it returns `%s`, not a plain object variable" % facts.expr_str(v)[:50]
        okg = False
        for op, l, rr in cond.guards_facts(g, g.pos(r)):
            c = strip(l)
            if op == "true" and c["k"] == "CXXMemberCallExpr" and c.get("cname") == "matches_flag" and len(c["c"]) == 2:
                obj = facts.strip_all(c["c"][0]["c"][0]) if c["c"][0].get("c") else None
                if obj is not None and obj.get("var") == v["var"] and facts.strip_all(c["c"][1]).get("var") == pv:
                    okg = True
        if not okg:
            return "it returns `%s` without matches_flag(%s) having succeeded on that same object" % (v.get("name"), h["params"][0].get("name"))
        n_obj += 1
    for x in facts.fn_nodes(h):
        if x["k"] == "BinaryOperator" and x.get("op") == "=" and strip(x["c"][0])["k"] == "DeclRefExpr":
            rhs = strip(x["c"][1])
            if not (rhs["k"] == "CXXMemberCallExpr" and rhs.get("cname") == "inner_pdu"):
                return "its search cursor is assigned `%s`" % facts.expr_str(rhs)[:60]
    if n_obj == 0:
        return "it never returns a tested object"
    return None


def helpers(db, rep, F):
    """The table above decides soundness GIVEN what the helper templates do; this rule decides what they do, on every
    instantiation the library itself makes."""
    from vlib import cfg, cond
    n = 0
    for fid, f in sorted(db.functions.items()):
        is_find = fid.startswith("Tins::PDU::find_pdu<")
        is_cast = fid.startswith("Tins::tins_cast<") and "*" in fid.split("(")[0]
        if not (is_find or is_cast) or not f.get("body"):
            continue
        key = "%s" % fid.replace("Tins::", "")[:110]
        g = cfg.FnCFG(f)
        rets = [x for x in facts.fn_nodes(f) if x["k"] == "ReturnStmt" and x.get("c")]
        if is_find:
            # an overload that only forwards to its const / non-const sibling (same T, same flag, on this very object) adds
            # nothing of its own: the sibling is the instance that is checked
            def forwards(r_):
                e_ = facts.strip_all(r_["c"][0])
                while e_["k"] in ("CXXConstCastExpr", "CXXStaticCastExpr") and e_.get("c"):
                    e_ = facts.strip_all(e_["c"][0])
                if e_["k"] != "CXXMemberCallExpr" or e_.get("cname") != "find_pdu" or len(e_["c"]) != 2:
                    return False
                sib = (e_.get("callee") or "").split("(")[0]
                if sib != fid.split("(")[0]:
                    return False
                obj = facts.strip_all(facts.inline_locals(f, e_["c"][0]["c"][0], all_types=True)) if e_["c"][0].get("c") else None
                while obj is not None and obj["k"] in ("CXXConstCastExpr", "CXXStaticCastExpr") and obj.get("c"):
                    obj = facts.strip_all(obj["c"][0])
                arg = facts.strip_all(e_["c"][1])
                return obj is not None and obj["k"] == "CXXThisExpr" and arg.get("var") in [p_["var"] for p_ in f["params"]]
            if rets and all(forwards(r_) for r_ in rets) and len(list(facts.fn_nodes(f))) < 40:
                sib_ok = any(g_ is not f and g_id.split("(")[0] == fid.split("(")[0] and g_.get("body") for g_id, g_ in db.functions.items())
                if sib_ok:
                    rep.ok("helpers", key, facts.loc(f), "forwards to the other const-ness overload of the same search")
                    n += 1
                    continue
        n += 1
        bad = None
        casts = 0
        # operands of the returned value: split conditionals
        def leaves(e):
            e0 = strip(e)
            if e0["k"] == "ConditionalOperator":
                return leaves(e0["c"][1]) + leaves(e0["c"][2])
            return [e0]
        params = set(p_["var"] for p_ in f["params"])
        tparam = [p_["var"] for p_ in f["params"] if p_["name"] == "type"]
        for r in rets:
            for v in leaves(r["c"][0]):
                if facts.cval(v) == 0 or v["k"] in ("CXXNullPtrLiteralExpr", "GNUNullExpr", "IntegerLiteral"):
                    continue
                if v["k"] != "CXXStaticCastExpr":
                    bad = "returns `%s`: not the tested object itself (nor null) - the helper can hand back another object than the one " \
                          "whose type flag it compared" % facts.expr_str(v)[:70]
                    break
                x = facts.strip_all(v["c"][0])
                if is_find and x["k"] == "CXXMemberCallExpr" and x.get("callee") and len(x["c"]) == 2 and \
                        facts.strip_all(x["c"][1]).get("var") in tparam and \
                        (not x["c"][0].get("c") or facts.strip_all(x["c"][0]["c"][0])["k"] == "CXXThisExpr"):
                    # the type-independent part of the search lives in a member of its own: that member hands back null or
                    # the object whose matches_flag(<its parameter>) succeeded, walking this -> inner_pdu() only
                    why = search_member_ok(db, x["callee"])
                    if why is None:
                        casts += 1
                        continue
                    bad = "casts the result of %s(): %s" % (x.get("cname"), why)
                    break
                if x["k"] != "DeclRefExpr" or not x.get("var"):
                    bad = "casts `%s`, not a plain object variable" % facts.expr_str(v["c"][0])[:60]
                    break
                casts += 1
                if is_cast and x["var"] not in params:
                    bad = "tins_cast returns a cast of `%s`, not of its argument" % x.get("name")
                    break
                gf = cond.guards_facts(g, g.pos(v))
                okg = False
                for op, l, rr in gf:
                    if is_find and op == "true":
                        c = strip(l)
                        if c["k"] == "CXXMemberCallExpr" and c.get("cname") == "matches_flag" and len(c["c"]) == 2:
                            obj = facts.strip_all(c["c"][0]["c"][0]) if c["c"][0].get("c") else None
                            arg = facts.strip_all(c["c"][1])
                            if obj is not None and obj.get("var") == x["var"] and arg.get("var") in tparam:
                                okg = True
                    if is_cast and op == "==" and rr is not None:
                        for a, b in ((l, rr), (rr, l)):
                            b0 = strip(b)
                            if facts.cval(a) is not None and b0["k"] == "CXXMemberCallExpr" and b0.get("cname") == "pdu_type":
                                obj = facts.strip_all(b0["c"][0]["c"][0]) if b0["c"][0].get("c") else None
                                if obj is not None and obj.get("var") == x["var"]:
                                    okg = True
                if not okg and is_find:
                    # `while (p && !p->matches_flag(type)) p = p->inner_pdu(); return static_cast<T*>(p);` - the return is
                    # reached through the loop's exit only, where the loop condition is false: p is null or it matched
                    okg = exit_implies_match(f, g, r, x, tparam)
                if not okg:
                    bad = "the cast of `%s` is not guarded by %s on that same object" % (
                        x.get("name"), "matches_flag(type)" if is_find else "T::pdu_flag == pdu_type()")
                    break
            if bad:
                break
        if not bad and is_find:
            # the cursor only walks this -> inner_pdu()
            for x in facts.fn_nodes(f):
                if x["k"] == "BinaryOperator" and x.get("op") == "=" and strip(x["c"][0])["k"] == "DeclRefExpr":
                    rhs = strip(x["c"][1])
                    if not (rhs["k"] == "CXXMemberCallExpr" and rhs.get("cname") == "inner_pdu"):
                        bad = "the search cursor is assigned `%s`" % facts.expr_str(rhs)[:60]
        if not bad and casts == 0:
            bad = "no guarded cast of the tested object is returned any more"
        if bad:
            rep.violation("helpers", key, facts.loc(f), bad)
        else:
            rep.ok("helpers", key, facts.loc(f), "%d guarded cast(s), otherwise null" % casts)
    if n < 8:
        rep.analysis_broken("only %d find_pdu / tins_cast instantiations found" % n)
