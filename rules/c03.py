"""C03 - re-serialising a parsed packet preserves it (DESIGN.md C03; structural part).

 R1 guarded-tag   wherever a serialiser stores the result of the class->tag tables (pdu_flag_to_ether_type /
                  pdu_flag_to_ip_type) into its header, the store is guarded by a comparison of that result with the
                  table's "unknown" value: in front of an unrecognised payload the parsed tag survives.
 R2 tag-tables    for every layer class K the class->tag table gives a tag that the tag->class table turns back into K
                  (Ethernet types and IP protocol numbers); pdu_from_flag(PDUType) creates a class with that very flag.
 R3 read-write    (see r3) the members a from-buffer constructor reads are the members write_serialization writes, in the
                  same order and width.
 R4 exhaustive    a switch without default on the serialisation path whose scrutinee can hold a value cast from masked
                  wire bits has an arm for every such value.
"""
from vlib import facts, cfg, cond, table as tbl, bits
from vlib.facts import strip
from rules import _tags

PID = "C03"
ETH_LOOKUP = "Tins::Internals::pdu_flag_to_ether_type"
IP_LOOKUP = "Tins::Internals::pdu_flag_to_ip_type"


def run(db, rep, tier):
    rep.rule("R1-guarded-tag", "a looked-up next-protocol tag is stored only when the lookup succeeded", 7)
    rep.rule("R2-tag-tables", "class->tag and tag->class tables are mutual inverses on every layer class", 20)
    rep.rule("R4-exhaustive", "switches on wire-derived values on the serialisation path cover every value", 1)
    r1(db, rep)
    r2(db, rep)
    r4(db, rep)
    from rules import c03_r3
    c03_r3.run(db, rep)
    rep.rule("R5-rfc4884-types", "the serialiser rewrites the RFC 4884 length byte only for message types in which that byte is not another "
                                 "field: ICMP {3, 11, 12}, ICMPv6 {1, 3} (accept set of are_extensions_allowed over all 256 type values)", 2)
    r5(db, rep)
    rep.rule("R6-trailer-agreement", "RadioTap: trailer_size() counts the 4-byte FCS exactly when the parser strips one (FLAGS present and FCS "
                                     "bit set), independently of anything else", 1)
    r6(db, rep)
    rep.rule("R7-ext-minimum", "ICMP / ICMPv6 extension parsing starts the extension structure at least 128 octets into the payload - "
                               "where the serialiser, which pads the quoted datagram to 128, puts it", 1)
    r7(db, rep)
    rep.rule("R8-selector-bytes", "a length member that a selector's setter fixes per enumerator (LLC: control_field_length_ per Format) and "
                                  "that header_size() counts equals the selector-dependent bytes write_serialization writes for that "
                                  "enumerator (both sides executed per enumerator; a missing arm writes 0)", 3)
    r8(db, rep)
    rep.rule("R9-header-end", "a parser that walks options up to an end-of-header pointer leaves the loop with its cursor AT that pointer: an "
                              "early `break` (end-of-list option) either verifies the cursor is there or skips the padding up to it - the "
                              "payload is taken from the cursor", 2)
    r9_header_end(db, rep)
    rep.rule("R1-size-balance", "(C02.R1, re-run here because a serialiser that writes more than its size function counts overwrites the next "
                                "layer: the serialization no longer parses back to the same packet)", 90)
    from rules import c02
    c02.r1(db, rep)
    rep.explanation = ("Structural part of C03: the next-protocol tag is only rewritten when the payload class is recognised (R1), the two "
                       "directions of the tag tables agree for every layer class (R2), readers and writers walk the same member sequence "
                       "(R3), and no wire-derived selector value lacks a serialiser arm (R4). NOT decided: value-dependent losses (ICMP "
                       "extension checksum recognition, DHCP END/PAD growth, option contents), byte-for-byte idempotence.")


def lookup_default(db, q):
    fs = db.fns_named(q)
    if not fs:
        return None
    t = tbl.switch_table(fs[0])
    if t is None:
        return None
    table, default, sw = t
    if default is None:
        return None
    main, allr = default
    consts = [r for r in allr if r[0] == "const"]
    return consts[-1][1] if consts else None


def r1(db, rep):
    unknown = {ETH_LOOKUP: lookup_default(db, ETH_LOOKUP), IP_LOOKUP: lookup_default(db, IP_LOOKUP)}
    for q, v in unknown.items():
        if v is None:
            rep.analysis_broken("cannot read the 'unknown' value of %s" % q)
            return
    n_sites = 0
    is_lookup = _tags.make_is_lookup(db)
    # the serialisers, and the members of the same class they call on this object (a tag update split off into a member
    # of its own is still part of the serialiser)
    part_of = set()
    for fid, f in db.functions.items():
        if f.get("body") and (f.get("rec") or "").startswith("Tins::") and f["qual"].split("::")[-1] == "write_serialization":
            part_of.add(fid)
            for c in facts.fn_nodes(f):
                if c["k"] == "CXXMemberCallExpr" and c.get("callee") and strip_this(c):
                    h = db.functions.get(c["callee"])
                    if h is not None and h.get("body") and h.get("rec") == f.get("rec") and not is_setter(h) and \
                            any(is_lookup(x) for x in facts.fn_nodes(h)):
                        part_of.add(h["id"])
    for fid, f in sorted(db.functions.items()):
        if not f.get("body") or not (f.get("rec") or "").startswith("Tins::"):
            continue
        if fid not in part_of:
            continue
        calls = [n for n in facts.fn_nodes(f) if is_lookup(n)]
        if not calls:
            continue
        g = cfg.FnCFG(f)
        idx, par = facts.index_fn(f)
        short = f["qual"].replace("Tins::", "")
        # variables holding a lookup result (a helper that returns the lookup's result is the lookup: rules/_tags.py)
        holders = _tags.holders_of(f, is_lookup)
        # stores: setter calls / assignments to a header member whose value mentions a holder or the call itself, and
        # (so that `x = ok ? flag : old; set(x)` is the same store) assignments to a local that reaches such a store.
        # The obligation sits on each READ of the lookup result inside such a value: it must be guarded, where it is
        # read (arms of ?: included), by result != unknown.
        def sinks():
            for n in facts.fn_nodes(f):
                if n["k"] == "CXXMemberCallExpr" and len(n["c"]) == 2 and strip_this(n):
                    fs = db.functions.get(n.get("callee"))
                    if fs is not None and is_setter(fs):
                        yield n, n["c"][1], None
                if n["k"] == "BinaryOperator" and n.get("op") == "=":
                    lhs = strip(n["c"][0])
                    if lhs["k"] == "MemberExpr" and lhs.get("isfield"):
                        yield n, n["c"][1], None
                    elif lhs["k"] == "DeclRefExpr" and lhs.get("var") and not lhs.get("parm") and lhs.get("var") not in holders:
                        yield n, n["c"][1], lhs["var"]
                if n["k"] == "VarDecl" and n.get("c") and n.get("var") not in holders:
                    yield n, n["c"][0], n["var"]
        all_sinks = list(sinks())
        # locals that reach a header store
        reach = set()
        changed = True
        while changed:
            changed = False
            for n, val, tgt in all_sinks:
                if tgt is None or tgt in reach:
                    continue
                for n2, val2, tgt2 in all_sinks:
                    if (tgt2 is None or tgt2 in reach) and any(x["k"] == "DeclRefExpr" and x.get("var") == tgt for x in facts.walk(val2)):
                        reach.add(tgt)
                        changed = True
                        break
        stores = []
        for n, val, tgt in all_sinks:
            if tgt is not None and tgt not in reach:
                continue
            for x in facts.walk(val):
                if x["k"] == "DeclRefExpr" and x.get("var") in holders:
                    # a read that is only compared is not a flow
                    pp = par.get(x["id"])
                    while pp is not None and pp["k"] in ("ImplicitCastExpr", "ParenExpr"):
                        pp = par.get(pp["id"])
                    if pp is not None and pp["k"] == "BinaryOperator" and pp.get("op") in ("==", "!=", "<", ">", "<=", ">="):
                        continue
                    stores.append((n, x, (x["var"], holders[x["var"]])))
                elif is_lookup(x) and holders.get(("direct", x["id"])):
                    stores.append((n, x, (None, is_lookup(x))))
        for n, rd, (var, q) in stores:
            n_sites += 1
            key = "%s:store#%d" % (short, n_sites)
            unk = unknown[q]
            good = False
            if var is not None:
                for op, l, r in cond.guards_facts(g, g.pos(rd)) + cond.guards_facts(g, g.pos(n)):
                    if r is None or op != "!=":
                        continue
                    for a, b in ((l, r), (r, l)):
                        a0 = strip(a)
                        if a0["k"] == "DeclRefExpr" and a0.get("var") == var and facts.cval(b) == unk:
                            good = True
            if good:
                rep.ok("R1-guarded-tag", key, facts.loc(f, n), "stored only when the lookup result != 0x%x (unknown)" % unk)
            else:
                rep.violation("R1-guarded-tag", key, facts.loc(f, n),
                              "%s overwrites its next-protocol field with the result of %s even when the payload class is not in the "
                              "table (0x%x): a parsed header in front of an unrecognised payload loses its tag"
                              % (short, q.split("::")[-1], unk))
    if n_sites < 7:
        rep.analysis_broken("only %d tag stores found in serialisers (7 expected)" % n_sites)


def strip_this(n):
    me = n["c"][0]
    while me["k"] in ("ParenExpr", "ImplicitCastExpr"):
        me = me["c"][0]
    return not me.get("c") or strip(me["c"][0])["k"] == "CXXThisExpr"


def is_setter(fs):
    if not fs.get("body") or len(fs["params"]) != 1:
        return False
    for x in facts.fn_nodes(fs):
        if x["k"] == "BinaryOperator" and x.get("op") == "=":
            lhs = strip(x["c"][0])
            if lhs["k"] == "MemberExpr" and lhs.get("isfield"):
                return True
    return False


# ---------------------------------------------------------------------------
def class_flags(db):
    """{class: pdu_flag value} for layer classes"""
    out = {}
    for rn, r in db.records.items():
        if not rn.startswith("Tins::") or "Tins::PDU" not in db.all_bases(rn):
            continue
        for s in r.get("statics", []):
            if s["name"] == "pdu_flag" and "v" in s:
                out[rn] = s["v"]
    return out


def r2(db, rep):
    flags = class_flags(db)
    by_flag = {}
    for k, v in flags.items():
        by_flag.setdefault(v, []).append(k)
    pdutype = db.enums.get("Tins::PDU::PDUType")
    pname = dict((e["v"], e["name"]) for e in pdutype["enumerators"]) if pdutype else {}

    def tables(lookup_q, factory_sig):
        fs = db.fns_named(lookup_q)
        ff = [f for f in db.fns_named("Tins::Internals::pdu_from_flag") if factory_sig in f["id"]]
        if not fs or not ff:
            rep.analysis_broken("tag tables %s / pdu_from_flag(%s) not found" % (lookup_q, factory_sig))
            return None
        a, b = tbl.switch_table(fs[0]), tbl.switch_table(ff[0])
        if a is None or b is None:
            rep.analysis_broken("tag tables %s are not switches" % lookup_q)
            return None
        return fs[0], a, ff[0], b
    for lookup_q, sig, what in ((ETH_LOOKUP, "Tins::Constants::Ethernet::e", "ether"), (IP_LOOKUP, "Tins::Constants::IP::e", "ip")):
        t = tables(lookup_q, sig)
        if t is None:
            continue
        lf, (ltab, ldef, _), ff, (ftab, fdef, _) = t
        for pflag, oc in sorted(ltab.items()):
            main = oc[0]
            key = "%s:%s" % (what, pname.get(pflag, pflag))
            classes = by_flag.get(pflag, [])
            if main[0] != "const":
                rep.undecided("R2-tag-tables", key, facts.loc(lf), "table row is not a constant")
                continue
            tag = main[1]
            if not classes:
                rep.ok("R2-tag-tables", key, facts.loc(lf), "flag without a layer class (tag 0x%x)" % tag)
                continue
            back = ftab.get(tag)
            got = back[0] if back else ("none",)
            good = False
            if got[0] == "class":
                good = got[1] in classes or any(got[1] in db.all_bases(c) for c in classes)
            elif got[0] == "factory":
                fam = got[1].rsplit("::", 1)[0]
                good = any(fam == c or fam in db.all_bases(c) for c in classes)
            if good:
                rep.ok("R2-tag-tables", key, facts.loc(lf), "%s -> 0x%x -> %s" % (classes[0].split("::")[-1], tag, got[1].split("::")[-1] if len(got) > 1 else got))
            else:
                rep.violation("R2-tag-tables", key, facts.loc(lf),
                              "a %s payload is announced with tag 0x%x (%s), which the parser maps to %s: the re-parsed packet has a different layer stack"
                              % (classes[0].split("::")[-1], tag, main[2] and main[2].split("::")[-1], (got[1].split("::")[-1] if len(got) > 1 else "an unrecognised payload (RawPDU)")))
    # pdu_from_flag(PDUType): every row creates a class with that flag
    ff = [f for f in db.fns_named("Tins::Internals::pdu_from_flag") if "Tins::PDU::PDUType" in f["id"]]
    if not ff:
        rep.analysis_broken("pdu_from_flag(PDUType) not found")
        return
    t = tbl.switch_table(ff[0])
    table, default, _ = t
    for pflag, oc in sorted(table.items()):
        main = oc[0]
        key = "flag:%s" % pname.get(pflag, pflag)
        if main[0] == "class":
            ok = flags.get(main[1]) == pflag
            (rep.ok if ok else rep.violation)("R2-tag-tables", key, facts.loc(ff[0]),
                                              "creates %s" % main[1].split("::")[-1] if ok else
                                              "pdu_from_flag(%s) creates %s, whose flag is %s" % (pname.get(pflag), main[1], pname.get(flags.get(main[1]))))
        elif main[0] == "factory":
            fam = main[1].rsplit("::", 1)[0]
            cl = by_flag.get(pflag, [])
            ok = any(fam == c or fam in db.all_bases(c) for c in cl)
            (rep.ok if ok else rep.violation)("R2-tag-tables", key, facts.loc(ff[0]),
                                              "dispatched by %s" % main[1].split("::")[-2:] if ok else "%s is dispatched to %s, which does not create that class" % (pname.get(pflag), main[1]))
        else:
            rep.undecided("R2-tag-tables", key, facts.loc(ff[0]), "row outcome %s" % (main,))


# ---------------------------------------------------------------------------
SER_NAMES = ("write_serialization", "header_size", "trailer_size", "write_ext_header", "write_fixed_parameters", "write_body", "write_option", "write_header")


def dispatches(f):
    """[(statement, scrutinee expression, arms or None)]: default-less switches, and if / else-if chains without a final
    else that compare one expression with constants and write to the stream in every arm (the same dispatch, spelled
    with ifs).  Named single-assignment locals are read through."""
    out = []
    for sw in facts.fn_nodes(f):
        if sw["k"] == "SwitchStmt" and not tbl.has_default(sw):
            real = [x for x in sw["c"] if x is not None]
            out.append((sw, facts.inline_locals(f, real[0]), None))
    idx, par = facts.index_fn(f)
    for top in facts.fn_nodes(f):
        if top["k"] != "IfStmt":
            continue
        p = par.get(top["id"])
        if p is not None and p["k"] == "IfStmt" and [x for x in p["c"] if x is not None][-1] is top and len([x for x in p["c"] if x is not None]) == 3:
            continue        # an else-if: part of its parent's chain
        arms, scrut, cur, ok = set(), None, top, True
        while cur is not None:
            real = [x for x in cur["c"] if x is not None]
            c0 = facts.strip_all(real[0])
            if not (c0["k"] == "BinaryOperator" and c0.get("op") == "==" and facts.cval(c0["c"][1]) is not None):
                ok = False
                break
            sc = facts.inline_locals(f, c0["c"][0])
            if scrut is None:
                scrut = sc
            elif facts.expr_str(facts.strip_all(sc)) != facts.expr_str(facts.strip_all(scrut)):
                ok = False
                break
            if not any(x["k"] == "CXXMemberCallExpr" and x.get("cname") in ("write", "write_be", "write_le", "fill") for x in facts.walk(real[1])):
                ok = False
                break
            arms.add(int(facts.cval(c0["c"][1])))
            if len(real) == 2:
                cur = None
            elif real[2]["k"] == "IfStmt":
                cur = real[2]
            else:
                ok = False      # final else: every value has an arm
                break
        if ok and len(arms) >= 2:
            out.append((top, scrut, arms))
    return out


def r4(db, rep):
    bits.DB[0] = db
    n = 0
    for fid, f in sorted(db.functions.items()):
        rec = f.get("rec") or ""
        if not rec.startswith("Tins::") or not f.get("body") or f["qual"].split("::")[-1] not in SER_NAMES:
            continue
        for sw, scrut, chain_arms in dispatches(f):
            st = facts.ty(f, facts.strip_all(scrut)) or {}
            s0 = facts.strip_all(scrut)
            # scrutinee through a trivial getter
            et = st
            if et.get("k") != "enum" and s0["k"] == "CXXMemberCallExpr" and s0.get("callee") in db.functions:
                # through a trivial getter of an enum-typed member
                gf = db.functions[s0["callee"]]
                for x in facts.fn_nodes(gf):
                    if x["k"] == "ReturnStmt" and x.get("c"):
                        inner = facts.strip_all(x["c"][0])
                        if inner["k"] == "MemberExpr" and inner.get("isfield"):
                            et = facts.ty(gf, inner) or {}
            if et.get("k") != "enum":
                continue
            n += 1
            key = "%s:switch(%s)" % (f["qual"].replace("Tins::", ""), facts.expr_str(s0)[:30])
            if chain_arms is None:
                table, default, _ = tbl.switch_table(f, sw)
                arms = set(table)
            else:
                arms = chain_arms
            # values the enum-typed state can take from the wire: casts to this enum of masked expressions in the class
            wire = set()
            where = None
            for g in db.functions.values():
                if g.get("rec") != rec or not g.get("body"):
                    continue
                for x in facts.fn_nodes(g):
                    if x["k"] in ("CStyleCastExpr", "CXXStaticCastExpr", "CXXFunctionalCastExpr") and (facts.ty(g, x) or {}).get("name") == et.get("name"):
                        mv = bits.maxval(g, x["c"][0])
                        if mv is not None and mv < 256 and facts.cval(x["c"][0]) is None:
                            wire |= set(range(mv + 1))
                            where = facts.loc(g, x)
            missing = sorted(wire - arms)
            if missing:
                rep.violation("R4-exhaustive", key, facts.loc(f, sw),
                              "the parser can store the value(s) %s (cast of masked input at %s) but this switch has no arm for them: "
                              "what was parsed is not written back" % (missing, where))
            else:
                rep.ok("R4-exhaustive", key, facts.loc(f, sw), "arms %s cover the %d wire-derived value(s)" % (sorted(arms), len(wire)))
    if n < 1:
        rep.analysis_broken("no default-less enum switch found on the serialisation path (LLC's control-field switch expected)")


RFC4884 = {"Tins::ICMP": {3, 11, 12}, "Tins::ICMPv6": {1, 3}}


def r5(db, rep):
    from vlib import ieval
    for K, allowed in sorted(RFC4884.items()):
        fs = [f for f in db.fns_named(K + "::are_extensions_allowed") if f.get("body")]
        if not fs:
            rep.analysis_broken("%s::are_extensions_allowed vanished" % K)
            continue
        f = fs[0]
        key = "%s::are_extensions_allowed" % K.split("::")[-1]

        def tf(x):
            if x["k"] == "CXXMemberCallExpr" and x.get("cname") == "type" and len(x["c"]) == 1:
                return tf.v
            if x["k"] == "MemberExpr" and x.get("isfield") and x.get("member") == "type":
                return tf.v
            return None
        acc = set()
        try:
            for v in range(256):
                tf.v = v
                if ieval.run_body(f, f["body"], {"__termfn__": tf}):
                    acc.add(v)
        except ieval.Unknown as e:
            rep.analysis_broken("%s: outside the finite evaluator: %s" % (key, e))
            continue
        extra = sorted(acc - allowed)
        if extra:
            rep.violation("R5-rfc4884-types", key, facts.loc(f),
                          "message type(s) %s are treated as RFC 4884 multi-part messages: for them the byte the serialiser overwrites with "
                          "the derived length belongs to another field (e.g. the pointer of an ICMPv6 Parameter Problem), so a value the "
                          "user set or that was parsed does not survive serialisation" % extra)
        elif not acc:
            rep.violation("R5-rfc4884-types", key, facts.loc(f), "no message type carries extensions any more")
        else:
            rep.ok("R5-rfc4884-types", key, facts.loc(f), "accept set %s within %s (256 values evaluated)" % (sorted(acc), sorted(allowed)))


def r8(db, rep):
    """selector-dependent bytes: a class whose setter S(E v) stores v in an enum member M and a constant per value in a
    length member L that header_size() counts must, in write_serialization, write exactly L(v) selector-dependent bytes for
    every enumerator v.  Both sides are EXECUTED per enumerator (ieval.trace), so a switch, an if-chain or a table lookup
    are the same thing to the rule; a missing arm writes 0 bytes."""
    from vlib import ieval
    n = 0
    for rn, r in sorted(db.records.items()):
        if not rn.startswith("Tins::") or "Tins::PDU" not in db.all_bases(rn):
            continue
        ws = [f for f in db.functions.values() if f.get("rec") == rn and f["qual"].endswith("::write_serialization") and f.get("body")]
        hs = [f for f in db.functions.values() if f.get("rec") == rn and f["qual"].endswith("::header_size") and f.get("body")]
        if not ws or not hs:
            continue
        ws, hs = ws[0], hs[0]
        hs_fields = set(x.get("member") for x in facts.fn_nodes(hs) if x["k"] == "MemberExpr" and x.get("isfield"))
        for S in [f for f in db.functions.values() if f.get("rec") == rn and f.get("body") and len(f.get("params", ())) == 1]:
            pt = facts.tyi(S, S["params"][0].get("t")) or {}
            if pt.get("k") != "enum" or pt.get("name") not in db.enums:
                continue
            pv = S["params"][0]["var"]
            M, Ls = None, set()
            for x in facts.fn_nodes(S):
                if x["k"] == "BinaryOperator" and x.get("op") == "=":
                    l = strip(x["c"][0])
                    if l["k"] == "MemberExpr" and l.get("isfield") and strip(l["c"][0])["k"] == "CXXThisExpr":
                        if facts.strip_all(x["c"][1]).get("var") == pv:
                            M = l.get("member")
                        elif facts.cval(x["c"][1]) is not None and l.get("member") in hs_fields:
                            Ls.add(l.get("member"))
            if M is None or not Ls:
                continue
            getters = set(g["id"] for g in db.functions.values() if g.get("rec") == rn and g.get("body") and not g.get("params") and
                          any(x["k"] == "ReturnStmt" and x.get("c") and facts.strip_all(x["c"][0]).get("member") == M for x in facts.fn_nodes(g)))

            def is_sel(x):
                return (x["k"] == "CXXMemberCallExpr" and x.get("callee") in getters) or \
                       (x["k"] == "MemberExpr" and x.get("isfield") and x.get("member") == M)
            sa = facts.single_assign(ws)
            alias = set(v for v, init in sa.items() if any(is_sel(y) for y in facts.walk(init)))
            stmts = [st for st in ws["body"].get("c", []) if st is not None and
                     any(is_sel(y) or (y["k"] == "DeclRefExpr" and y.get("var") in alias) or (y["k"] == "VarDecl" and y.get("var") in alias)
                         for y in facts.walk(st))]
            for L in sorted(Ls):
                for en in db.enums[pt["name"]]["enumerators"]:
                    n += 1
                    V = en["v"]
                    key = "%s:%s(%s)" % (rn.replace("Tins::", ""), L, en["name"])
                    try:
                        want = None
                        for kind, node in ieval.trace(S, S["body"], {pv: V}):
                            if kind == "assign" and node.get("op") == "=" and strip(node["c"][0]).get("member") == L and facts.cval(node["c"][1]) is not None:
                                want = int(facts.cval(node["c"][1]))
                        got = 0
                        env = {"__termfn__": (lambda x, V=V: V if is_sel(x) else None)}
                        for kind, node in ieval.trace(ws, {"k": "CompoundStmt", "id": -1, "c": stmts}, env):
                            for y in facts.walk(node):
                                if y["k"] == "CXXMemberCallExpr" and y.get("cname") in ("write", "write_be", "write_le") and len(y["c"]) == 2:
                                    t = facts.ty(ws, facts.strip(y["c"][1])) or {}
                                    while t.get("k") == "ref" and t.get("to"):
                                        t = t["to"]
                                    sz = t.get("size") or ((t.get("w") or 0) // 8)
                                    if not sz:
                                        raise ieval.Unknown("write of unknown size")
                                    got += sz
                                elif y["k"] == "CXXMemberCallExpr" and y.get("cname") in ("write", "fill") and len(y["c"]) > 2:
                                    raise ieval.Unknown("variable-length write")
                    except ieval.Unknown as ex:
                        rep.undecided("R8-selector-bytes", key, facts.loc(ws), "not evaluable: %s" % ex)
                        continue
                    if want is None:
                        rep.undecided("R8-selector-bytes", key, facts.loc(S), "%s(%s) assigns no constant to %s" % (S["name"], en["name"], L))
                    elif got == want:
                        rep.ok("R8-selector-bytes", key, facts.loc(ws), "%s = %d, %d selector-dependent byte(s) written" % (L, want, got))
                    else:
                        rep.violation("R8-selector-bytes", key, facts.loc(ws),
                                      "for %s, %s(%s) sets %s = %d, which header_size() counts, but write_serialization writes %d "
                                      "selector-dependent byte(s): the serialised frame %s" %
                                      (en["name"], S["name"], en["name"], L, want, got,
                                       "lacks its control field and the following bytes are uninitialised" if got < want else "overruns its region"))
    if n < 3:
        rep.analysis_broken("only %d selector-dependent length instances found (LLC's control field expected)" % n)


def r9_header_end(db, rep):
    from vlib import cond, cfg
    n = 0
    for fid, f in sorted(db.functions.items()):
        if not f.get("body") or f.get("kind") != "ctor" or not (f.get("file") or "").startswith(("src/", "include/tins")):
            continue
        for w in facts.fn_nodes(f):
            if w["k"] != "WhileStmt":
                continue
            real = [x for x in w["c"] if x is not None]
            c = facts.strip_all(real[0])
            if c["k"] != "BinaryOperator" or c.get("op") not in ("<", "!="):
                continue
            l, r = facts.strip_all(c["c"][0]), facts.strip_all(c["c"][1])
            if not (l["k"] == "CXXMemberCallExpr" and l.get("cname") == "pointer" and r["k"] == "DeclRefExpr" and r.get("var")):
                continue
            end_var, end_name = r["var"], r.get("name")
            cur = facts.expr_str(l)
            g = cfg.FnCFG(f)
            # breaks that belong to THIS loop (not to a nested loop / switch)
            def breaks(node, inner=False):
                out = []
                for ch in node.get("c", []) or []:
                    if not isinstance(ch, dict):
                        continue
                    if ch["k"] == "BreakStmt":
                        if not inner:
                            out.append(ch)
                    elif ch["k"] in ("WhileStmt", "ForStmt", "DoStmt", "SwitchStmt", "CXXForRangeStmt"):
                        out += breaks(ch, True)
                    else:
                        out += breaks(ch, inner)
                return out
            idx, parent = facts.index_fn(f)
            for b in breaks(real[-1]):
                n += 1
                key = "%s:break#%d" % (fid.split("(")[0].replace("Tins::", ""), n)
                ok = False
                pb = g.pos(b)
                if pb is None:      # a break is the terminator of its block, not an element
                    tb_ = [blk_ for blk_ in g.blocks.values() if blk_.get("term") == b["id"]]
                    pb = (tb_[0]["id"], len(tb_[0]["e"])) if tb_ else None
                if pb is None:
                    rep.analysis_broken("%s: break at line %s has no CFG position" % (key, b.get("l")))
                    continue
                for op, a_, b_ in cond.guards_facts(g, pb):
                    if op == "==" and b_ is not None:
                        ta, tb = facts.expr_str(a_), facts.expr_str(b_)
                        if (ta == cur and facts.strip_all(b_).get("var") == end_var) or (tb == cur and facts.strip_all(a_).get("var") == end_var):
                            ok = True
                how = "dominated by `%s == %s`" % (cur, end_name)
                if not ok:
                    # ... or the statement before the break moves the cursor there: cursor.skip(END - cursor.pointer())
                    blk = parent.get(b["id"])
                    kids = [x for x in (blk.get("c") or []) if isinstance(x, dict)] if blk else []
                    i = [id(x) for x in kids].index(id(b)) if blk and id(b) in [id(x) for x in kids] else -1
                    if i > 0:
                        prev = facts.strip_all(kids[i - 1])
                        if prev["k"] == "CXXMemberCallExpr" and prev.get("cname") == "skip" and len(prev["c"]) == 2:
                            a_ = facts.strip_all(prev["c"][1])
                            if a_["k"] == "BinaryOperator" and a_.get("op") == "-" and facts.strip_all(a_["c"][0]).get("var") == end_var and \
                                    facts.expr_str(a_["c"][1]) == cur:
                                ok = True
                                how = "preceded by `skip(%s - %s)`" % (end_name, cur)
                if ok:
                    rep.ok("R9-header-end", key, facts.loc(f, b), how)
                else:
                    rep.violation("R9-header-end", key, facts.loc(f, b),
                                  "the option loop is left early with the cursor possibly short of `%s`: what follows takes the payload from the "
                                  "cursor, so padding octets after an end-of-list option are parsed as payload, the payload is cut short by the "
                                  "same amount, and serialising the result does not give the packet back" % end_name)
    if n < 2:
        rep.analysis_broken("expected the early exits of the IP and TCP option loops, found %d" % n)


def r6(db, rep):
    from vlib import formula
    fs = [f for f in db.fns_named("Tins::RadioTap::trailer_size") if f.get("body")]
    if not fs:
        rep.analysis_broken("RadioTap::trailer_size vanished")
        return
    f = fs[0]
    key = "RadioTap::trailer_size"
    def classify(ret, env):
        e = facts.strip_all(ret["c"][0]) if ret.get("c") else None
        for _ in range(4):      # `return c ? 4 : 0`: the arm the enumerated conditions select
            if e is not None and e["k"] == "ConditionalOperator":
                try:
                    e = facts.strip_all(e["c"][1] if formula.ev(e["c"][0], env) else e["c"][2])
                except KeyError:
                    return "?"
        return bool(facts.cval(e)) if e is not None and facts.cval(e) is not None else "?"
    try:
        atoms, table = formula.truth_table(f, classify=classify)
    except facts.AnalysisBroken as e:
        rep.analysis_broken("%s: %s" % (key, e))
        return
    role = {}
    for a in atoms:
        if "skip_to_field" in a:
            role[a] = "present"
        elif "FCS" in a and "FAILED" not in a:
            t_ = a.replace(" ", "")
            role[a] = "fcs-clear" if t_.endswith("==0") else "fcs"
    if sorted(x.replace("-clear", "") for x in role.values()) != ["fcs", "present"]:
        rep.analysis_broken("%s: the FLAGS-present and FCS-bit tests were not recognised among %s" % (key, atoms))
        return
    bad = None
    for vals, res in table.items():
        env = dict(zip(atoms, vals))
        want = all((not env[a]) if role[a].endswith("-clear") else env[a] for a in role)
        if res == "?":
            rep.analysis_broken("%s returns a non-constant" % key)
            return
        if bool(res) != want:
            others = dict((a, v) for a, v in env.items() if a not in role)
            bad = ("with FLAGS present and the FCS bit set the parser strips 4 bytes, but trailer_size() returns %s when %s: the frame "
                   "libtins writes is %s than the one it accepts" % ("0" if want else "4", others or "-", "shorter" if want else "longer"))
            break
    if bad:
        rep.violation("R6-trailer-agreement", key, facts.loc(f), bad)
    else:
        rep.ok("R6-trailer-agreement", key, facts.loc(f), "non-zero exactly when FLAGS is present and FCS is set (%d rows over %s)" % (len(table), atoms))


def r7(db, rep):
    from vlib import cond, cfg
    fs = [f for fid, f in db.functions.items() if fid.startswith("Tins::Internals::try_parse_icmp_extensions(") and f.get("body")]
    if not fs:
        rep.analysis_broken("Internals::try_parse_icmp_extensions vanished")
        return
    f = fs[0]
    g = cfg.FnCFG(f)
    # anchor: the pointer handed to ICMPExtensionsStructure::validate_extensions.  Every definition that can reach it is
    # followed back through locals (declaration initialisers and assignments) to the leaves `stream.pointer() + OFF`
    # and, when OFF is itself a local, to each value stored to that local: one obligation per leaf.
    val = [x for x in facts.fn_nodes(f) if x["k"] == "CallExpr" and x.get("cname") == "validate_extensions" and len(x["c"]) >= 3]
    if not val:
        rep.analysis_broken("try_parse_icmp_extensions: no call of validate_extensions found")
        return

    def defs(var):
        out = []
        for x in facts.fn_nodes(f):
            if x["k"] == "VarDecl" and x.get("var") == var and x.get("c"):
                out.append((x, x["c"][0]))
            if x["k"] == "BinaryOperator" and x.get("op") == "=" and facts.strip_all(x["c"][0]).get("var") == var:
                out.append((x, x["c"][1]))
        return out

    def leaves(e, at, depth=0):
        """[(node at which the value is fixed, offset expression)]"""
        e0 = facts.strip_all(e)
        if depth > 4:
            return [(at, None)]
        if e0["k"] == "DeclRefExpr" and e0.get("var") and not e0.get("parm") and not e0.get("glob") and defs(e0["var"]):
            out = []
            for site, v in defs(e0["var"]):
                out += leaves(v, site, depth + 1)
            return out
        if e0["k"] == "BinaryOperator" and e0.get("op") == "+" and (facts.ty(f, e0) or {}).get("k") == "ptr":
            for a_, b_ in ((e0["c"][0], e0["c"][1]), (e0["c"][1], e0["c"][0])):
                if "pointer()" in facts.expr_str(a_):
                    return leaves(b_, at, depth + 1)
            return [(at, None)]
        return [(at, e)]
    stores = sorted(leaves(val[0]["c"][1], val[0]), key=lambda t: (t[0].get("l") or 0, t[0]["id"]))
    if not stores:
        rep.analysis_broken("try_parse_icmp_extensions: no store to extensions_ptr found")
        return
    mn = None
    for gl in db.globals.values():
        if gl["id"].endswith("ICMPExtensionsStructure::MINIMUM_ICMP_PAYLOAD"):
            mn = (gl.get("init") or {}).get("v")
    if mn is None:
        mn = 128
    def cv(e):
        """constant value, looking through const globals with a constant initialiser"""
        v = facts.cval(e)
        if v is not None:
            return v
        e0 = facts.strip_all(e)
        if e0["k"] == "DeclRefExpr" and e0.get("glob"):
            gl = db.globals.get(e0.get("var"))
            if gl is not None and gl.get("const") and (gl.get("init") or {}).get("v") is not None:
                return gl["init"]["v"]
        return None
    for i, (x, off) in enumerate(stores):
        key = "try_parse_icmp_extensions:extensions_ptr#%d" % (i + 1)
        if off is None:
            rep.analysis_broken("%s: pointer expression at line %s not recognised" % (key, x.get("l")))
            continue
        ov = cv(off)
        ok = ov is not None and ov >= mn
        why = "constant offset %s" % ov
        if not ok:
            ot = facts.expr_str(off)
            for op, l, r in cond.guards_facts(g, g.pos(x)):
                if r is None:
                    continue
                l2, r2 = facts.inline_locals(f, l), facts.inline_locals(f, r)
                if op == ">=" and facts.expr_str(l) == ot and (cv(r2) or 0) >= mn:
                    ok, why = True, "guarded by %s >= %s" % (ot, cv(r2))
                if op == "<=" and facts.expr_str(r) == ot and (cv(l2) or 0) >= mn:
                    ok, why = True, "guarded by %s >= %s" % (ot, cv(l2))
                if op == ">" and facts.expr_str(l) == ot and (cv(r2) or 0) >= mn - 1:
                    ok, why = True, "guarded by %s > %s" % (ot, cv(r2))
        if ok:
            rep.ok("R7-ext-minimum", key, facts.loc(f, x), "extension structure expected at offset >= %d (%s)" % (mn, why))
        else:
            rep.violation("R7-ext-minimum", key, facts.loc(f, x),
                          "the extension structure is looked for at offset `%s`, which can be below %d: the serialiser always pads the quoted "
                          "datagram to %d octets before the extensions, so a packet parsed this way is written back differently"
                          % (facts.expr_str(off), mn, mn))
